"""C17  A sandboxed template cannot obtain private or internal attributes  (runtime half).

Ghost: every call of the builtin ``getattr(o, n)`` with a non-constant name yields a fresh value tagged ``raw_attr`` and a
trace event ``builtin.getattr(o, n)``; ``o[k]`` on an opaque value yields a fresh value tagged ``item`` and an event
``builtin.getitem``.  The tags are about the access path, not about the value.

Obligations (DESIGN section 5, C17)
  C17.is_internal_attribute.*      real source vs. the classification written from the Python data model
  C17.safe.underscore[...]         is_safe_attribute True  ==>  not attr.startswith("_") and not is_internal_attribute(obj, attr)
                                   (SandboxedEnvironment: iff, as documented; ImmutableSandboxedEnvironment: ==> and = base and not modifies)
  C17.getattr.gate / C17.getitem.gate[...]   whole-view case analysis of the two gates: a raw_attr value is returned only when
                                   wrap_str_format(value) returned None and is_safe_attribute(obj, name, value) returned True
  C17.unsafe_undefined             an undefined whose exception class is SecurityError
  C17.format.wrap / .wrapper / .formatter_init / .get_field / .mro      str.format / format_map / Markup.format
  C17.filters.*                    attrgetter closures, do_attr, _prepare_attribute_parts (bounded stand-in), syntactic route scan
"""
from __future__ import annotations

import ast
import inspect
import sys
import types

import z3

from pyvc.contract import VC, Res, FnTask
from pyvc.values import (State, Sym, Ref, HObj, HList, HDict, HIter, SSeq, Closure, Exc, Event, Obj, fresh, fresh_name, sym,
                         Unsupported)
from pyvc.interp import Raised
from pyvc.smt import to_term, model_value, host_const, check_sat
from pyvc.stmts import LoopSpec
from pyvc.ops import isinst_fn, attr_fn
from pyvc import abstract as A
from pyvc import models, extract

from contracts import _sbx
from contracts._sbx import same, is_none, model_str, unescape_z3

import jinja2
import jinja2.sandbox as S
import jinja2.filters as F
from jinja2.exceptions import SecurityError
from jinja2.runtime import Undefined
from markupsafe import Markup, EscapeFormatter

Str = z3.StringSort()
name_fn = z3.Function("attr:__name__:str", Obj, Str)  # value.__name__ as a string
type_fn = z3.Function("py_type", Obj, Obj)  # type(v)


def sv(s):
    return z3.StringVal(s)


def in_set(term, names):
    names = sorted(names)
    return z3.Or(*[term == sv(n) for n in names]) if names else z3.BoolVal(False)


# =====================================================================================================================
# ghost instrumentation shared by the VCs of this module
# =====================================================================================================================
def install_ghosts(I, dyn_getattr=True, getitem=True):
    """Specs for operations on opaque template values."""

    def getattr_obj(I_, st, args, kwargs, node):
        o, name = args
        st.trace.append(Event("read", "attr", [o, name], lineno=getattr(node, "lineno", None)))
        if name == "__name__":
            return [(st, Sym(name_fn(o.t), "str"))]
        return [(st, Sym(attr_fn(name)(o.t), "obj", {f"attr_of:{name}"}))]

    I.specs["getattr_obj"] = getattr_obj

    def builtin_type(I_, st, args, kwargs, node):
        if len(args) == 1 and isinstance(args[0], Sym) and args[0].k == "obj":
            return [(st, Sym(type_fn(args[0].t), "obj", {"type_of"}))]
        r = models.instantiate(I_, st, type, args, kwargs, node)
        if r is None:
            raise Unsupported("type(...)", node)
        return r

    I.specs[("fn", id(type))] = builtin_type

    if dyn_getattr:
        def getattr_dyn(I_, st, args, kwargs, node):
            o, name = args[0], args[1]
            ln = getattr(node, "lineno", None)
            out = []
            # (1) AttributeError
            s1 = st.fork()
            e = Exc(AttributeError, (), tag="getattr", origin=ln)
            s1.trace.append(Event("call", "builtin.getattr", [o, name], result=e, lineno=ln))
            out.append((s1, Raised(e)) if len(args) < 3 else (s1, args[2]))
            # (2) some other exception raised by a property / __getattr__
            s2 = st.fork()
            e2 = Exc(None, (), tag="getattr_other", within=Exception, origin=ln)
            e2.excluded = (AttributeError,)
            e2.from_call = "builtin.getattr"
            s2.trace.append(Event("call", "builtin.getattr", [o, name], result=e2, lineno=ln))
            out.append((s2, Raised(e2)))
            # (3) a value: the raw attribute
            v = fresh("rawattr", "obj", tags={"raw_attr"})
            st.trace.append(Event("call", "builtin.getattr", [o, name], result=v, lineno=ln))
            out.append((st, v))
            return out

        I.specs["getattr_dyn"] = getattr_dyn

    if getitem:
        def getitem_obj(I_, st, args, kwargs, node):
            o, k = args
            if not (isinstance(o, Sym) and o.k == "obj"):
                return None
            ln = getattr(node, "lineno", None)
            out = []
            for cls in (TypeError, KeyError, IndexError, AttributeError):  # an AttributeError out of __getitem__ is a failed lookup too
                s1 = st.fork()
                e = Exc(cls, (), tag="getitem", origin=ln)
                s1.trace.append(Event("call", "builtin.getitem", [o, k], result=e, lineno=ln))
                out.append((s1, Raised(e)))
            s2 = st.fork()
            e2 = Exc(None, (), tag="getitem_other", within=Exception, origin=ln)
            e2.excluded = (TypeError, LookupError, AttributeError)
            e2.from_call = "builtin.getitem"
            s2.trace.append(Event("call", "builtin.getitem", [o, k], result=e2, lineno=ln))
            out.append((s2, Raised(e2)))
            v = fresh("item", "obj", tags={"item"})
            st.trace.append(Event("call", "builtin.getitem", [o, k], result=v, lineno=ln))
            out.append((st, v))
            return out

        I.specs["getitem_obj"] = getitem_obj


def calls(out_or_st, name):
    st = getattr(out_or_st, "st", out_or_st)
    return [e for e in st.trace if e.kind == "call" and e.name == name]


def name_eq(a, b):
    """the two attribute-name values denote the same string: host bool or z3 Bool"""
    if isinstance(a, str) and isinstance(b, str):
        return a == b
    ka = a.k if isinstance(a, Sym) else ("str" if isinstance(a, str) else "obj")
    kb = b.k if isinstance(b, Sym) else ("str" if isinstance(b, str) else "obj")
    if ka == kb:
        return to_term(a, ka) == to_term(b, kb)
    return to_term(a, "obj") == to_term(b, "obj")


def conj(*parts):
    """combine structural bools and z3 formulas"""
    fs = []
    for p in parts:
        if p is False:
            return False
        if p is True or p is None:
            continue
        fs.append(p)
    if not fs:
        return True
    return z3.And(*fs)


class WVC(VC):
    """VC whose refuted side obligations (loop invariants: no model-derived input) get a canned witness that names a
    native probe battery, so that every refutation replays on the real code."""
    battery = None

    def run(self, tier, seed):
        rs = super().run(tier, seed)
        for r in rs:
            if r.status == "refuted" and r.witness is None and self.battery:
                r.witness = {"battery": self.battery}
        return rs


# =====================================================================================================================
# 1. is_internal_attribute
# =====================================================================================================================
# Classification written from the Python data model ("The standard type hierarchy": attributes that expose frame, code and
# traceback objects, and the special `__x__` attributes) and the docstring of is_internal_attribute.
KINDS = [
    ("function", types.FunctionType), ("method", types.MethodType), ("type", type), ("code", types.CodeType),
    ("traceback", types.TracebackType), ("frame", types.FrameType), ("generator", types.GeneratorType),
    ("coroutine", types.CoroutineType), ("async_generator", types.AsyncGeneratorType),
    # "Generic Alias Type" (library reference): "attribute lookups on the alias are forwarded to the original class" - what is
    # internal on a class is internal on its parameterized alias (dict[str], reachable from the default global `dict`)
    ("generic_alias", types.GenericAlias),
]
REQUIRED_INTERNAL = {  # kind -> names that must be internal ("*" = every attribute)
    "function": (), "method": (), "type": ("mro",), "code": "*", "traceback": "*", "frame": "*",
    "generator": ("gi_frame", "gi_code"), "coroutine": ("cr_frame", "cr_code"), "async_generator": ("ag_frame", "ag_code"),
    "generic_alias": ("mro",), "typing_alias": ("mro",),
}
CONFIGURED = {  # kind -> documented module-level configuration sets that may add names
    "function": ("UNSAFE_FUNCTION_ATTRIBUTES",), "method": ("UNSAFE_FUNCTION_ATTRIBUTES", "UNSAFE_METHOD_ATTRIBUTES"),
    "generator": ("UNSAFE_GENERATOR_ATTRIBUTES",), "coroutine": ("UNSAFE_COROUTINE_ATTRIBUTES",),
    "async_generator": ("UNSAFE_ASYNC_GENERATOR_ATTRIBUTES",),
}


def spec_internal(kind, attr, configured=True):
    """executable form of the classification (kind None = any other object)"""
    if attr.startswith("__"):
        return True
    req = REQUIRED_INTERNAL.get(kind, ())
    if req == "*" or attr in req:
        return True
    if configured:
        for setname in CONFIGURED.get(kind, ()):
            if attr in getattr(S, setname):
                return True
    return False


def sample_objects():
    """live sample instance per kind"""
    def f():
        return 0

    class K:
        def m(self):
            return 0

    def g():
        yield 1

    async def co():
        return 1

    async def ag():
        yield 1

    try:
        raise ValueError("x")
    except ValueError as ex:
        tb = ex.__traceback__
    c = co()
    samples = {"function": f, "method": K().m, "type": str, "code": f.__code__, "traceback": tb, "frame": sys._getframe(),
               "generator": g(), "coroutine": c, "async_generator": ag(), "generic_alias": dict[str, int],
               "typing_alias": __import__("typing").List[int], None: K()}
    return samples, c


FORWARDS = z3.Function("forwards_attribute_lookups_to_a_class", Obj, z3.BoolSort())


def alias_origin_spec(I_, st, args, kwargs, node):
    """sandbox._alias_origin(obj): the class behind a forwarding alias, None for everything else"""
    o = args[0]
    out = []
    for s_, b in I_.fork_bool(st, FORWARDS(to_term(o, "obj"))):
        if b:
            s_.assume(z3.Function("alias_origin", Obj, Obj)(to_term(o, "obj")) != host_const(None))  # a class, never None
        out.append((s_, Sym(z3.Function("alias_origin", Obj, Obj)(to_term(o, "obj")), "obj", {"origin_class"}) if b else None))
    return out


def alias_origin_live(task, tier, seed):
    """table: sandbox._alias_origin on live objects: the origin class exactly for the objects that forward attribute lookups
    to a class (types.GenericAlias and the aliases of the typing module), None for classes, instances and other typing forms"""
    import typing
    import collections
    aliases = [(list[int], list), (dict[str, int], dict), (set[int], set), (collections.deque[int], collections.deque), (typing.List[int], list),
               (typing.List, list), (typing.Dict[str, int], dict), (typing.Dict, dict), (typing.Set[int], set), (typing.Deque[int], collections.deque),
               (typing.Deque, collections.deque), (typing.Type[int], type), (typing.DefaultDict[str, int], collections.defaultdict), (type[int], type)]
    others = [list, dict, [1], {}, 3, "x", None, typing.Any, typing.Union[int, str], typing.Optional[int], typing.TypeVar("T"), typing.Callable, len, object()]
    bad = []
    if not hasattr(S, "_alias_origin"):
        for o, c in aliases:
            if getattr(o, "mro", None) == c.mro and not S.is_internal_attribute(o, "mro"):
                bad.append(f"{o!r} forwards `mro` to {c.__name__} but is not classified")
    else:
        for o, c in aliases:
            if S._alias_origin(o) is not c:
                bad.append(f"_alias_origin({o!r}) = {S._alias_origin(o)!r}, forwards to {c.__name__}")
        for o in others:
            forwards = not isinstance(o, type) and isinstance(getattr(o, "__origin__", None), type) and hasattr(o, "mro")
            if (S._alias_origin(o) is not None) != forwards:
                bad.append(f"_alias_origin({o!r}) = {S._alias_origin(o)!r}")
    nm = "C17.alias_origin.live"
    if bad:
        return [Res(nm, "refuted", "table", 0, "; ".join(bad[:3]), "table", {"kind": "typing_alias", "attr": "mro"})]
    return [Res(nm, "discharged", "table", 0, f"{len(aliases)} forwarding aliases, {len(others)} other objects", "table")]


class IsInternal(VC):
    prop = "C17"
    target = "jinja2.sandbox:is_internal_attribute"

    def configure(self, I):
        I.specs["jinja2.sandbox:_alias_origin"] = alias_origin_spec

    def __init__(self):
        super().__init__("C17", "C17.is_internal_attribute")

    def setup(self, I, st):
        self.obj, self.attr = sym("obj", "obj"), sym("attr", "str")
        self.pred = {k: isinst_fn(c)(self.obj.t) for k, c in KINDS}
        # an alias object that forwards attribute lookups to a class (list[int], typing.List[int], typing.List): recognised by
        # sandbox._alias_origin, whose own contract is the table C17.alias_origin.live
        self.pred["generic_alias"] = FORWARDS(self.obj.t)
        # assumption: the nine builtin kinds have pairwise disjoint instance sets (final types / layout conflicts)
        ps = list(self.pred.values())
        st.assume(z3.AtMost(*ps, 1))
        return [self.obj, self.attr], {}

    def required(self):
        a = self.attr.t
        parts = [z3.PrefixOf(sv("__"), a)]
        for k, req in REQUIRED_INTERNAL.items():
            if k not in self.pred:
                continue
            if req == "*":
                parts.append(self.pred[k])
            elif req:
                parts.append(z3.And(self.pred[k], in_set(a, req)))
        return z3.Or(*parts)

    def configured(self):
        a = self.attr.t
        parts = []
        for k, sets in CONFIGURED.items():
            names = set()
            for s in sets:
                names |= set(getattr(S, s))
            parts.append(z3.And(self.pred[k], in_set(a, names)))
        return z3.Or(*parts)

    def p_required(self, pre, out):
        if out.raised:
            return False
        return z3.Implies(self.required(), _sbx.ret_term(out.value))

    def p_no_false_alarm(self, pre, out):
        """docstring: is_internal_attribute(str, "upper") is False - only the classified names are internal"""
        if out.raised:
            return False
        return z3.Implies(_sbx.ret_term(out.value), z3.Or(self.required(), self.configured()))

    posts = [("required", p_required), ("no_false_alarm", p_no_false_alarm)]

    def concretize(self, model, pre, out):
        kind = None
        for k, p in self.pred.items():
            if model_value(model, p) is True:
                kind = k
        return {"kind": kind, "attr": unescape_z3(model_str(model, self.attr.t))}

    def replay(self, w):
        return replay_internal(w)

    def finding_key(self, res):
        w = res.witness or {}
        return f"{w.get('kind')}.{w.get('attr')}"


class KeyedTable(FnTask):
    """table task whose findings are keyed by <kind>.<attr> of the witness"""

    def finding_key(self, res):
        w = res.witness or {}
        return f"{w.get('kind')}.{w.get('attr')}"


def replay_internal(w):
    samples, c = sample_objects()
    try:
        o = samples[w["kind"]]
        got = S.is_internal_attribute(o, w["attr"])
        want_min = spec_internal(w["kind"], w["attr"], configured=False)
        want_max = spec_internal(w["kind"], w["attr"], configured=True)
        bad = (want_min and not got) or (got and not want_max)
        extra = ""
        if w["kind"] == "generic_alias" and w["attr"] == "mro":
            # the input of hunt report C17_1
            try:
                r = S.SandboxedEnvironment().from_string("{{ dict['x'].mro() }}").render()
            except SecurityError:
                r = "<SecurityError>"
            extra = f"; {{{{ dict['x'].mro() }}}} renders {r!r}"
            bad = bad or "class" in r
        return (bool(bad), f"is_internal_attribute(<{w['kind'] or 'plain object'}>, {w['attr']!r}) = {got}; classification: {want_max}" + extra)
    finally:
        c.close()


def internal_live_types(task, tier, seed):
    """table: on live sample instances every attribute that hands out a frame / code / traceback object, every special
    `__x__` attribute and type.mro is classified internal by the real function; the configured sets contain the required names"""
    samples, c = sample_objects()
    out = []
    try:
        for kind, o in samples.items():
            bad = []
            n = 0
            req = REQUIRED_INTERNAL.get(kind, ())
            for name in sorted(set(dir(o)) | set(() if req == "*" else req)):  # dir() of a class omits metaclass attributes (mro)
                try:
                    v = getattr(o, name)
                except Exception:
                    continue
                n += 1
                origin = getattr(o, "__origin__", None) if kind in ("generic_alias", "typing_alias") else None
                forwarded = origin is not None and S.is_internal_attribute(origin, name) and getattr(origin, name, None) == v
                dangerous = (name.startswith("__") or forwarded or isinstance(v, (types.FrameType, types.CodeType, types.TracebackType))
                             or (kind == "type" and name == "mro") or spec_internal(kind, name, configured=False))
                if dangerous and not S.is_internal_attribute(o, name):
                    bad.append(name)
            nm = f"C17.internal.live[{kind or 'object'}]"
            if bad:
                out.append(Res(nm, "refuted", "table", 0, f"attributes {sorted(set(bad))} of a live {kind} hand out frame/code/traceback objects or are special names but are not internal", "table",
                               {"kind": kind, "attr": sorted(set(bad))[0]}))
            else:
                out.append(Res(nm, "discharged", "table", 0, f"{n} attributes of the live sample checked", "table"))
    finally:
        c.close()
    return out


# =====================================================================================================================
# 2. is_safe_attribute
# =====================================================================================================================
internal_fn = z3.Function("spec:is_internal_attribute", Obj, Str, z3.BoolSort())
modifies_fn = z3.Function("spec:modifies_known_mutable", Obj, Str, z3.BoolSort())


def abstract_pred(fn, name):
    def h(I, st, args, kwargs, node):
        o, a = args
        r = Sym(fn(to_term(o, "obj"), to_term(a, "str")), "bool")
        A.call_event(st, name, args, kwargs, r, node)
        return [(st, r)]
    return h


class SafeAttr(VC):
    prop = "C17"

    def __init__(self, cls):
        self.cls = cls
        self.target = f"jinja2.sandbox:{cls.__name__}.is_safe_attribute"
        super().__init__("C17", f"C17.safe.underscore[{cls.__name__}]")
        self.posts = [("private_and_internal", SafeAttr.p_underscore)]
        if cls is S.SandboxedEnvironment:
            self.posts.append(("documented_default", SafeAttr.p_default))
        else:
            self.posts.append(("base_and_immutable", SafeAttr.p_immutable))

    def configure(self, I):
        I.specs["jinja2.sandbox:is_internal_attribute"] = abstract_pred(internal_fn, "is_internal_attribute")
        I.specs["jinja2.sandbox:modifies_known_mutable"] = abstract_pred(modifies_fn, "modifies_known_mutable")
        I.inline.add("jinja2.sandbox:SandboxedEnvironment.is_safe_attribute")
        _sbx.install_super(I, S.ImmutableSandboxedEnvironment, lambda: (self.env, self.cls))

    def setup(self, I, st):
        self.env = A.obj(st, self.cls, "env")
        self.obj, self.attr, self.value = sym("obj", "obj"), sym("attr", "str"), sym("value", "obj")
        return [self.env, self.obj, self.attr, self.value], {}

    def base(self):
        return z3.Not(z3.Or(z3.PrefixOf(sv("_"), self.attr.t), internal_fn(self.obj.t, self.attr.t)))

    def p_underscore(self, pre, out):
        if out.raised:
            return False
        return z3.Implies(_sbx.ret_term(out.value), self.base())

    def p_default(self, pre, out):
        """"Per default all attributes starting with an underscore are considered private as well as the special attributes of
        internal python objects as returned by is_internal_attribute" - and nothing else"""
        if out.raised:
            return False
        return _sbx.ret_term(out.value) == self.base()

    def p_immutable(self, pre, out):
        if out.raised:
            return False
        return _sbx.ret_term(out.value) == z3.And(self.base(), z3.Not(modifies_fn(self.obj.t, self.attr.t)))

    def concretize(self, model, pre, out):
        return {"cls": self.cls.__name__, "attr": unescape_z3(model_str(model, self.attr.t)),
                "internal": bool(model_value(model, internal_fn(self.obj.t, self.attr.t))),
                "modifies": bool(model_value(model, modifies_fn(self.obj.t, self.attr.t))),
                "got": bool(model_value(model, _sbx.ret_term(out.value))) if out.returned else None}

    def replay(self, w):
        return replay_safe_attr(w)


def replay_safe_attr(w):
    """real is_safe_attribute with is_internal_attribute / modifies_known_mutable answering as in the witness"""
    cls = getattr(S, w["cls"])
    env = cls()
    saved = S.is_internal_attribute, S.modifies_known_mutable
    S.is_internal_attribute = lambda o, a: w["internal"]
    S.modifies_known_mutable = lambda o, a: w["modifies"]
    try:
        got = env.is_safe_attribute(object(), w["attr"], None)
    except Exception as ex:
        return (True, f"is_safe_attribute raised {ex!r}")
    finally:
        S.is_internal_attribute, S.modifies_known_mutable = saved
    want = not (w["attr"].startswith("_") or w["internal"])
    if cls is S.ImmutableSandboxedEnvironment:
        want = want and not w["modifies"]
    return (bool(got) != want, f"{w['cls']}.is_safe_attribute(obj, {w['attr']!r}) = {got} with is_internal_attribute={w['internal']}, "
                               f"modifies_known_mutable={w['modifies']}; documented: {want}")


def safe_attr_end_to_end(task, tier, seed):
    """table: real is_safe_attribute on live samples x every attribute name of the sample: True only for non-underscore,
    non-classified names (composition of the two contracts, exercised on the live types)"""
    samples, c = sample_objects()
    out = []
    try:
        for cls in (S.SandboxedEnvironment, S.ImmutableSandboxedEnvironment):
            env = cls()
            bad, n = [], 0
            for kind, o in samples.items():
                for name in list(dir(o)) + ["_x", "__x", "x_", "mro", "gi_frame", "cr_code", "ag_frame", "f_globals", "tb_frame", "co_code"]:
                    n += 1
                    if env.is_safe_attribute(o, name, None) and (name.startswith("_") or spec_internal(kind, name, configured=False)):
                        bad.append((kind, name))
            nm = f"C17.safe.live[{cls.__name__}]"
            if bad:
                out.append(Res(nm, "refuted", "table", 0, f"is_safe_attribute is True for {bad[:5]}", "table", {"cls": cls.__name__, "kind": bad[0][0], "attr": bad[0][1]}))
            else:
                out.append(Res(nm, "discharged", "table", 0, f"{n} (sample, name) pairs", "table"))
    finally:
        c.close()
    return out


def replay_safe_live(w):
    samples, c = sample_objects()
    try:
        if "cls" in w:
            got = getattr(S, w["cls"])().is_safe_attribute(samples[w["kind"]], w["attr"], None)
            bad = got and (w["attr"].startswith("_") or spec_internal(w["kind"], w["attr"], configured=False))
            return (bool(bad), f"{w['cls']}.is_safe_attribute(<{w['kind']}>, {w['attr']!r}) = {got}")
        return replay_internal(w)
    finally:
        c.close()


# =====================================================================================================================
# 3. the gates: SandboxedEnvironment.getattr / getitem / unsafe_undefined
# =====================================================================================================================
def gate_env_specs(I):
    I.specs["SandboxedEnvironment.is_safe_attribute"] = A.abstract_fn("is_safe_attribute", returns="bool")
    I.specs["SandboxedEnvironment.wrap_str_format"] = A.abstract_fn("wrap_str_format", returns="obj", tags=("fmt_wrapper",))
    I.specs["SandboxedEnvironment.unsafe_undefined"] = A.abstract_fn("unsafe_undefined", returns="obj", tags=("security_undefined",))
    I.specs["SandboxedEnvironment.undefined"] = A.abstract_fn("undefined", returns="obj", tags=("undefined",))


class Gate(VC):
    """Whole-view contract of one gate.

    getattr (docs: "prefer the attribute"):  v = builtin getattr(obj, name)
        ok      -> unsafe_undefined(obj, name) unless is_safe_attribute(obj, name, v);  else wrap_str_format(v) if that is not None;  else v
        AttributeError -> obj[name] if that works; on TypeError/LookupError/AttributeError undefined(obj=obj, name=name)
    getitem (docs: "prefer the item"): obj[key] if that works; on TypeError/LookupError/AttributeError, for a string key the attribute branch
        above with name = str(key), and undefined(obj=obj, name=key) when there is no such attribute or the key is no string.
    """
    prop = "C17"
    expect_paths_min = 4

    def __init__(self, fn, key="str"):
        self.fn, self.key = fn, key
        self.target = f"jinja2.sandbox:SandboxedEnvironment.{fn}"
        super().__init__("C17", f"C17.{fn}.gate" + ("" if (fn, key) in (("getattr", "str"), ("getitem", "str")) else f"[{key} key]"))

    def configure(self, I):
        install_ghosts(I)
        gate_env_specs(I)
        # The decision must be taken by the VIRTUAL method self.is_safe_attribute(obj, name, value) (subclasses such as the
        # immutable environment override it).  The module-level helpers are given abstract results so that a gate that inlines
        # "the same rule" instead of calling the method is decided - and refuted - rather than left undecided.
        I.specs["jinja2.sandbox:is_internal_attribute"] = abstract_pred(internal_fn, "is_internal_attribute")
        I.specs["jinja2.sandbox:modifies_known_mutable"] = abstract_pred(modifies_fn, "modifies_known_mutable")
        if self.key == "nonstr":
            _sbx.exact_types(I, {"key": int})
        elif self.key == "strsub":
            # an instance of a subclass of str: isinstance(key, str) holds, str(key) is whatever its __str__ returns
            class StrSub(str):
                pass
            _sbx.exact_types(I, {"key": StrSub})

            def str_obj(I_, st, args, kwargs, node):
                a = args[0]
                if str(a.t) != "key":
                    return None
                s1 = st.fork()
                e = Exc(None, (), tag="str()", within=Exception, origin=getattr(node, "lineno", None))
                out = [(s1, Raised(e))]
                out.append((st, Sym(models.py_str_obj(a.t), "str")))
                return out

            I.specs["str_obj"] = str_obj

    def setup(self, I, st):
        self.env = A.obj(st, S.SandboxedEnvironment, "env")
        self.obj = sym("obj", "obj")
        self.keyv = sym("key", "str") if self.key == "str" else sym("key", "obj")
        return [self.env, self.obj, self.keyv], {}

    # ---- the case analysis -------------------------------------------------------------------------------------
    def attr_branch(self, out, ga, name_for_getattr):
        """the attribute branch after ``ga`` (the builtin getattr event) succeeded with value v"""
        v = ga.result
        wf, sa, uu = calls(out, "wrap_str_format"), calls(out, "is_safe_attribute"), calls(out, "unsafe_undefined")
        if len(wf) > 1 or (wf and not same(wf[0].args[1], v)):
            return False
        if not wf:
            # refused before the value was looked at any further
            if len(sa) != 1 or len(uu) != 1 or not same(out.value, uu[0].result):
                return False
            sargs = sa[0].args[1:]
            ua = uu[0].args[1:]
            return conj(len(sargs) == 3 and same(sargs[0], self.obj) and same(sargs[2], v), len(ua) == 2 and same(ua[0], self.obj),
                        True if self.key == "strsub" else conj(name_eq(sargs[1], name_for_getattr), name_eq(ua[1], name_for_getattr)),
                        z3.Not(to_term(sa[0].result, "bool")))
        w = wf[0].result
        res = out.value
        # the attribute gate decides first, for the format wrapper as well: a private attribute that happens to hold a bound
        # str.format is not handed out in wrapped form either
        if len(sa) != 1:
            return False
        sargs = sa[0].args[1:]
        ok_args = conj(len(sargs) == 3 and same(sargs[0], self.obj) and same(sargs[2], v), name_eq(sargs[1], name_for_getattr))
        r = to_term(sa[0].result, "bool")
        if same(res, w):
            return conj(not uu, ok_args, r, z3.Not(is_none(w)))
        if same(res, v):
            # the raw attribute itself: only behind both gates
            return conj(not uu, ok_args, is_none(w), r)
        if len(uu) == 1 and same(res, uu[0].result):
            ua = uu[0].args[1:]
            if self.key == "strsub":
                # nothing is handed out on this path; which of the two spellings of the name is reported is not constrained
                return conj(len(ua) == 2 and same(ua[0], self.obj), z3.Not(r))
            return conj(len(ua) == 2 and same(ua[0], self.obj), name_eq(ua[1], name_for_getattr), ok_args, z3.Not(r))
        return False

    def undefined_result(self, out):
        ud = calls(out, "undefined")
        if len(ud) != 1 or not same(out.value, ud[0].result):
            return False
        e = ud[0]
        return len(e.args) == 1 and set(e.kwargs) == {"obj", "name"} and same(e.kwargs["obj"], self.obj) and same(e.kwargs["name"], self.keyv)

    def no_gate_calls(self, out):
        return not (calls(out, "wrap_str_format") or calls(out, "is_safe_attribute") or calls(out, "unsafe_undefined"))

    def p_gate(self, pre, out):
        ga, gi = calls(out, "builtin.getattr"), calls(out, "builtin.getitem")
        if out.raised:
            # only exceptions of the two builtin accesses that the documentation does not turn into undefined may escape
            e = out.value
            src = getattr(e, "src", e)
            return getattr(src, "from_call", None) in ("builtin.getattr", "builtin.getitem") or getattr(e, "tag", "") == "str()" and False
        if self.fn == "getattr":
            if len(ga) != 1 or not same(ga[0].args[0], self.obj) or not same(ga[0].args[1], self.keyv):
                return False
            if not isinstance(ga[0].result, Exc):
                return conj(not gi and not calls(out, "undefined"), self.attr_branch(out, ga[0], self.keyv))
            # AttributeError: fall back to the item
            if len(gi) != 1 or not same(gi[0].args[0], self.obj) or not same(gi[0].args[1], self.keyv) or not self.no_gate_calls(out):
                return False
            if not isinstance(gi[0].result, Exc):
                return same(out.value, gi[0].result) and not calls(out, "undefined")
            return self.undefined_result(out)
        # getitem
        if len(gi) != 1 or not same(gi[0].args[0], self.obj) or not same(gi[0].args[1], self.keyv):
            return False
        if not isinstance(gi[0].result, Exc):
            return same(out.value, gi[0].result) and not ga and self.no_gate_calls(out) and not calls(out, "undefined")
        if self.key == "nonstr":
            return not ga and self.no_gate_calls(out) and self.undefined_result(out)
        if not ga:
            # only when str(key) itself failed
            return self.key == "strsub" and self.no_gate_calls(out) and self.undefined_result(out)
        if len(ga) != 1 or not same(ga[0].args[0], self.obj):
            return False
        if isinstance(ga[0].result, Exc):
            return self.no_gate_calls(out) and self.undefined_result(out)
        # the name looked up must be the content of the key, and the gate must be asked about that very name
        looked_up = ga[0].args[1]
        nm = name_eq(looked_up, self.keyv) if self.key == "str" else (looked_up.t == models.py_str_obj(self.keyv.t))
        return conj(not calls(out, "undefined"), nm, self.attr_branch(out, ga[0], looked_up))

    posts = [("whole_view", p_gate)]

    # ---- witness -------------------------------------------------------------------------------------------------
    def concretize(self, model, pre, out):
        ga, gi = calls(out, "builtin.getattr"), calls(out, "builtin.getitem")
        wf, sa = calls(out, "wrap_str_format"), calls(out, "is_safe_attribute")

        def mv(t, default):
            try:
                v = model_value(model, t)
                return v if isinstance(v, bool) else default
            except Exception:
                return default

        w = {"fn": self.fn, "key": self.key,
             "name": unescape_z3(model_str(model, self.keyv.t, "k")) if self.key == "str" else None,
             "has_attr": bool(ga) and not isinstance(ga[-1].result, Exc) if ga else True,
             "has_item": bool(gi) and not isinstance(gi[-1].result, Exc) if gi else False,
             # None = not constrained on this path (the operation was never asked): the replay tries both answers
             "format": mv(z3.Not(is_none(wf[0].result)), False) if wf else None,
             "safe": mv(to_term(sa[0].result, "bool"), True) if sa else None}
        if self.key == "strsub":
            # str(key) is unconstrained on every path (nothing in the code under test restricts it): any string is a model,
            # take a private one so that the property's own oracle applies
            lk = unescape_z3(model_str(model, models.py_str_obj(self.keyv.t), "private"))
            w["str_of_key"] = lk if lk.startswith("_") else "_" + "".join(ch for ch in lk if ch.isalnum())
            w["name"] = "k"
        return w

    def finding_key(self, res):
        w = res.witness or {}
        return f"{w.get('fn')}/{w.get('key')}/has_attr={w.get('has_attr')}/has_item={w.get('has_item')}/format={w.get('format')}/safe={w.get('safe')}"

    def replay(self, w):
        return replay_gate(w)


TRACER, ITEM = object(), object()


def hunt_private_format(fn):
    """the input of hunt report C17_2: private attributes holding bound str.format / format_map"""
    class Probe:
        _secret_fmt = "TRACER-class {0}".format

        def __init__(self):
            self._secret_map = "TRACER-inst {x}".format_map
    env = S.SandboxedEnvironment()
    srcs = ["{{ p._secret_fmt('a') }}", "{{ p._secret_map({'x': 1}) }}"] if fn == "getattr" else ["{{ p['_secret_fmt']('a') }}", "{{ (p|attr('_secret_fmt'))('a') }}",
            "{% for f in [p]|map(attribute='_secret_map') %}{{ f({'x': 2}) }}{% endfor %}"]
    leaks = []
    for src in srcs:
        try:
            r = env.from_string(src).render(p=Probe())
        except SecurityError:
            continue
        if "TRACER" in r:
            leaks.append(f"{src} -> {r!r}")
    return leaks


def replay_gate(w):
    """Real SandboxedEnvironment.getattr / getitem on a probe object built from the witness; the oracle is the case
    analysis of the contract plus the property itself (the raw attribute is handed out only behind both gates)."""
    if w.get("format") and w.get("has_attr"):
        leaks = hunt_private_format(w["fn"])
        if leaks:
            return (True, "private attribute holding a bound str.format handed out as a working wrapper: " + "; ".join(leaks[:2]))
    worst = (False, "")
    for fmt in ([w["format"]] if w.get("format") is not None else [False, True]):
        for safe in ([w["safe"]] if w.get("safe") is not None else [True, False]):
            v, d = replay_gate_one(dict(w, format=fmt, safe=safe))
            if v:
                return (v, d)
            worst = (v, d)
    return worst


def replay_gate_one(w):
    calls_ = []

    class Env(S.SandboxedEnvironment):
        def is_safe_attribute(self, obj, attr, value):
            calls_.append((obj, attr, value))
            return w["safe"]

    env = Env()
    name = w.get("name") or "k"
    raw = "x{0}".format if w["format"] else TRACER

    class P:
        def __getitem__(self, k):
            if w["has_item"]:
                return ITEM
            raise KeyError(k)

    if w["key"] == "nonstr":
        key, lookup = 7, None
    elif w["key"] == "strsub":
        lookup = w.get("str_of_key") or "_private"
        if lookup == name:
            lookup = "_" + lookup

        class K(str):
            def __str__(self):
                return lookup
        key = K(name)
    else:
        key = lookup = name
    p = P()
    if w["has_attr"] and lookup is not None:
        try:
            setattr(P, lookup, raw)
        except Exception as ex:
            return (False, f"cannot build a probe with attribute {lookup!r}: {ex!r}")
    try:
        r = getattr(env, w["fn"])(p, key)
    except Exception as ex:
        return (True, f"{w['fn']}(probe, {key!r}) raised {ex!r}")

    def kind(r):
        if r is TRACER:
            return "raw attribute"
        if r is raw:
            return "raw str.format method"
        if r is ITEM:
            return "item"
        if isinstance(r, Undefined):
            return "security undefined" if r._undefined_exception is SecurityError else "undefined"
        if callable(r):
            return "format wrapper"
        return repr(r)

    got = kind(r)
    has_attr_ = w["has_attr"] and lookup is not None and not (w["fn"] == "getitem" and w["has_item"])
    asked_ok = any(c[0] is p and type(c[1]) is str and c[1] == lookup and c[2] is raw for c in calls_)
    ctx = (f"{w['fn']}(probe, {key!r}) [has_attr={w['has_attr']}, has_item={w['has_item']}, str.format={w['format']}, "
           f"is_safe_attribute->{w['safe']}]")
    # the property's own oracle: the raw attribute only behind both gates
    if got == "raw str.format method":
        return (True, f"{ctx} returned the raw str.format method")
    if got == "format wrapper" and has_attr_ and not (asked_ok and w["safe"]):
        asked = [c[1] for c in calls_]
        return (True, f"{ctx} returned the attribute {lookup!r} as a working format wrapper; is_safe_attribute was asked about {asked} and answered {w['safe']}")
    if got == "raw attribute" and not (asked_ok and w["safe"]):
        asked = [c[1] for c in calls_]
        return (True, f"{ctx} returned the raw attribute {lookup!r}; is_safe_attribute was asked about {asked} and answered {w['safe']}")
    has_attr = w["has_attr"] and lookup is not None
    attr_result = ("security undefined" if not w["safe"] else ("format wrapper" if w["format"] else "raw attribute")) if has_attr else None
    if w["fn"] == "getattr":
        want = attr_result or ("item" if w["has_item"] else "undefined")
    else:
        want = "item" if w["has_item"] else (attr_result or "undefined")
    bad = got != want
    if calls_ and w["key"] != "strsub" and not all(c[0] is p and c[1] == lookup and c[2] is raw for c in calls_):
        return (True, f"{ctx}: is_safe_attribute was called with {[(type(c[0]).__name__, c[1] if isinstance(c[1], str) else type(c[1]).__name__) for c in calls_]} instead of (obj, {lookup!r}, value)")
    return (bad, f"{ctx} returned the {got}; contract: {want}")


class UnsafeUndefined(VC):
    """unsafe_undefined(obj, attribute): an undefined for obj/attribute whose exception class is SecurityError"""
    prop = "C17"
    target = "jinja2.sandbox:SandboxedEnvironment.unsafe_undefined"

    def __init__(self):
        super().__init__("C17", "C17.unsafe_undefined")

    def configure(self, I):
        install_ghosts(I)
        I.specs["SandboxedEnvironment.undefined"] = A.abstract_fn("undefined", returns="obj", tags=("undefined",))

    def setup(self, I, st):
        self.env = A.obj(st, S.SandboxedEnvironment, "env")
        self.obj, self.attr = sym("obj", "obj"), sym("attribute", "str")
        return [self.env, self.obj, self.attr], {}

    def p_post(self, pre, out):
        if out.raised:
            return False
        ud = calls(out, "undefined")
        if len(ud) != 1 or not same(out.value, ud[0].result):
            return False
        kw = ud[0].kwargs
        return kw.get("exc") is SecurityError and same(kw.get("obj"), self.obj) and same(kw.get("name"), self.attr) and set(kw) <= {"exc", "obj", "name", "hint"}

    posts = [("security_error_undefined", p_post)]

    def concretize(self, model, pre, out):
        return {"attr": unescape_z3(model_str(model, self.attr.t, "x"))}

    def replay(self, w):
        env = S.SandboxedEnvironment()
        o = object()
        u = env.unsafe_undefined(o, w["attr"])
        ok = isinstance(u, Undefined) and u._undefined_exception is SecurityError and u._undefined_obj is o and u._undefined_name == w["attr"]
        if ok:
            try:
                str(u)
                ok = False
            except SecurityError:
                pass
        return (not ok, f"unsafe_undefined(o, {w['attr']!r}) -> {u!r} exc={getattr(u, '_undefined_exception', None)}")


def undefined_raises(task, tier, seed):
    """table (dependency of the gate contracts, proved in general under C21): *using* an undefined created with
    exc=SecurityError (calling it, arithmetic, attribute access on the result) raises SecurityError"""
    import jinja2.runtime as R
    out = []
    for ucls in (R.Undefined, R.ChainableUndefined, R.DebugUndefined, R.StrictUndefined):
        env = S.SandboxedEnvironment(undefined=ucls)
        bad = []
        ops = [("call", lambda u: u()), ("add", lambda u: u + 1), ("int", lambda u: int(u)),
               ("attr", (lambda u: u.x.y) if ucls is not R.ChainableUndefined else (lambda u: u.x + 1))]
        for opname, op in ops:
            u = env.unsafe_undefined(object(), "_x")
            try:
                op(u)
                bad.append(opname)
            except SecurityError:
                pass
            except Exception as ex:
                bad.append(f"{opname}:{type(ex).__name__}")
        nm = f"C17.unsafe_undefined.raises[{ucls.__name__}]"
        out.append(Res(nm, "discharged" if not bad else "refuted", "table", 0, f"operations not raising SecurityError: {bad}" if bad else "call/arith/int/attr raise SecurityError", "table",
                       {"undefined": ucls.__name__} if bad else None))
    return out



# =====================================================================================================================
# 4. str.format / str.format_map / Markup.format
# =====================================================================================================================
class FormatterInit(VC):
    """SandboxedFormatter.__init__(env, **kwargs) keeps the environment in `_env` (where get_field reads it) and passes the
    keyword arguments on to the next __init__ (EscapeFormatter: escape=...)"""
    prop = "C17"
    target = "jinja2.sandbox:SandboxedFormatter.__init__"

    def __init__(self, cls):
        self.cls = cls
        super().__init__("C17", f"C17.format.formatter_init[{cls.__name__}]")

    def configure(self, I):
        _sbx.install_super(I, S.SandboxedFormatter, lambda: (self.obj, self.cls))

    def setup(self, I, st):
        self.env = A.obj(st, S.SandboxedEnvironment, "env")
        self.obj = st.alloc(HObj(self.cls), initial=True)
        self.esc = sym("escape", "obj")
        return [self.obj, self.env], ({"escape": self.esc} if self.cls is S.SandboxedEscapeFormatter else {})

    def p_post(self, pre, out):
        if out.raised:
            return False
        f = out.st.get(self.obj).fields
        sup = calls(out, "super().__init__")
        if len(sup) != 1 or sup[0].args:
            return False
        kw = sup[0].kwargs
        want = {"escape": self.esc} if self.cls is S.SandboxedEscapeFormatter else {}
        return f.get("_env") == self.env and set(kw) == set(want) and all(same(kw[k], v) for k, v in want.items())

    posts = [("stores_env", p_post)]


class WrapStrFormat(VC):
    """wrap_str_format(value): "If the given value is a str.format or str.format_map method, return a new function that handles
    sandboxing", else None.  The new function formats with a SandboxedFormatter (SandboxedEscapeFormatter for Markup) bound to
    *this* environment and never calls the original method."""
    prop = "C17"
    target = "jinja2.sandbox:SandboxedEnvironment.wrap_str_format"
    expect_paths_min = 3

    def __init__(self):
        super().__init__("C17", "C17.format.wrap")

    def configure(self, I):
        self.I = I
        install_ghosts(I)
        _sbx.install_star_calls(I)

        def mk(cls):
            def h(I_, st, args, kwargs, node):
                ref = st.alloc(HObj(cls, fields={"_env": args[0] if args else kwargs.get("env")}))
                A.call_event(st, "new_formatter", [cls] + list(args), kwargs, ref, node)
                return [(st, ref)]
            return h

        I.specs[("fn", id(S.SandboxedFormatter))] = mk(S.SandboxedFormatter)
        I.specs[("fn", id(S.SandboxedEscapeFormatter))] = mk(S.SandboxedEscapeFormatter)
        I.specs["Formatter.vformat"] = A.abstract_fn("vformat", returns="str")
        I.specs[("fn", id(S.update_wrapper))] = lambda I_, st, args, kwargs, node: (A.call_event(st, "update_wrapper", args, kwargs, args[0], node), [(st, args[0])])[1]

        def call_obj(I_, st, args, kwargs, node):
            r = fresh("called", "obj", tags={"call_result"})
            A.call_event(st, "call_obj", args, kwargs, r, node)
            return [(st, r)]

        I.specs["call_obj"] = call_obj

    def setup(self, I, st):
        self.env = A.obj(st, S.SandboxedEnvironment, "env")
        self.value = sym("value", "obj")
        v = self.value.t
        self.f_self = attr_fn("__self__")(v)
        self.is_meth = z3.Or(isinst_fn(types.MethodType)(v), isinst_fn(types.BuiltinMethodType)(v))
        self.nm = name_fn(v)
        self.is_str = isinst_fn(str)(self.f_self)
        self.is_markup = isinst_fn(Markup)(self.f_self)
        st.assume(z3.Implies(self.is_markup, self.is_str))  # Markup is a subclass of str
        self.cond = z3.And(self.is_meth, z3.Or(self.nm == sv("format"), self.nm == sv("format_map")), self.is_str)
        return [self.env, self.value], {}

    def p_returns(self, pre, out):
        if out.raised:
            return False
        nf = calls(out, "new_formatter")
        if out.value is None:
            return conj(not nf, z3.Not(self.cond))
        if not (isinstance(out.value, Closure) and out.value.qualname.endswith(".wrapper")):
            return False  # in particular never the method itself
        if len(nf) != 1 or len(nf[0].args) != 2 or nf[0].args[1] != self.env:
            return False  # the formatter must look fields up through this very environment
        cls = nf[0].args[0]
        kw = nf[0].kwargs
        if cls is S.SandboxedEscapeFormatter:
            esc = kw.get("escape")
            if set(kw) != {"escape"} or not (isinstance(esc, Sym) and esc.t.eq(attr_fn("escape")(self.f_self))):
                return False
            return z3.And(self.cond, self.is_markup)
        if cls is S.SandboxedFormatter and not kw:
            return z3.And(self.cond, z3.Not(self.is_markup))
        return False

    def p_wrapper(self, pre, out):
        """format(*a, **k) = type(s)(vformat(s, a, k));  format_map(m) = type(s)(vformat(s, (), m)), TypeError for keyword
        arguments or a positional count other than 1; the bound method itself is never called"""
        if out.raised or not isinstance(out.value, Closure):
            return None
        I = self.I
        st = out.st.fork()
        n0 = len(st.pc)
        t0 = len(st.trace)
        args = A.sseq(st, "wargs", "obj")
        kw = A.adict(st, "wkwargs", "obj", "obj")
        hk = st.get(kw)
        kq = z3.Const("wk_q", Obj)
        nonempty = z3.Exists([kq], z3.Select(hk.dom, kq))
        is_map = self.nm == sv("format_map")
        formatter = calls(out, "new_formatter")[0].result
        parts = []
        n_sub = 0
        subs = I.run_body(st, out.value, {"args": args, "kwargs": kw})
        n_paths = len(subs)
        for s, v in subs:
            extra = z3.And(*s.pc[n0:]) if len(s.pc) > n0 else z3.BoolVal(True)
            new = [e for e in s.trace[t0:] if e.kind == "call"]
            vf = [e for e in new if e.name == "vformat"]
            co = [e for e in new if e.name == "call_obj"]
            if isinstance(v, Raised):
                ok = conj(v.exc.cls is TypeError and not vf and not co, z3.And(is_map, z3.Or(nonempty, args.n != 1)))
            else:
                ok = False
                if len(vf) == 1 and len(co) == 1 and same(v, co[0].result):
                    e = vf[0]
                    # str_type(vformat(...)): the only opaque call, callee type(f_self), argument the vformat result
                    c_ok = (isinstance(co[0].args[0], Sym) and co[0].args[0].t.eq(type_fn(self.f_self)) and len(co[0].args) == 2
                            and same(co[0].args[1], e.result) and not co[0].kwargs)
                    recv_ok = e.args[0] == formatter and isinstance(e.args[1], Sym) and e.args[1].t.eq(self.f_self) and len(e.args) == 4
                    if c_ok and recv_ok:
                        a_, k_ = e.args[2], e.args[3]
                        if isinstance(a_, SSeq) and a_.arr.eq(args.arr) and a_.n.eq(args.n) and k_ == kw:
                            ok = z3.Not(is_map)
                        elif a_ == () and isinstance(k_, Sym):
                            ok = z3.And(is_map, z3.Not(nonempty), args.n == 1, k_.t == z3.Select(args.arr, 0))
            if ok is True:
                continue
            parts.append(z3.Implies(extra, z3.BoolVal(False) if ok is False else ok))
            n_sub += 1
        if not n_paths:
            return False
        return z3.And(*parts) if parts else True

    posts = [("returns", p_returns), ("wrapper", p_wrapper)]

    def concretize(self, model, pre, out):
        return {"battery": "format"}

    def replay(self, w):
        return replay_format(w)


def replay_format(w):
    """native battery for the format route: the property's own oracle (a private attribute never reaches the output of a
    format-string lookup, also through stored method references) plus the documented shape of the wrapper"""
    class P:
        _secret = "TOP-SECRET"
        public = "pub"

        def __getitem__(self, k):
            raise KeyError(k)

    env = S.SandboxedEnvironment()
    p = P()
    probs = []

    def expect_security(what, f):
        try:
            r = f()
            probs.append(f"{what} -> {r!r} (no SecurityError)")
        except SecurityError:
            pass
        except Exception as ex:
            probs.append(f"{what} raised {type(ex).__name__}: {ex}")

    for s in ("a{0._secret}", Markup("a{0._secret}")):
        t = type(s).__name__
        m = env.getattr(s, "format")
        if m is None or getattr(m, "__self__", None) is s:
            probs.append(f"getattr({t}, 'format') is the raw method")
            continue
        expect_security(f"{t}.format", lambda: m(p))
        expect_security(f"{t}.format(kw)", lambda: type(s)("a{x._secret}") and env.getattr(type(s)("a{x._secret}"), "format")(x=p))
        mm = env.getitem(type(s)("a{x._secret}"), "format_map")
        expect_security(f"{t}.format_map", lambda: mm({"x": p}))
        expect_security(f"{t}.format __class__", lambda: env.getattr(type(s)("{0.__class__.__mro__}"), "format")(1))
        expect_security(f"{t}.format item->attr", lambda: env.getattr(type(s)("{0[_secret]}"), "format")(p))
        try:
            ok = env.getattr(type(s)("<{0.public}|{1}|{k}>"), "format")(p, "<b>", k=2)
            want = type(s)("<{0.public}|{1}|{k}>").format(p, "<b>", k=2)
            if ok != want or type(ok) is not type(want):
                probs.append(f"{t}.format result {ok!r} != {want!r}")
            okm = env.getattr(type(s)("<{a}>"), "format_map")({"a": "<i>"})
            if okm != type(s)("<{a}>").format_map({"a": "<i>"}):
                probs.append(f"{t}.format_map result {okm!r}")
        except Exception as ex:
            probs.append(f"{t}: sandboxed format of public fields raised {type(ex).__name__}: {ex}")
        for bad_call in (lambda: mm(), lambda: mm({}, {}), lambda: mm({"x": 1}, y=2)):
            try:
                bad_call()
                probs.append(f"{t}.format_map accepted a wrong argument count")
            except TypeError:
                pass
            except Exception as ex:
                probs.append(f"{t}.format_map wrong-arity call raised {type(ex).__name__}")
    # stored method reference inside a template
    for src in ("{% set f = s.format %}{{ f(p) }}", "{{ s.format(p) }}", "{{ s['format'](p) }}", "{{ (s|attr('format'))(p) }}", "{{ s.format_map({'0': p}) }}"):
        for s in ("a{0._secret}", Markup("a{0._secret}")):
            expect_security(f"template {src!r} ({type(s).__name__})", lambda: env.from_string(src).render(s=s, p=p))
    # values that are no str.format methods are not wrapped
    class Q:
        def format(self, *a):
            return "q"
    for v in (Q().format, "x".upper, len, 3, None, P.__getitem__):
        if env.wrap_str_format(v) is not None:
            probs.append(f"wrap_str_format({v!r}) is not None")
    return (bool(probs), "; ".join(probs[:4]) if probs else "format battery: all lookups went through the sandbox")


acc_fns = {}


class GetField(WVC):
    """SandboxedFormatter.get_field(field_name, args, kwargs): the object is get_value(first) folded through
    env.getattr / env.getitem along the parsed path - for every path length (loop invariant obj = acc(k))."""
    prop = "C17"
    target = "jinja2.sandbox:SandboxedFormatter.get_field"
    battery = "get_field"

    def __init__(self):
        super().__init__("C17", "C17.format.get_field")

    def configure(self, I):
        self.raw = []
        install_ghosts(I)
        for key in ("getattr_dyn", "getitem_obj"):
            base = I.specs[key]

            def wrapped(I_, st, args, kwargs, node, base=base, key=key):
                self.raw.append((key, getattr(node, "lineno", None)))
                return base(I_, st, args, kwargs, node)

            I.specs[key] = wrapped
        self.G = z3.Function("env.getattr", Obj, Obj, Obj)
        self.H = z3.Function("env.getitem", Obj, Obj, Obj)
        self.acc = z3.Function("get_field.acc", z3.IntSort(), Obj)

        def env_call(fn, name):
            def h(I_, st, args, kwargs, node):
                r = Sym(fn(to_term(args[1], "obj"), to_term(args[2], "obj")), "obj", {name})
                A.call_event(st, name, args, kwargs, r, node)
                return [(st, r)]
            return h

        I.specs["SandboxedEnvironment.getattr"] = env_call(self.G, "env.getattr")
        I.specs["SandboxedEnvironment.getitem"] = env_call(self.H, "env.getitem")
        I.specs["SandboxedFormatter.get_value"] = A.abstract_fn("get_value", result=lambda st, a, k: self.gv)

        def split(I_, st, args, kwargs, node):
            A.call_event(st, "formatter_field_name_split", args, kwargs, None, node)
            return [(st, (self.first, st.alloc(HIter(self.rest, 0))))]

        I.specs[("fn", id(S.formatter_field_name_split))] = split
        I.loops[("SandboxedFormatter.get_field", 0)] = LoopSpec(
            lambda ctx: [to_term(ctx.local("obj"), "obj") == self.acc(ctx.k)], havoc={"obj": "obj"}, name="path_loop")

    def setup(self, I, st):
        self.env = A.obj(st, S.SandboxedEnvironment, "env")
        self.fmt = A.obj(st, S.SandboxedFormatter, "formatter", fields={"_env": self.env})
        self.field_name = sym("field_name", "str")
        self.args, self.kwargs = sym("args", "obj"), sym("kwargs", "obj")
        self.first = sym("first", "obj")
        self.rest = _sbx_fresh_pairs("rest")
        self.gv = sym("get_value_result", "obj")
        isattr, idx = self.rest.arr
        j = z3.Int("gf_j")
        # definition of the specification fold (acc is a fresh function symbol: a definitional extension)
        st.assume(self.rest.n >= 0, self.acc(0) == self.gv.t,
                  z3.ForAll([j], z3.Implies(z3.And(0 <= j, j < self.rest.n),
                                            self.acc(j + 1) == z3.If(z3.Select(isattr, j), self.G(self.acc(j), z3.Select(idx, j)), self.H(self.acc(j), z3.Select(idx, j))))))
        return [self.fmt, self.field_name, self.args, self.kwargs], {}

    def p_result(self, pre, out):
        if out.raised:
            return False
        gv = calls(out, "get_value")
        sp = calls(out, "formatter_field_name_split")
        if len(gv) != 1 or len(sp) != 1 or not same(sp[0].args[0], self.field_name):
            return False
        a = gv[0].args
        if not (len(a) == 4 and same(a[1], self.first) and same(a[2], self.args) and same(a[3], self.kwargs)):
            return False
        if not (isinstance(out.value, tuple) and len(out.value) == 2 and same(out.value[1], self.first)):
            return False
        if not same(gv[0].result, self.gv):
            return False
        return to_term(out.value[0], "obj") == self.acc(self.rest.n)

    def p_no_raw(self, pre, out):
        """no builtin getattr / subscript on the looked-up objects anywhere in the function (all iterations included)"""
        return not self.raw

    posts = [("fold_through_env", p_result), ("no_raw_access", p_no_raw)]

    def concretize(self, model, pre, out):
        return {"battery": "get_field"}

    def run(self, tier, seed):
        # the loop invariant refers to acc: make its defining axioms part of the side obligations' hypotheses
        return super().run(tier, seed)

    def replay(self, w):
        return replay_get_field(w)


def _sbx_fresh_pairs(prefix):
    from pyvc.values import fresh_sseq
    return fresh_sseq(prefix, ("bool", "obj"))


def replay_get_field(w):
    """real SandboxedFormatter.get_field / the real wrapper on recording probes: every lookup of a path segment must be one
    env.getattr / env.getitem call, and the result the fold of their results"""
    log = []

    class Probe:
        def __init__(self, name):
            object.__setattr__(self, "_n", name)

        def __getattribute__(self, k):
            if k != "_n" and not k.startswith("__"):
                log.append(("raw-attr", object.__getattribute__(self, "_n"), k))
            return object.__getattribute__(self, k)

        def __getitem__(self, k):
            log.append(("raw-item", object.__getattribute__(self, "_n"), k))
            raise KeyError(k)

    class Env(S.SandboxedEnvironment):
        def getattr(self, obj, attribute):
            log.append(("env.getattr", object.__getattribute__(obj, "_n"), attribute))
            return Probe(object.__getattribute__(obj, "_n") + "." + attribute)

        def getitem(self, obj, argument):
            log.append(("env.getitem", object.__getattribute__(obj, "_n"), argument))
            return Probe(object.__getattribute__(obj, "_n") + "[%s]" % argument)

    env = Env()
    probs = []
    for field, want in (("0.a.b", [("env.getattr", "p", "a"), ("env.getattr", "p.a", "b")]),
                        ("0[k].c", [("env.getitem", "p", "k"), ("env.getattr", "p[k]", "c")]),
                        ("0._x[3]", [("env.getattr", "p", "_x"), ("env.getitem", "p._x", 3)]),
                        ("0", [])):
        del log[:]
        fm = S.SandboxedFormatter(env)
        try:
            obj, first = fm.get_field(field, (Probe("p"),), {})
        except Exception as ex:
            probs.append(f"get_field({field!r}) raised {ex!r}")
            continue
        if log != want:
            probs.append(f"get_field({field!r}) performed {log} instead of {want}")
    return (bool(probs), "; ".join(probs[:3]) if probs else "get_field battery: only env.getattr/env.getitem lookups")


def format_mro(task, tier, seed):
    """table: in both formatter classes get_field resolves to SandboxedFormatter.get_field, vformat / _vformat / get_value to
    string.Formatter (whose documented vformat resolves every replacement field through self.get_field)"""
    import string
    out = []
    for cls in (S.SandboxedFormatter, S.SandboxedEscapeFormatter):
        bad = []
        if inspect.getattr_static(cls, "get_field") is not S.SandboxedFormatter.__dict__.get("get_field"):
            bad.append("get_field")
        for nm in ("vformat", "_vformat", "get_value", "parse", "convert_field"):
            if inspect.getattr_static(cls, nm) is not string.Formatter.__dict__[nm]:
                bad.append(nm)
        if cls is S.SandboxedEscapeFormatter and inspect.getattr_static(cls, "format_field") is not EscapeFormatter.__dict__["format_field"]:
            bad.append("format_field")
        nmo = f"C17.format.mro[{cls.__name__}]"
        out.append(Res(nmo, "refuted" if bad else "discharged", "table", 0, f"unexpected resolution of {bad}" if bad else "method resolution as assumed by the contracts", "table",
                       {"battery": "format"} if bad else None))
    return out


def vformat_standin(task, tier, seed):
    """bounded stand-in for the dependency `string.Formatter.vformat resolves fields only through self.get_field`: real
    vformat of both sandboxed formatter classes over generated format strings, lookups recorded by probes"""
    import itertools
    segs = ["", ".a", "[k]", "._p", ".a.b", "[0].c", ".__class__"]
    heads = ["0", "x", ""]
    convs = ["", "!r", "!s"]
    specs = ["", ":>4", ":{w}"]
    n = 0
    bad = []
    for cls in (S.SandboxedFormatter, S.SandboxedEscapeFormatter):
        for head, seg, conv, spec in itertools.product(heads, segs, convs, specs):
            seen = []

            class Fm(cls):
                def get_field(self, field_name, args, kwargs):
                    seen.append(field_name)
                    return "v", field_name

            fs = "pre{" + head + seg + conv + spec + "}post"
            kwargs = {"escape": (lambda x: x)} if cls is S.SandboxedEscapeFormatter else {}
            fm = Fm(S.SandboxedEnvironment(), **kwargs)
            try:
                fm.vformat(fs, ("A",), {"x": "B", "w": 3})
            except Exception:
                pass
            n += 1
            want = [(head + seg) or "0"] + (["w"] if "{w}" in spec else [])  # "{}" is auto-numbered, "{.a}" is passed on as ".a"
            if seen != want:
                bad.append((cls.__name__, fs, seen))
    task.bound_text = f"{n} format strings: heads {heads} x paths {segs} x conversions {convs} x specs {specs}, both formatter classes"
    if bad:
        return [Res("C17.format.vformat_dependency", "refuted", "bounded", 0, f"vformat bypassed get_field: {bad[:3]}", "bounded", {"battery": "format"})]
    return [Res("C17.format.vformat_dependency", "bounded-ok", "bounded", 0, task.bound_text, "bounded")]



# =====================================================================================================================
# 5. filters: every attribute lookup with a non-constant name goes through environment.getitem / environment.getattr
# =====================================================================================================================
class ClosureVC(WVC):
    """contract on a function nested in a repo function; the free variables are bound in a cell frame"""
    outer = ""
    inner = ""

    def cells(self, I, st):
        raise NotImplementedError

    def closure(self, I):
        node, module = extract.nested_function_ast(self.outer, self.inner)
        return Closure(node, module, [self.cell_fid], f"{self.outer.split(':')[1]}.<locals>.{self.inner}")

    def setup(self, I, st):
        self.cell_fid = st.new_frame(self.cells(I, st))
        return self.call_args(I, st)


def env_lookup_specs(I, task, clsname="Environment"):
    """environment.getitem / getattr as ghost functions GI / GA, recorded; raw accesses counted on the task"""
    task.raw = []
    install_ghosts(I)
    for key in ("getattr_dyn", "getitem_obj", "getattr_obj"):
        base = I.specs[key]

        def wrapped(I_, st, args, kwargs, node, base=base, key=key):
            task.raw.append((key, getattr(node, "lineno", None)))
            return base(I_, st, args, kwargs, node)

        I.specs[key] = wrapped
    task.GI = z3.Function("environment.getitem", Obj, Obj, Obj)
    task.GA = z3.Function("environment.getattr", Obj, Obj, Obj)
    task.PP = z3.Function("postprocess", Obj, Obj)

    def env_call(fn, name):
        def h(I_, st, args, kwargs, node):
            if len(args) != 3 or kwargs:
                raise Unsupported(f"{name} with unexpected arguments", node)
            r = Sym(fn(to_term(args[1], "obj"), to_term(args[2], "obj")), "obj", {name})
            A.call_event(st, name, args, kwargs, r, node)
            return [(st, r)]
        return h

    I.specs[f"{clsname}.getitem"] = env_call(task.GI, "environment.getitem")
    I.specs[f"{clsname}.getattr"] = env_call(task.GA, "environment.getattr")

    def call_obj(I_, st, args, kwargs, node):
        if isinstance(args[0], Sym) and str(args[0].t) == "postprocess" and len(args) == 2 and not kwargs:
            r = Sym(task.PP(to_term(args[1], "obj")), "obj")
            A.call_event(st, "postprocess", args[1:], kwargs, r, node)
            return [(st, r)]
        return None

    I.specs["call_obj"] = call_obj


class AttrGetter(ClosureVC):
    """make_attrgetter(environment, attribute, postprocess, default).attrgetter(item), for every list of parts:
         acc(0) = item;  acc(j+1) = r if not (default is not None and r is Undefined) else default,  r = environment.getitem(acc(j), parts[j])
         result = postprocess(acc(n)) if postprocess is not None else acc(n)
    ("looks up the given attribute from a passed object with the rules of the environment")."""
    prop = "C17"
    outer = "jinja2.filters:make_attrgetter"
    inner = "attrgetter"
    battery = "filters"

    def __init__(self):
        super().__init__("C17", "C17.filters.make_attrgetter.attrgetter")

    def configure(self, I):
        env_lookup_specs(I, self)
        self.acc = z3.Function("attrgetter.acc", z3.IntSort(), Obj)
        I.loops[("make_attrgetter.<locals>.attrgetter", 0)] = LoopSpec(
            lambda ctx: [to_term(ctx.local("item"), "obj") == self.acc(ctx.k)], havoc={"item": "obj"}, name="parts_loop")

    def cells(self, I, st):
        self.env = A.obj(st, jinja2.Environment, "environment")
        self.parts = A.sseq(st, "parts", "obj")
        self.default = sym("default", "obj")
        self.postprocess = sym("postprocess", "obj")
        return {"environment": self.env, "parts": self.parts, "default": self.default, "postprocess": self.postprocess}

    def call_args(self, I, st):
        self.item = sym("item", "obj")
        j = z3.Int("ag_j")
        r = self.GI(self.acc(j), z3.Select(self.parts.arr, j))
        use_default = z3.And(self.default.t != host_const(None), isinst_fn(Undefined)(r))
        st.assume(self.acc(0) == self.item.t,
                  z3.ForAll([j], z3.Implies(z3.And(0 <= j, j < self.parts.n), self.acc(j + 1) == z3.If(use_default, self.default.t, r))))
        return [self.item], {}

    def p_result(self, pre, out):
        if out.raised:
            return False
        final = self.acc(self.parts.n)
        pp = calls(out, "postprocess")
        if pp:
            if len(pp) != 1 or not same(out.value, pp[0].result):
                return False
            return z3.And(self.postprocess.t != host_const(None), to_term(pp[0].args[0], "obj") == final)
        return z3.And(self.postprocess.t == host_const(None), to_term(out.value, "obj") == final)

    def p_no_raw(self, pre, out):
        return not self.raw

    posts = [("fold_through_environment_getitem", p_result), ("no_raw_access", p_no_raw)]

    def concretize(self, model, pre, out):
        return {"battery": "filters"}

    def replay(self, w):
        return replay_filters(w)


class MultiAttrGetter(ClosureVC):
    """make_multi_attrgetter(...).attrgetter(item) for m comma separated attributes, each with a path of any length:
    result[i] = postprocess?(fold of environment.getitem over parts[i] starting from item)"""
    prop = "C17"
    outer = "jinja2.filters:make_multi_attrgetter"
    inner = "attrgetter"
    battery = "filters"

    def __init__(self, m):
        self.m = m
        super().__init__("C17", f"C17.filters.make_multi_attrgetter.attrgetter[{m} attributes]")

    def configure(self, I):
        env_lookup_specs(I, self)
        self.accs = {}

        def inv(ctx):
            f = self.accs[str(ctx.seq.arr)]
            return [to_term(ctx.local("item_i"), "obj") == f(ctx.k)]

        I.loops[("make_multi_attrgetter.<locals>.attrgetter", 1)] = LoopSpec(inv, havoc={"item_i": "obj"}, name="path_loop")

        def enum(I_, st, args, kwargs, node):
            items = I_.iter_concrete(st, args[0], node)
            return [(st, tuple((i, x) for i, x in enumerate(items)))]

        I.specs[("fn", id(enumerate))] = enum
        base = I.seq_binop

        def seq_binop(st, op, a, b, node):
            if op is ast.Mult and isinstance(a, Ref) and isinstance(st.get(a), HList) and st.get(a).concrete and isinstance(b, int):
                return [(st, st.alloc(HList(items=list(st.get(a).items) * b)))]
            return base(st, op, a, b, node)

        I.seq_binop = seq_binop

    def cells(self, I, st):
        self.env = A.obj(st, jinja2.Environment, "environment")
        self.paths = [A.sseq(st, f"path{i}", "obj") for i in range(self.m)]
        self.parts = st.alloc(HList(items=list(self.paths)), initial=True)
        self.postprocess = sym("postprocess", "obj")
        return {"environment": self.env, "parts": self.parts, "postprocess": self.postprocess}

    def call_args(self, I, st):
        self.item = sym("item", "obj")
        for i, pth in enumerate(self.paths):
            f = z3.Function(f"multi.acc{i}", z3.IntSort(), Obj)
            self.accs[str(pth.arr)] = f
            j = z3.Int(f"mg_j{i}")
            st.assume(f(0) == self.item.t,
                      z3.ForAll([j], z3.Implies(z3.And(0 <= j, j < pth.n), f(j + 1) == self.GI(f(j), z3.Select(pth.arr, j)))))
        return [self.item], {}

    def p_result(self, pre, out):
        if out.raised:
            return False
        v = out.value
        if not isinstance(v, Ref) or not isinstance(out.st.get(v), HList) or not out.st.get(v).concrete:
            return False
        items = out.st.get(v).items
        if len(items) != self.m:
            return False
        pp = calls(out, "postprocess")
        fs = []
        for i, pth in enumerate(self.paths):
            final = self.accs[str(pth.arr)](pth.n)
            if pp:
                if len(pp) != self.m or not same(items[i], pp[i].result):
                    return False
                fs.append(z3.And(self.postprocess.t != host_const(None), to_term(pp[i].args[0], "obj") == final))
            else:
                if not isinstance(items[i], Sym):
                    return False
                fs.append(z3.And(self.postprocess.t == host_const(None), to_term(items[i], "obj") == final))
        return z3.And(*fs)

    def p_no_raw(self, pre, out):
        return not self.raw

    posts = [("fold_through_environment_getitem", p_result), ("no_raw_access", p_no_raw)]

    def concretize(self, model, pre, out):
        return {"battery": "filters"}

    def replay(self, w):
        return replay_filters(w)


class DoAttr(VC):
    """do_attr(environment, obj, name): "works like foo.bar, but returns undefined instead of falling back to foo["bar"] if the
    attribute doesn't exist": the result is what environment.getattr(obj, name) returned, or environment.undefined(obj=obj, name=name)
    when neither the static nor the dynamic lookup finds the attribute; results of getattr_static / hasattr never flow out."""
    prop = "C17"
    target = "jinja2.filters:do_attr"

    def __init__(self):
        super().__init__("C17", "C17.filters.do_attr")

    def configure(self, I):
        env_lookup_specs(I, self)
        I.specs["Environment.undefined"] = A.abstract_fn("environment.undefined", returns="obj", tags=("undefined",))
        I.specs[("fn", id(F.getattr_static))] = A.abstract_fn("getattr_static", returns="obj", raises=(AttributeError,), tags=("static_attr",))
        I.specs[("fn", id(hasattr))] = A.abstract_fn("hasattr", returns="bool")

    def setup(self, I, st):
        self.env = A.obj(st, jinja2.Environment, "environment")
        self.obj, self.attr = sym("obj", "obj"), sym("name", "str")
        return [self.env, self.obj, self.attr], {}

    def p_result(self, pre, out):
        if out.raised:
            return False
        gs, ha = calls(out, "getattr_static"), calls(out, "hasattr")
        ga, ud = calls(out, "environment.getattr"), calls(out, "environment.undefined")
        if self.raw or calls(out, "environment.getitem"):
            return False
        if ga:
            if len(ga) != 1 or ud or not same(out.value, ga[0].result):
                return False
            if not (same(ga[0].args[1], self.obj) and same(ga[0].args[2], self.attr)):
                return False
            # reached only when the attribute exists statically or dynamically
            if len(gs) == 1 and not isinstance(gs[0].result, Exc):
                return True
            return conj(len(ha) == 1 and same(ha[0].args[0], self.obj) and same(ha[0].args[1], self.attr), to_term(ha[0].result, "bool")) if ha else False
        if len(ud) != 1 or not same(out.value, ud[0].result):
            return False
        kw = ud[0].kwargs
        if not (set(kw) == {"obj", "name"} and same(kw["obj"], self.obj) and same(kw["name"], self.attr) and len(ud[0].args) == 1):
            return False
        if not (len(gs) == 1 and isinstance(gs[0].result, Exc) and len(ha) == 1):
            return False
        return z3.Not(to_term(ha[0].result, "bool"))

    posts = [("only_environment_getattr_or_undefined", p_result)]

    def concretize(self, model, pre, out):
        return {"battery": "filters"}

    def replay(self, w):
        return replay_filters(w)


class DoRound(VC):
    """do_round: the only other builtin getattr with a non-constant name in filters.py, `getattr(math, method)`, is reached only
    with method in {"ceil", "floor"} and its receiver is the math module (never a template value)"""
    prop = "C17"
    target = "jinja2.filters:do_round"

    def __init__(self):
        super().__init__("C17", "C17.filters.do_round.getattr_dominated")

    def configure(self, I):
        import math
        self.sites = []

        def getattr_dyn(I_, st, args, kwargs, node):
            self.sites.append((args[0], args[1], list(st.pc)))
            r = fresh("mathfn", "obj")
            return [(st, r)]

        I.specs["getattr_dyn"] = getattr_dyn
        for op in (ast.Mult, ast.Pow, ast.Div):
            I.specs[("binop", op)] = lambda I_, st, args, kwargs, node: [(st, fresh("num", "obj"))]
        I.specs["call_obj"] = lambda I_, st, args, kwargs, node: [(st, fresh("called", "obj"))]
        I.specs[("fn", id(round))] = lambda I_, st, args, kwargs, node: [(st, fresh("rounded", "obj"))]
        I.specs[("fn", id(float))] = lambda I_, st, args, kwargs, node: [(st, fresh("as_float", "obj"))]
        I.specs[("fn", id(math.isfinite))] = lambda I_, st, args, kwargs, node: [(st, fresh("isfinite", "bool"))]
        I.specs[("fn", id(F.t.cast))] = lambda I_, st, args, kwargs, node: [(st, args[1])]

    def setup(self, I, st):
        self.value, self.precision, self.method = sym("value", "obj"), sym("precision", "obj"), sym("method", "str")
        return [self.value, self.precision, self.method], {}

    def p_sites(self, pre, out):
        import math
        fs = []
        for recv, name, pc in self.sites:
            if recv is not math or not isinstance(name, Sym):
                return False
            fs.append(z3.Implies(z3.And(*pc) if pc else z3.BoolVal(True), z3.Or(name.t == sv("ceil"), name.t == sv("floor"))))
        return z3.And(*fs) if fs else None

    def p_rejects(self, pre, out):
        """"method must be common, ceil or floor" """
        ok = in_set(self.method.t, ("common", "ceil", "floor"))
        if out.raised:
            return conj(out.value.cls is jinja2.exceptions.FilterArgumentError, z3.Not(ok))
        return ok

    posts = [("getattr_on_math_with_checked_name", p_sites), ("rejects_other_methods", p_rejects)]

    def concretize(self, model, pre, out):
        return {"battery": "round", "method": unescape_z3(model_str(model, self.method.t, "__doc__"))}

    def replay(self, w):
        m = w.get("method") or "__doc__"
        env = jinja2.Environment()
        probs = []
        for meth in (m, "__doc__", "pi", "sqrt", "__class__"):
            if meth in ("common", "ceil", "floor"):
                continue
            try:
                r = F.do_round(2.5, 0, meth)
                probs.append(f"do_round(2.5, 0, {meth!r}) -> {r!r}")
            except jinja2.exceptions.FilterArgumentError:
                pass
            except Exception as ex:
                probs.append(f"do_round(2.5, 0, {meth!r}) raised {type(ex).__name__}: {ex}")
        return (bool(probs), "; ".join(probs[:3]) if probs else "do_round rejects every method other than common/ceil/floor")


def spec_parts(attr):
    """docstring of make_attrgetter: "Dots are allowed to access attributes of attributes.  Integer parts in paths are looked up
    as integers." """
    if attr is None:
        return []
    if not isinstance(attr, str):
        return [attr]
    out, cur = [], ""
    for ch in attr + ".":
        if ch == ".":
            out.append(int(cur) if cur != "" and all(c in "0123456789" for c in cur) else cur)
            cur = ""
        else:
            cur += ch
    return out


def parts_standin(task, tier, seed):
    import itertools
    alphabet = "a_1."
    maxlen = 6 if tier == "quick" else 8
    n, bad = 0, []
    for ln in range(0, maxlen + 1):
        for tup in itertools.product(alphabet, repeat=ln):
            a = "".join(tup)
            n += 1
            try:
                got = F._prepare_attribute_parts(a)
            except Exception as ex:
                got = repr(ex)
            if got != spec_parts(a) or [type(x) for x in got] != [type(x) for x in spec_parts(a)]:
                bad.append((a, got))
    for a in (None, 0, 7, -1):
        n += 1
        if F._prepare_attribute_parts(a) != spec_parts(a):
            bad.append((a, F._prepare_attribute_parts(a)))
    task.bound_text = f"all strings over {alphabet!r} up to length {maxlen}, plus None and integers ({n} inputs)"
    if bad:
        return [Res("C17.filters._prepare_attribute_parts", "refuted", "bounded", 0, f"{bad[:3]}", "bounded", {"battery": "parts", "attr": bad[0][0]})]
    return [Res("C17.filters._prepare_attribute_parts", "bounded-ok", "bounded", 0, task.bound_text, "bounded")]


def replay_parts(w):
    a = w.get("attr")
    got = F._prepare_attribute_parts(a)
    return (got != spec_parts(a), f"_prepare_attribute_parts({a!r}) = {got!r}, documented: {spec_parts(a)!r}")


# ---- syntactic route scan over the whole module --------------------------------------------------------------------------
DYNAMIC_ACCESS = {"getattr", "hasattr", "getattr_static", "setattr", "delattr", "vars", "dir", "attrgetter", "methodcaller",
                  "__getattribute__", "__getattr__", "eval", "exec", "__import__", "globals", "locals"}
REFLECTIVE_ATTRS = {"__dict__", "__getattribute__", "__getattr__", "__class__", "__globals__", "__subclasses__", "__mro__", "__builtins__"}
ALLOWED_SITES = {("do_attr", "getattr_static"): "C17.filters.do_attr", ("do_attr", "hasattr"): "C17.filters.do_attr",
                 ("do_round", "getattr"): "C17.filters.do_round.getattr_dominated"}
NAME_VARS = {"attribute", "attr"}
GETTERS = {"make_attrgetter", "make_multi_attrgetter"}
VERIFIED_BY_VC = {"make_attrgetter", "make_multi_attrgetter", "_prepare_attribute_parts"}


def is_env_expr(e):
    return (isinstance(e, ast.Name) and e.id == "environment") or (isinstance(e, ast.Attribute) and e.attr == "environment" and isinstance(e.value, ast.Name))


def scan_filters_source(src):
    """-> list of offending sites {function, line, code, why}"""
    tree = ast.parse(src)
    top = {n.name: n for n in tree.body if isinstance(n, (ast.FunctionDef, ast.AsyncFunctionDef))}
    bad = []

    def params(fn):
        a = fn.args
        return [x.arg for x in a.posonlyargs + a.args], [x.arg for x in a.kwonlyargs]

    def walk_fn(fn, owner):
        parents = {}
        for n in ast.walk(fn):
            for c in ast.iter_child_nodes(n):
                parents[c] = n
        for n in ast.walk(fn):
            if isinstance(n, ast.Call):
                f = n.func
                if isinstance(f, ast.Name) and f.id in DYNAMIC_ACCESS:
                    const = len(n.args) >= 2 and isinstance(n.args[1], ast.Constant) and isinstance(n.args[1].value, str)
                    if not const and (owner, f.id) not in ALLOWED_SITES:
                        bad.append({"function": owner, "line": n.lineno, "code": ast.unparse(n), "why": "reflective access with a non-constant name outside the verified sites"})
                if isinstance(f, ast.Attribute) and f.attr in DYNAMIC_ACCESS and not (f.attr in ("getattr",) and is_env_expr(f.value)):
                    bad.append({"function": owner, "line": n.lineno, "code": ast.unparse(n), "why": "reflective method call"})
                if isinstance(f, ast.Name) and f.id in GETTERS:
                    if not n.args or not is_env_expr(n.args[0]):
                        bad.append({"function": owner, "line": n.lineno, "code": ast.unparse(n), "why": "attribute getter not built on the active environment"})
            if isinstance(n, ast.Attribute) and n.attr in REFLECTIVE_ATTRS:
                bad.append({"function": owner, "line": n.lineno, "code": ast.unparse(n), "why": "reflective attribute"})
            if owner not in VERIFIED_BY_VC and isinstance(n, ast.Name) and n.id in NAME_VARS and isinstance(n.ctx, ast.Load):
                par = parents.get(n)
                ok = False
                if isinstance(par, ast.Compare) and all(isinstance(o, (ast.Is, ast.IsNot)) for o in par.ops):
                    ok = True
                elif isinstance(par, ast.Call) and isinstance(par.func, ast.Name):
                    callee = par.func.id
                    if callee in GETTERS and len(par.args) >= 2 and par.args[1] is n:
                        ok = True
                    elif callee in top and n in par.args:
                        pos, _ = params(top[callee])
                        i = par.args.index(n)
                        ok = i < len(pos) and pos[i] in NAME_VARS
                elif isinstance(par, ast.keyword) and par.arg in NAME_VARS:
                    ok = True
                if not ok:
                    bad.append({"function": owner, "line": n.lineno, "code": ast.unparse(par) if par is not None else n.id,
                                "why": "an attribute-name argument is used other than by passing it to make_attrgetter / make_multi_attrgetter"})

    for name, fn in top.items():
        walk_fn(fn, name)
    return bad


def route_scan(task, tier, seed):
    path = inspect.getsourcefile(F)
    src = open(path, encoding="utf-8").read()
    bad = scan_filters_source(src)
    tree = ast.parse(src)
    nfn = sum(isinstance(n, (ast.FunctionDef, ast.AsyncFunctionDef)) for n in ast.walk(tree))
    out = []
    if not bad:
        out.append(Res("C17.filters.route.scan", "discharged", "table", 0, f"{nfn} functions of filters.py: reflective accesses only at {sorted(ALLOWED_SITES)} (own VCs); attribute-name arguments flow only into make_attrgetter/make_multi_attrgetter(environment, ...)", "table"))
    for b in bad:
        out.append(Res("C17.filters.route.scan", "refuted", "table", 0, f"{b['function']}:{b['line']}: {b['code']} - {b['why']}", "table", b))
    # the allowed sites must still exist where their VCs look (otherwise the allow-list is stale)
    names = {(fn.name, (c.func.id if isinstance(c.func, ast.Name) else None)) for fn in ast.walk(tree) if isinstance(fn, (ast.FunctionDef, ast.AsyncFunctionDef))
             for c in ast.walk(fn) if isinstance(c, ast.Call)}
    return out


class ScanTask(FnTask):
    def __init__(self):
        super().__init__("C17", "C17.filters.route.scan", route_scan, "table", replay_scan)

    def finding_key(self, res):
        return route_scan_key(res)


def route_scan_key(res):
    w = res.witness or {}
    return f"{w.get('function')}:{w.get('code')}"


def replay_scan(w):
    src = open(inspect.getsourcefile(F), encoding="utf-8").read()
    bad = scan_filters_source(src)
    hit = [b for b in bad if b["function"] == w.get("function") and b["code"] == w.get("code")]
    if not hit:
        return (False, "site not present in the current source")
    # natively: a probe with a private attribute through the real filters
    return (True, f"filters.py {hit[0]['function']}:{hit[0]['line']}: {hit[0]['code']} ({hit[0]['why']}); " + replay_filters({})[1])


def replay_filters(w):
    """native battery: the real built-in filters with attribute arguments in a SandboxedEnvironment on a probe with private
    attributes (tracer values) - the property's own oracle"""
    class P:
        def __init__(self, n, sub=None):
            self._secret = "TRACER%d" % n
            self.pub = n
            self.sub = sub or self
    env = S.SandboxedEnvironment()
    ps = [P(1, P(10, P(100))), P(2, P(20, P(200)))]
    probs = []
    templates = [
        "{{ ps|map(attribute='_secret')|join(',') }}", "{{ ps|map(attribute='sub._secret')|list }}", "{{ ps|sort(attribute='_secret')|map(attribute='pub')|list }}{{ ps|map(attribute='_secret')|list }}",
        "{{ ps|join(',', attribute='_secret') }}", "{{ ps|sum(attribute='_secret', start='') }}", "{{ ps|groupby('_secret')|map(attribute='grouper')|list }}",
        "{{ ps|selectattr('_secret')|map(attribute='_secret')|list }}", "{{ (ps|first)|attr('_secret') }}", "{{ ps|unique(attribute='_secret')|map(attribute='_secret')|list }}",
        "{{ (ps|min(attribute='_secret'))._secret }}", "{{ ps|map(attribute='pub.__class__')|list }}", "{{ ps|sort(attribute='pub,_secret')|map(attribute='_secret')|list }}",
        "{{ (ps|first)|attr('__class__') }}", "{{ ps|rejectattr('_secret', 'none')|map(attribute='__dict__')|list }}",
    ]
    for src in templates:
        try:
            r = env.from_string(src).render(ps=ps)
        except SecurityError:
            continue
        except Exception as ex:
            continue
        if "TRACER" in r or "class" in r or "_secret" in r:
            probs.append(f"{src} -> {r!r}")
    # attrgetter folds through environment.getitem
    log = []

    class Env(jinja2.Environment):
        def getitem(self, obj, argument):
            log.append(argument)
            return super().getitem(obj, argument)

    e2 = Env()
    r = F.make_attrgetter(e2, "sub.sub.pub")(ps[0])
    if log != ["sub", "sub", "pub"] or r != 100:
        probs.append(f"make_attrgetter looked up {log} -> {r!r}")
    r = F.make_attrgetter(e2, "sub.pub", default="D")(ps[0]), F.make_attrgetter(e2, "nope.pub", default=ps[1])(ps[0]), F.make_attrgetter(e2, "nope", default=None)(ps[0])
    if r[0] != 10 or r[1] != 2 or not isinstance(r[2], Undefined):
        probs.append(f"make_attrgetter default handling -> {r!r}")
    r = F.make_attrgetter(e2, "pub", postprocess=lambda v: -v)(ps[0])
    if r != -1:
        probs.append(f"make_attrgetter postprocess -> {r!r}")
    del log[:]
    r = F.make_multi_attrgetter(e2, "pub,sub.pub,sub.sub.pub")(ps[1])
    if log != ["pub", "sub", "pub", "sub", "sub", "pub"] or r != [2, 20, 200]:
        probs.append(f"make_multi_attrgetter looked up {log} -> {r}")
    u = F.do_attr(e2, {"a": 1}, "a")
    if not isinstance(u, Undefined):
        probs.append(f"do_attr fell back to the item: {u!r}")
    return (bool(probs), "; ".join(probs[:3]) if probs else "filter battery: no private attribute reached the output")



# =====================================================================================================================
# 6. {% from X import name [as alias] %}: the one raw getattr of the generated code
# =====================================================================================================================
# CodeGenerator.visit_FromImport emits `getattr(included_template, '<name>', missing)` for every imported name; the parser is
# what keeps private names away from it ("names starting with an underline can not be imported").
def native_from_import(w=None):
    """the property's own oracle on the from-import family: an imported name starting with an underscore is rejected at compile
    time or stays undefined - with and without an alias, in first and in later position"""
    from jinja2 import DictLoader
    from jinja2.exceptions import TemplateSyntaxError, UndefinedError
    lib = "{% macro hello() %}hi{% endmacro %}{% set _hidden = 'x' %}lib-body"
    privates = ["__class__", "__dict__", "__init__", "__module__", "_body_stream", "_hidden", "_a"]
    extra = (w or {}).get("name")
    if extra and extra.startswith("_") and extra.isidentifier() and extra not in privates:
        privates.insert(0, extra)
    probs = []
    for cls in (S.SandboxedEnvironment, S.ImmutableSandboxedEnvironment):
        env = cls(loader=DictLoader({"lib": lib}))
        for name in privates:
            for src in ('{%% from "lib" import %s %%}{%% if %s is defined %%}HANDED{{ %s }}{%% endif %%}' % (name, name, name),
                        '{%% from "lib" import %s as c %%}{%% if c is defined %%}HANDED{{ c }}{%% endif %%}' % name,
                        '{%% from "lib" import hello, %s as c %%}{%% if c is defined %%}HANDED{{ c }}{%% endif %%}' % name,
                        '{%% from "lib" import %s as c, hello %%}{%% if c is defined %%}HANDED{{ c }}{%% endif %%}' % name,
                        '{%% from "lib" import %s as c with context %%}{%% if c is defined %%}HANDED{{ c }}{%% endif %%}' % name):
                try:
                    out = env.from_string(src).render()
                except (TemplateSyntaxError, SecurityError, UndefinedError):
                    continue
                except Exception as ex:
                    probs.append(f"{src!r}: {type(ex).__name__}: {ex}")
                    continue
                if "HANDED" in out:
                    probs.append(f"{cls.__name__}: {src!r} rendered {out!r}")
        try:
            ok = env.from_string('{% from "lib" import hello %}{{ hello() }}{% from "lib" import hello as _h %}{{ _h() }}').render()
            if ok != "hihi":
                probs.append(f"ordinary from-import broken: {ok!r}")
        except Exception as ex:
            probs.append(f"ordinary from-import broken: {type(ex).__name__}: {ex}")
    return (bool(probs), "; ".join(probs[:3]) or "from-import family: no private name is handed out")


# ---- emission: visit_FromImport on a node whose `names` is a concrete list of 1-2 symbolic entries -------------------------
FROM_SHAPES = [("plain",), ("pair",), ("plain", "plain"), ("plain", "pair"), ("pair", "plain"), ("pair", "pair")]


def from_import_fields(shape):
    def fields(st):
        items = []
        for i, kind in enumerate(shape):
            items.append(sym(f"name{i}", "str") if kind == "plain" else (sym(f"name{i}", "str"), sym(f"alias{i}", "str")))
        return {"names": st.alloc(HList(items=items), initial=True)}
    return fields


def from_import_configure(I):
    def map_spec(I_, st, args, kwargs, node):
        fn, it = args
        res = [(st, [])]
        for x in I_.iter_concrete(st, it, node):
            nxt = []
            for s_, acc in res:
                for s2, v in I_.call(s_, fn, [x], {}, node):
                    nxt.append((s2, v if isinstance(v, Raised) else acc + [v]))
            res = nxt
        return [(s_, acc if isinstance(acc, Raised) else tuple(acc)) for s_, acc in res]

    I.specs[("fn", id(map))] = map_spec


def from_import_pred(shape):
    from pyvc import emit
    from contracts.c17_emit import no_raw_attr_pred
    from contracts.emit_common import hole_of

    def pred(sc, tree, ph, txt):
        if sc.outcome == "raise":
            return [f"visit_FromImport raises {sc.value!r}"]
        fails = list(no_raw_attr_pred(sc, tree, ph, txt) or [])
        refs = {str(e.result.t): e.args[0] for e in sc.st.trace if e.kind == "call" and e.name == "symbols.ref" and isinstance(e.result, Sym)}

        def term_of(n):
            """the symbolic string a quoted-name placeholder constant stands for"""
            if isinstance(n, ast.Constant) and isinstance(n.value, str):
                k = f"'{n.value}'"
                if k in ph and isinstance(ph[k], tuple) and ph[k][0] == "repr":
                    return str(ph[k][1])
            return None

        body = tree.body
        raw = sorted((n for n in ast.walk(tree) if isinstance(n, ast.Call) and emit.call_name(n) in ("getattr", "hasattr", "setattr", "delattr", "vars")),
                     key=lambda n: (n.lineno, n.col_offset))
        if len(raw) != len(shape):
            fails.append(f"{len(raw)} raw attribute accesses emitted for {len(shape)} imported names")
        for i, c in enumerate(raw[:len(shape)]):
            ok = (emit.call_name(c) == "getattr" and not c.keywords and len(c.args) == 3 and isinstance(c.args[0], ast.Name) and c.args[0].id == "included_template"
                  and isinstance(c.args[2], ast.Name) and c.args[2].id == "missing")
            if not ok:
                fails.append(f"raw access #{i} is not getattr(included_template, <name>, missing): {ast.unparse(c)}")
                continue
            if term_of(c.args[1]) != f"name{i}":
                fails.append(f"raw access #{i} looks up {term_of(c.args[1]) or ast.unparse(c.args[1])} instead of the quoted IMPORTED name name{i}")
            # its value is stored under the alias (the imported name when there is none)
            par = [st_ for st_ in ast.walk(tree) if isinstance(st_, ast.Assign) and st_.value is c]
            want_alias = f"alias{i}" if shape[i] == "pair" else f"name{i}"
            tgt = par[0].targets[0] if par and len(par[0].targets) == 1 else None
            key = tgt.id if isinstance(tgt, ast.Name) else None
            got = None
            if key in ph and isinstance(ph[key], tuple) and ph[key][0] == "ident":
                arg = refs.get(str(ph[key][1]))
                got = str(arg.t) if isinstance(arg, Sym) else None
            if got != want_alias:
                fails.append(f"value of imported name #{i} is not bound to frame.symbols.ref({want_alias}) (got {got})")
        # included_template is the imported module: bound exactly once, by the first statement, from the template lookup
        binds = [st_ for st_ in ast.walk(tree) if isinstance(st_, (ast.Assign, ast.AugAssign, ast.AnnAssign))
                 for t_ in (st_.targets if isinstance(st_, ast.Assign) else [st_.target]) if isinstance(t_, ast.Name) and t_.id == "included_template"]
        first = body[0] if body else None
        if not (len(binds) == 1 and binds[0] is first and isinstance(first.value, (ast.Call, ast.Await))
                and "environment.get_template" in ast.unparse(first.value) and any(hole_of(n, ph) is not None and hole_of(n, ph).path == "node.template" for n in ast.walk(first.value))):
            fails.append("included_template is not bound exactly once to the module of environment.get_template(<node.template>, ...)")
        return fails

    return pred


def from_import_emit_tasks():
    from pyvc.emitcheck import EmitTask
    import jinja2.nodes as N
    out = []
    for shape in FROM_SHAPES:
        t = EmitTask("C17", f"C17.emit.from_import[names={'+'.join(shape)}]", "jinja2.compiler:CodeGenerator.visit_FromImport", N.FromImport,
                     from_import_pred(shape), mode="stmts", buffers=(None,), replay_fn=native_from_import, node_fields=from_import_fields(shape),
                     configure=from_import_configure, min_paths=2)
        t.bound_text = "node.names is a list of 1 or 2 entries, each a plain name or a (name, alias) pair of symbolic strings (6 shapes); everything else symbolic"
        out.append(t)
    return out


# ---- parser: every name placed in node.names does not start with an underscore ----------------------------------------------
class ParseFrom(VC):
    """Parser.parse_from over an abstract token stream (any number of imported names: the loop is cut, one generic iteration
    from an arbitrary loop state): whenever something is appended to node.names, on that path the IMPORTED name - the plain name
    or the first component of the (name, alias) pair - is the name of the target parsed in this iteration and does not start
    with "_"; node.names is written in no other way."""
    prop = "C17"
    target = "jinja2.parser:Parser.parse_from"
    timeout_quick = 20000

    def __init__(self):
        super().__init__("C17", "C17.parse_from.imported_names_public")

    def configure(self, I):
        import jinja2.parser as P
        import jinja2.lexer as L
        import jinja2.nodes as N
        from jinja2.exceptions import TemplateSyntaxError
        self.appends, self.other_writes, self.targets = [], [], []
        task = self

        def new_token(st):
            return st.alloc(HObj(L.Token, fields={"lineno": fresh("tok_lineno", "int"), "type": fresh("tok_type", "str"), "value": fresh("tok_value", "str")}, path="token"))

        def advance(st):
            st.get(task.stream).fields["current"] = new_token(st)

        def stream_op(name, returns):
            def h(I_, st, args, kwargs, node):
                out = []
                if name == "expect":
                    s1 = st.fork()
                    e = Exc(TemplateSyntaxError, (), tag="expect", origin=getattr(node, "lineno", None))
                    e.from_call = "stream.expect"
                    out.append((s1, Raised(e)))
                cur = st.get(task.stream).fields["current"]
                advance(st)
                if returns == "token":
                    v = cur if name != "look" else new_token(st)
                elif returns == "bool":
                    v = fresh(name, "bool")
                else:
                    v = None
                A.call_event(st, "stream." + name, args[1:], kwargs, v, node)
                out.append((st, v))
                return out
            return h

        I.specs["TokenStream.expect"] = stream_op("expect", "token")
        I.specs["TokenStream.skip_if"] = stream_op("skip_if", "bool")
        I.specs["TokenStream.look"] = stream_op("look", "token")
        I.specs["TokenStream.skip"] = stream_op("skip", None)
        I.specs["TokenStream.next_if"] = stream_op("next_if", "token")
        nxt = stream_op("__next__", "token")
        I.specs["next_obj"] = lambda I_, st, args, kwargs, node: nxt(I_, st, [args[0]], {}, node) if args[0] == task.stream else None
        I.specs["Token.test"] = A.abstract_fn("token.test", returns="bool")
        I.specs["Token.test_any"] = A.abstract_fn("token.test_any", returns="bool")
        I.specs["Parser.parse_expression"] = A.abstract_fn("parse_expression", returns="obj")

        def parse_assign_target(I_, st, args, kwargs, node):
            advance(st)
            ref = st.alloc(HObj(N.Name, fields={"name": fresh("target_name", "str"), "ctx": "store", "lineno": fresh("target_lineno", "int")}, path="target"))
            task.targets.append((ref, dict(kwargs), list(args[1:])))
            A.call_event(st, "parse_assign_target", args[1:], kwargs, ref, node)
            return [(st, ref)]

        I.specs["Parser.parse_assign_target"] = parse_assign_target

        def fail(I_, st, args, kwargs, node):
            cls = kwargs.get("exc", args[3] if len(args) > 3 else TemplateSyntaxError)
            e = Exc(cls, tuple(args[1:2]), tag="fail", origin=getattr(node, "lineno", None))
            A.call_event(st, "fail", args[1:], kwargs, e, node)
            return [(st, Raised(e))]

        I.specs["Parser.fail"] = fail

        def new_from_import(I_, st, args, kwargs, node):
            h = HObj(N.FromImport, fields=dict(kwargs), path="node")
            h.plain_setattr = True
            task.node = st.alloc(h)
            return [(st, task.node)]

        I.specs[("fn", id(N.FromImport))] = new_from_import

        # ---- watch every write to node.names (also inside the cut loop)
        base_call_method, base_setattr = I.call_method, I.setattr

        def call_method(st, recv, name, args, kwargs, node=None):
            nd = getattr(task, "node", None)
            if nd is not None and isinstance(recv, Ref) and nd.id in st.heap and recv == st.get(nd).fields.get("names"):
                if name == "append" and len(args) == 1:
                    task.appends.append((args[0], list(st.pc), [r for r, _k, _a in task.targets if r.id in st.heap]))
                elif name not in ("__len__", "__iter__", "__contains__", "copy", "index", "count"):
                    task.other_writes.append((f"names.{name}", list(st.pc)))
            return base_call_method(st, recv, name, args, kwargs, node)

        def setattr_(st, obj, name, v, node=None):
            nd = getattr(task, "node", None)
            if nd is not None and obj == nd and name == "names":
                empty = isinstance(v, Ref) and isinstance(st.get(v), HList) and st.get(v).concrete and not st.get(v).items
                if not empty or getattr(task, "names_bound", False):
                    task.other_writes.append(("node.names = ...", list(st.pc)))
                task.names_bound = True
            return base_setattr(st, obj, name, v, node)

        I.call_method, I.setattr = call_method, setattr_

        # ---- the loop: cut, nothing assumed about the state at the head of an iteration
        fn_node, _m = extract.function_ast(P.Parser.parse_from)
        loop = [n for n in ast.walk(fn_node) if isinstance(n, ast.While)][0]
        assigned = sorted({n.id for n in ast.walk(loop) if isinstance(n, ast.Name) and isinstance(n.ctx, ast.Store)})

        def heap(st, local):
            nd = st.get(task.node)
            lst = nd.fields.get("names")
            if isinstance(lst, Ref):
                h = st.get(lst)
                h.items, h.arr, h.n, h.k = None, z3.Const(fresh_name("names_arr"), z3.ArraySort(z3.IntSort(), Obj)), z3.Int(fresh_name("names_n")), "obj"
                st.assume(h.n >= 0)
            nd.fields.pop("with_context", None)  # whether an earlier iteration set it does not matter for the clauses below
            advance(st)

        I.loops[("Parser.parse_from", 0)] = LoopSpec(lambda ctx: [], havoc={n: "obj" for n in assigned}, heap=heap, name="names_loop")

    def setup(self, I, st):
        import jinja2.parser as P
        import jinja2.lexer as L
        self.stream = st.alloc(HObj(L.TokenStream, fields={}, path="stream"), initial=True)
        st.get(self.stream).fields["current"] = st.alloc(HObj(L.Token, fields={"lineno": sym("tok0_lineno", "int"), "type": sym("tok0_type", "str"), "value": sym("tok0_value", "str")}), initial=True)
        self.parser = A.obj(st, P.Parser, "parser", fields={"stream": self.stream, "name": sym("tmpl_name", "obj"), "filename": sym("tmpl_filename", "obj")})
        return [self.parser], {}

    def imported(self, v):
        if isinstance(v, Sym) and v.k == "str":
            return v
        if isinstance(v, tuple) and len(v) == 2 and isinstance(v[0], Sym) and v[0].k == "str":
            return v[0]
        return None

    def formula(self):
        fs = []
        for v, pc, live_targets in self.appends:
            nm = self.imported(v)
            if nm is None:
                return False
            fs.append(z3.Implies(z3.And(*pc) if pc else z3.BoolVal(True), z3.Not(z3.PrefixOf(sv("_"), nm.t))))
        for _d, pc in self.other_writes:
            fs.append(z3.Not(z3.And(*pc)) if pc else z3.BoolVal(False))
        if not self.appends:
            return False  # the loop must have been explored
        return z3.And(*fs)

    def p_names(self, pre, out):
        if out.idx != self.first_idx(out):
            return None
        return self.formula()

    def first_idx(self, out):
        return getattr(self, "_first", out.idx) if hasattr(self, "_first") else setattr(self, "_first", out.idx) or out.idx

    def p_targets(self, pre, out):
        """targets and aliases are parsed as plain names"""
        if out.idx != getattr(self, "_first", out.idx):
            return None
        return bool(self.targets) and all(kw.get("name_only") is True and not a for _r, kw, a in self.targets)

    def p_outcome(self, pre, out):
        from jinja2.exceptions import TemplateSyntaxError
        if out.raised:
            return out.value.cls is not None and issubclass(out.value.cls, TemplateSyntaxError)
        return out.value == getattr(self, "node", None)

    posts = [("every_appended_name_is_public", p_names), ("targets_are_plain_names", p_targets), ("returns_the_node_or_a_syntax_error", p_outcome)]

    def concretize(self, model, pre, out):
        name, alias = "_a", None
        for v, pc, _t in self.appends:
            nm = self.imported(v)
            if nm is None:
                continue
            try:
                holds = all(z3.is_true(model.eval(c, model_completion=True)) for c in pc)
            except Exception:
                holds = False
            s_ = unescape_z3(model_str(model, nm.t, "_a"))
            if holds and s_.startswith("_"):
                clean = "".join(ch for ch in s_ if ch.isalnum() or ch == "_")
                name = clean if clean.isidentifier() else "_a"
                alias = "c" if isinstance(v, tuple) else None
                break
        return {"name": name, "alias": alias}

    def replay(self, w):
        return replay_parse_from(w)


def parse_from_outcome(src):
    """-> ('rejected', exception name) | ('names', list) for the real parser"""
    from jinja2.exceptions import TemplateSyntaxError
    import jinja2.nodes as N
    env = S.SandboxedEnvironment()
    try:
        tree = env.parse(src)
    except TemplateSyntaxError as ex:
        return ("rejected", type(ex).__name__)
    fi = list(tree.find_all(N.FromImport))
    return ("names", [tuple(x) if isinstance(x, (tuple, list)) else x for x in fi[0].names] if fi else None)


def replay_parse_from(w):
    name, alias = w.get("name") or "_a", w.get("alias")
    srcs = ([w["src"]] if w.get("src") else []) + [
        '{%% from "lib" import %s%s %%}' % (name, f" as {alias}" if alias else ""),
        '{%% from "lib" import %s as c %%}' % name, '{%% from "lib" import %s %%}' % name, '{%% from "lib" import a, %s as c %%}' % name,
        '{%% from "lib" import a as %s %%}' % name, '{%% from "lib" import a, b as %s with context %%}' % name]
    for src in srcs:
        kind, val = parse_from_outcome(src)
        imported = [x[0] if isinstance(x, tuple) else x for x in (val or [])] if kind == "names" else []
        if any(str(x).startswith("_") for x in imported):
            v2, d2 = native_from_import({"name": name})
            return (True, f"the real parser accepts {src!r} with node.names = {val!r} (imported name starts with an underscore); " + d2)
    return (False, f"the real parser never places a name starting with an underscore in node.names for {name!r}")


def parse_from_standin(task, tier, seed):
    """bounded stand-in: the real parser on every import list of one or two entries over the names below, with and without alias
    and context modifier: rejected (TemplateAssertionError) exactly when an IMPORTED name starts with "_", else node.names is the
    list of names / (name, alias) pairs as written"""
    import itertools
    names = ["a", "_a", "__class__", "b"]
    entries = [(n, None) for n in names] + [(n, al) for n in names for al in names]
    lists = [[e] for e in entries] + [[e1, e2] for e1 in entries for e2 in entries]
    ctxs = ["", " with context", " without context"]
    n, bad = 0, []
    for lst in lists:
        for ctx in (ctxs if len(lst) == 1 else ctxs[:2]):
            src = '{% from "lib" import ' + ", ".join(nm if al is None else f"{nm} as {al}" for nm, al in lst) + ctx + " %}"
            n += 1
            kind, val = parse_from_outcome(src)
            private = any(nm.startswith("_") for nm, _al in lst)
            if private:
                ok = kind == "rejected" and val == "TemplateAssertionError"
            else:
                ok = kind == "names" and val == [nm if al is None else (nm, al) for nm, al in lst]
            if not ok:
                bad.append((src, kind, val))
    task.bound_text = f"{n} from-import tags: 1-2 entries over names {names}, each plain or with an alias from the same set, with / without context modifier"
    if bad:
        first = bad[0]
        import re
        m = re.search(r"import (\w+)(?: as (\w+))?", first[0])
        priv = [x for x in re.findall(r"(\w+)(?: as \w+)?(?:,| with| without| %)", first[0]) if x.startswith("_")]
        return [Res("C17.parse_from.bounded", "refuted", "bounded", 0, f"{len(bad)} tags, e.g. {first[0]!r} -> {first[1]} {first[2]!r}", "bounded",
                    {"name": (priv[0] if priv else "_a"), "alias": "c", "src": first[0]})]
    return [Res("C17.parse_from.bounded", "bounded-ok", "bounded", 0, task.bound_text, "bounded")]


def native_unbound_format(task, tier, seed):
    """table (hunt i2/C17_1): str.format / str.format_map / Markup.format / Markup.format_map taken UNBOUND from the class (the class
    str or Markup is in the context) and applied to a template-chosen format string are sandboxed like the bound forms: no private
    attribute through a format field"""
    v, d = replay_unbound_format({})
    nm = "C17.format.unbound_methods_of_the_class"
    if v:
        return [Res(nm, "refuted", "table", 0, d, "table", {"family": "unbound_format"})]
    return [Res(nm, "discharged", "table", 0, "8 templates x sync/async: every field lookup went through the sandbox", "table")]


def replay_unbound_format(w=None):
    class Probe:
        _secret = "TRACER"
    srcs = ["{{ str.format('{0._secret}', p) }}", "{{ str.format('{0.__class__.__init__.__globals__[__name__]}', p) }}", "{{ str.format_map('{p._secret}', {'p': p}) }}",
            "{{ Markup.format(Markup('{0._secret}'), p) }}", "{{ Markup.format_map(Markup('{p._secret}'), {'p': p}) }}", "{% set f = str.format %}{{ f('{0._secret}', p) }}",
            "{{ str['format']('{0._secret}', p) }}", "{{ (str|attr('format'))('{0._secret}', p) }}"]
    probs = []
    for kw in ({}, {"enable_async": True}):
        env = S.SandboxedEnvironment(**kw)
        for src in srcs:
            try:
                r = env.from_string(src).render(str=str, Markup=Markup, p=Probe())
            except SecurityError:
                continue
            except Exception:
                continue
            if "TRACER" in r or "__main__" in r or "contracts" in r:
                probs.append(f"{src} -> {r!r}")
    return (bool(probs), "; ".join(probs[:3]) or "unbound format methods are sandboxed")


class FamilyTable17(FnTask):
    def finding_key(self, res):
        return (res.witness or {}).get("family", "")


def replay_undefined_raises(w):
    rs = [r for r in undefined_raises(None, "quick", 0) if r.status == "refuted"]
    return (bool(rs), "; ".join(f"{r.name}: {r.detail}" for r in rs) or "every use of the sandbox undefined raises SecurityError")


TASKS = [IsInternal(), KeyedTable("C17", "C17.internal.live", internal_live_types, "table", replay_safe_live),
         KeyedTable("C17", "C17.alias_origin.live", alias_origin_live, "table", replay_safe_live),
         SafeAttr(S.SandboxedEnvironment), SafeAttr(S.ImmutableSandboxedEnvironment),
         KeyedTable("C17", "C17.safe.live", safe_attr_end_to_end, "table", replay_safe_live),
         Gate("getattr"), Gate("getitem"), Gate("getitem", "nonstr"), Gate("getitem", "strsub"),
         UnsafeUndefined(), FnTask("C17", "C17.unsafe_undefined.raises", undefined_raises, "table", lambda w: replay_undefined_raises(w)),
         FormatterInit(S.SandboxedFormatter), FormatterInit(S.SandboxedEscapeFormatter), WrapStrFormat(), GetField(),
         FnTask("C17", "C17.format.mro", format_mro, "table", replay_format),
         FamilyTable17("C17", "C17.format.unbound_methods_of_the_class", native_unbound_format, "table", replay_unbound_format),
         FnTask("C17", "C17.format.vformat_dependency", vformat_standin, "bounded", replay_format),
         AttrGetter(), MultiAttrGetter(1), MultiAttrGetter(2), DoAttr(), DoRound(),
         FnTask("C17", "C17.filters._prepare_attribute_parts", parts_standin, "bounded", replay_parts),
         ScanTask(), ParseFrom(),
         FnTask("C17", "C17.parse_from.bounded", parse_from_standin, "bounded", replay_parse_from)] + from_import_emit_tasks()

META = {
    "level": "proof",
    "explanation": "Runtime half: the real sources of is_internal_attribute, (Immutable)SandboxedEnvironment.is_safe_attribute, "
                   "SandboxedEnvironment.getattr/getitem/unsafe_undefined/wrap_str_format (and the wrapper it returns), SandboxedFormatter."
                   "__init__/get_field, filters.make_attrgetter/make_multi_attrgetter closures, do_attr and do_round are executed symbolically "
                   "(attribute names are symbolic strings, objects opaque, is_safe_attribute abstract so that overriding gates are covered). "
                   "A value produced by the builtin getattr (ghost tag raw_attr) is returned by the gates only on a path where "
                   "wrap_str_format returned None and is_safe_attribute(obj, name, value) returned True; otherwise the result is the format "
                   "wrapper, the item or an undefined whose exception class is SecurityError. is_safe_attribute is True only for names "
                   "without leading underscore that is_internal_attribute does not classify. Format-field lookups and filter attribute "
                   "arguments are folds of environment.getattr/getitem for every path length (loop invariants); a syntactic scan of "
                   "filters.py shows no other reflective access with a non-constant name. The one raw getattr of the generated code, "
                   "`getattr(included_template, '<name>', missing)` of {% from ... import %}, is covered by Parser.parse_from (abstract token "
                   "stream, loop cut: every name appended to node.names is the imported name of the target parsed in that iteration and does "
                   "not start with '_'; plus a bounded stand-in on the real parser) and by emission obligations on visit_FromImport for "
                   "node.names lists of 1-2 symbolic entries (plain / (name, alias); 6 shapes): exactly one raw getattr per entry, on the "
                   "imported module, with the quoted IMPORTED name, bound under the alias. The remaining compiler half (emission obligations) "
                   "is attached from contracts/c17_emit.py.",
    "assumptions": ["the nine builtin kinds tested by is_internal_attribute have pairwise disjoint instance sets",
                    "string.Formatter.vformat resolves replacement fields only through self.get_field (documented; bounded stand-in "
                    "C17.format.vformat_dependency)",
                    "subscript keys that are instances of str subclasses overriding __str__ are covered by the separate obligation "
                    "C17.getitem.gate[strsub key] (refuted on the unchanged tree: known finding)",
                    "is_safe_attribute / wrap_str_format have no side effects that matter (their call order is not constrained)",
                    "an undefined created with exc=SecurityError raises SecurityError when used (table check here, general proof under C21)"],
    "trusted_base": ["z3 5.1 / cvc5", "pyvc symbolic executor", "ghost specs of builtin getattr / subscript on opaque values (contracts/c17.py)",
                     "str.startswith / membership dependency specs", "formatter_field_name_split returns (first, iterator of (is_attr, key))",
                     "bounded stand-ins: _prepare_attribute_parts, Formatter.vformat -> get_field, parse_from on 1-2 import entries",
                     "emission engine pyvc/emit.py (visit_FromImport: shape bound 1-2 names)",
                     "abstract TokenStream / parse_assign_target specs in C17.parse_from (a parsed target is a Name node with an arbitrary name)"],
}

try:
    from contracts import c17_emit as _e
    TASKS += _e.TASKS
except ImportError:
    pass
