"""C31  Precompiled templates render exactly like templates compiled from source.

PROOF-OF-MECHANISM (relational emission contract + contracts on the store / load path).

  C31.emit.defer_init.*       real CodeGenerator.visit_Template, symbolic defer_init: for every path the module emitted
                              with defer_init=True equals the one emitted with defer_init=False except that the
                              `environment=environment` default parameter is absent from the root and block function
                              headers (paired path by path, compared as Python ASTs); no other code reads defer_init
  C31.pipeline.*              Environment.compile(raw=True, defer_init=d) -> _generate(..., defer_init=d) ->
                              compiler.generate -> code_generator_class(environment, name, filename, stream, d, optimized)
  C31.compile_templates.*     real Environment.compile_templates with abstract callees, two generic template names, symbolic
                              ignore_errors, zip in {None, 'deflated', 'stored'}: for each listed template that compiles, the
                              text written under get_module_filename(name) is compile(source, name, filename, True, True);
                              zip mode changes only the container (ZipFile(target,'w',mode) / writestr vs open(join(target,
                              filename),'wb') / write(encode('utf8'))); TemplateSyntaxError is skipped iff ignore_errors; the
                              archive is closed on every path
  C31.module_loader.*         get_template_key = 'tmpl_' + sha1(normalised name utf-8).hexdigest() (exhaustive name family, no demand on the code's shape); get_module_filename = key + '.py';
                              load imports <package>.<key> (fromlist ['root']), ImportError -> TemplateNotFound(name), builds
                              the template with template_class.from_module_dict(environment, mod.__dict__, globals or {});
                              from_module_dict and from_code both return _from_namespace(environment, namespace, globals),
                              which binds namespace['environment'] (the module global the deferred functions read)
  C31.native                  bounded stand-in: template sets with inheritance, includes and imports rendered from source,
                              from a precompiled directory and from deflated / stored zip archives
"""
from __future__ import annotations

import ast
import hashlib
import inspect
import os
import re
import sys
import time
import zipfile
import z3

from pyvc.contract import VC, Res, FnTask
from pyvc import emit, extract, abstract as A
from pyvc.values import State, Sym, Ref, HObj, HList, HDict, Exc, Event, sym, fresh, Unsupported, Obj as KIND_OBJ
from pyvc.interp import Raised
from pyvc.smt import to_term
from contracts.emit_template import TemplateEmitTask, DEFER_INIT

import jinja2.nodes as N
import jinja2.compiler as C
import jinja2.environment as E
import jinja2.loaders as L
from jinja2.exceptions import TemplateSyntaxError, TemplateNotFound


# ------------------------------------------------------------------------------------------ native oracle

def _template_sets():
    sets = []
    sets.append({
        "base.html": "<{% block head %}H{{ v }}{% endblock %}|{% block body %}B{% endblock %}>",
        "child.html": "{% extends 'base.html' %}{% block body %}c{{ super() }}{{ v }}{% include 'inc.txt' %}{% endblock %}",
        "grand.html": "{% extends 'child.html' %}{% block head %}g{{ super() }}{% endblock %}",
        "inc.txt": "[{% for x in xs %}{{ x }}{% if not loop.last %},{% endif %}{% endfor %}]",
        "lib.html": "{% macro m(a, b=2) %}({{ a }}:{{ b }}:{{ caller() if caller else '' }}){% endmacro %}{% set k = 7 %}",
        "use.html": "{% import 'lib.html' as lib %}{% from 'lib.html' import m as mm, k %}{{ lib.m(1) }}{{ mm(v, b=3) }}{{ k }}{% call lib.m(0) %}in{% endcall %}",
        "dyn.html": "{% extends parent %}{% block body %}d{{ v }}{% endblock %}",
        "multi.html": "{% include ['nope.html', 'inc.txt'] %}{% include 'nope.html' ignore missing %}{% include 'inc.txt' without context %}",
        "sub/deep.html": "{% extends '../base.html' if false else 'base.html' %}{% block head %}deep{% endblock %}",
        "ctx.html": "{% set z = 5 %}{% include 'showz.html' %}{% import 'lib.html' as l with context %}{{ l.k }}",
        "showz.html": "z={{ z }}",
        "filters.html": "{{ v|upper }}{{ xs|join('-') }}{{ v is defined }}{% filter lower %}ABC{{ v }}{% endfilter %}{% set q %}blk{{ v }}{% endset %}{{ q }}",
        "scoped.html": "{% for x in xs %}{% block item scoped %}{{ x }}{% endblock %}{% endfor %}",
        "scoped_child.html": "{% extends 'scoped.html' %}{% block item %}<{{ super() }}>{% endblock %}",
        "ünï.html": "uni{{ v }}",
        "rec.html": "{% for n in tree recursive %}{{ n.v }}{% if n.c %}({{ loop(n.c) }}){% endif %}{% endfor %}",
        "esc.html": "{% autoescape true %}{{ h }}{{ h|safe }}{% endautoescape %}{{ h }}",
        "req.html": "{% block need required %}{% endblock %}",
        "req_child.html": "{% extends 'req.html' %}{% block need %}ok{% endblock %}",
    })
    sets.append({
        "a": "{% include 'b' %}{{ self.t() }}{% block t %}T{% endblock %}",
        "b": "{% import 'c' as c %}{{ c.f() }}",
        "c": "{% macro f() %}{% include 'd' %}{% endmacro %}",
        "d": "D{{ v }}",
        "broken": "{% if %}",
    })
    return sets


def native_precompiled(w=None, only_modes=None):
    """render every template of every set from source and from precompiled stores; outputs (or error types) must agree"""
    import shutil
    import tempfile
    from jinja2 import Environment, DictLoader, ModuleLoader
    problems = []
    n = 0
    datas = [dict(v="V", xs=[1, 2, 3], parent="base.html", tree=[{"v": 1, "c": [{"v": 2, "c": []}]}], h="<b>"),
             dict(v="", xs=[], parent="child.html", tree=[], h="&")]
    tmp = tempfile.mkdtemp(prefix="c31_", dir=os.environ.get("PYVC_TMP") or None)
    try:
        for si, templates in enumerate(_template_sets()):
            for async_mode in (False, True):
                src_env = Environment(loader=DictLoader(templates), enable_async=async_mode)
                for mode in (only_modes or (None, "deflated", "stored")):
                    target = os.path.join(tmp, f"s{si}_{async_mode}_{mode}" + ("" if mode is None else ".zip"))
                    log = []
                    try:
                        src_env.compile_templates(target, zip=mode, log_function=log.append, ignore_errors=True)
                    except Exception as ex:
                        problems.append(f"set {si} zip={mode}: compile_templates(ignore_errors=True) raised {type(ex).__name__}: {ex}")
                        continue
                    if "broken" in templates:
                        # with ignore_errors=False the syntax error must abort the compilation
                        try:
                            src_env.compile_templates(target + ".strict", zip=mode, log_function=log.append, ignore_errors=False)
                            problems.append(f"set {si} zip={mode}: compile_templates(ignore_errors=False) swallowed the syntax error of 'broken'")
                        except TemplateSyntaxError:
                            pass
                        except Exception as ex:
                            problems.append(f"set {si} zip={mode}: compile_templates(ignore_errors=False) raised {type(ex).__name__}")
                    mod_env = Environment(loader=ModuleLoader(target), enable_async=async_mode)
                    for name in templates:
                        for data in datas:
                            outs = []
                            for env in (src_env, mod_env):
                                try:
                                    outs.append(("ok", env.get_template(name).render(**data)))
                                except Exception as ex:
                                    outs.append(("exc", type(ex).__name__ if not isinstance(ex, TemplateSyntaxError) or env is src_env else type(ex).__name__))
                            n += 1
                            if name == "broken":
                                # a template with a syntax error is skipped by compile_templates: not found afterwards
                                if outs[1] != ("exc", "TemplateNotFound") or outs[0] != ("exc", "TemplateSyntaxError"):
                                    problems.append(f"set {si} {name!r} zip={mode}: source {outs[0]} precompiled {outs[1]}")
                                continue
                            if outs[0] != outs[1]:
                                problems.append(f"set {si} template {name!r} zip={mode} async={async_mode}: from source {outs[0]!r}, precompiled {outs[1]!r}")
                    # the stored text is the raw deferred compilation
                    for name, source in templates.items():
                        if name == "broken":
                            continue
                        want = src_env.compile(source, name, name, raw=True, defer_init=True)
                        fn = "tmpl_" + hashlib.sha1(name.encode("utf-8")).hexdigest() + ".py"
                        try:
                            if mode is None:
                                got = open(os.path.join(target, fn), "rb").read().decode("utf8")
                            else:
                                with zipfile.ZipFile(target) as z:
                                    got = z.read(fn).decode("utf8")
                        except (OSError, KeyError) as ex:
                            problems.append(f"set {si} {name!r} zip={mode}: no file {fn} in the store ({type(ex).__name__})")
                            continue
                        if got != want:
                            problems.append(f"set {si} {name!r} zip={mode}: stored text differs from compile(raw=True, defer_init=True)")
        # one loader shared by two environments (an environment and its overlay, differing in run-time settings): the same
        # sequence of get_template / render calls from source and from each precompiled store
        from jinja2 import StrictUndefined
        # (only settings that are looked up at run time differ: filters applied to variables, the undefined class; what is folded
        # at compile time - filters on constants, finalize - is part of the premise "configured like the compiling one")
        shared = {"base.html": "[{% block body %}{% endblock %}]", "lib.html": "{% macro tag(v) %}<{{ v|mark }}>{% endmacro %}",
                  "page.html": "{% extends 'base.html' %}{% import 'lib.html' as lib %}{% block body %}{{ lib.tag(w) }}|{{ nothing }}|{{ w|mark }}{% endblock %}",
                  "inc.html": "{% include 'leaf.html' %}{{ w|mark }}", "leaf.html": "({{ missing_name }})",
                  "late.html": "{{ late }}|{{ w }}"}

        def scenario(loader):
            base = Environment(loader=loader)
            base.filters["mark"] = lambda v: f"base:{v}"
            strict = base.overlay(undefined=StrictUndefined)
            strict.filters = dict(base.filters)
            strict.filters["mark"] = lambda v: f"strict:{v}"
            other = Environment(loader=loader)
            other.filters["mark"] = lambda v: f"other:{v}"
            out = []

            def r(t):
                try:
                    return t.render(w="y")
                except Exception as ex:
                    return f"{type(ex).__name__}"

            for name in ("page.html", "inc.html"):
                t1 = base.get_template(name)
                out.append(("base first", name, r(t1)))
                t2 = strict.get_template(name)
                out.append(("overlay first", name, r(t2)))
                t3 = other.get_template(name)
                out.append(("second environment", name, r(t3)))
                out.append(("base again", name, r(t1)))
                out.append(("overlay again", name, r(t2)))
                out.append(("base reloaded", name, r(base.get_template(name))))
            # an environment global added after the template was loaded is seen by the template (its globals are layered
            # over the environment's, not a snapshot of them)
            tl = base.get_template("late.html")
            out.append(("before the global exists", "late.html", r(tl)))
            base.globals["late"] = "LATE"
            out.append(("global added after loading", "late.html", r(tl)))
            return out

        want = scenario(DictLoader(shared))
        for mode in (only_modes or (None, "deflated", "stored")):
            target = os.path.join(tmp, f"shared_{mode}" + ("" if mode is None else ".zip"))
            cenv = Environment(loader=DictLoader(shared))
            cenv.filters["mark"] = lambda v: v
            cenv.compile_templates(target, zip=mode, log_function=lambda x: None, ignore_errors=False)
            got = scenario(ModuleLoader(target))
            n += len(got)
            for a, b in zip(want, got):
                if a != b:
                    problems.append(f"one ModuleLoader (zip={mode}) shared by two environments: step {b[0]!r} of {b[1]!r} renders {b[2]!r}, from source {a[2]!r}")
    finally:
        shutil.rmtree(tmp, ignore_errors=True)
    return problems, n


def replay_native(w=None):
    problems, n = _native_safe()
    return (bool(problems), "; ".join(problems[:3]) or f"{n} renders agree between source and precompiled stores")


def native_scenarios(which=None):
    """further store / load scenarios: -> {scenario: [problems]}"""
    import shutil
    import tempfile
    from jinja2 import Environment, DictLoader, FileSystemLoader, ModuleLoader
    out = {"unnormalised_names": [], "recompile_same_path": [], "symlinked_directory": []}
    tmp = tempfile.mkdtemp(prefix="c31s_", dir=os.environ.get("PYVC_TMP") or None)

    def render(env, name):
        try:
            return env.get_template(name).render()
        except Exception as ex:
            return f"{type(ex).__name__}: {str(ex)[:60]}"

    def write_tree(root, files):
        for rel, text in files.items():
            pth = os.path.join(root, rel)
            os.makedirs(os.path.dirname(pth), exist_ok=True)
            with open(pth, "w", encoding="utf8") as f:
                f.write(text)

    try:
        # spellings of one template name that the file system loader accepts
        if which in (None, "unnormalised_names"):
            root = os.path.join(tmp, "fs1")
            write_tree(root, {"base.html": "[{% block body %}{% endblock %}]", "partials/item.html": "item", "partials/macros.html": "{% macro hi() %}hi{% endmacro %}",
                              "page.html": "{% extends '/base.html' %}{% import 'partials//macros.html' as m %}{% block body %}{% include './partials/item.html' %}{{ m.hi() }}{% endblock %}",
                              "page2.html": "{% include '/./partials/item.html' %}|{% include ['nope.html', '//base.html'] %}"})
            for mode in (None, "deflated", "stored"):
                src_env = Environment(loader=FileSystemLoader(root))
                target = os.path.join(tmp, f"un_{mode}" + ("" if mode is None else ".zip"))
                src_env.compile_templates(target, zip=mode, log_function=lambda x: None, ignore_errors=False)
                mod_env = Environment(loader=ModuleLoader(target))
                for name in ("page.html", "page2.html", "/page.html", "./base.html"):
                    a, b = render(src_env, name), render(mod_env, name)
                    if a != b:
                        out["unnormalised_names"].append(f"zip={mode} {name!r}: from source {a!r}, precompiled {b!r}")
        # a second compilation to the same path in one process
        if which in (None, "recompile_same_path"):
            for mode in (None, "deflated", "stored"):
                target = os.path.join(tmp, f"re_{mode}" + ("" if mode is None else ".zip"))
                Environment(loader=DictLoader({"a": "first version", "b": "b" * 400})).compile_templates(target, zip=mode, log_function=lambda x: None)
                first = render(Environment(loader=ModuleLoader(target)), "a")
                src_env = Environment(loader=DictLoader({"a": "second version, a good deal longer than the first {{ 1 + 1 }}", "c": "new one"}))
                src_env.compile_templates(target, zip=mode, log_function=lambda x: None)
                mod_env = Environment(loader=ModuleLoader(target))
                for name in ("a", "c"):
                    a, b = render(src_env, name), render(mod_env, name)
                    if a != b:
                        out["recompile_same_path"].append(f"zip={mode} after recompiling to the same path, {name!r}: from source {a!r}, precompiled {b!r} (first compilation rendered {first!r})")
        # a sub-directory that is a symbolic link
        if which in (None, "symlinked_directory"):
            root = os.path.join(tmp, "fs2", "templates")
            write_tree(root, {"page.html": "page {% include 'common/footer.html' %}"})
            write_tree(os.path.join(tmp, "fs2", "shared"), {"footer.html": "FOOTER"})
            try:
                os.symlink(os.path.join("..", "shared"), os.path.join(root, "common"), target_is_directory=True)
            except OSError:
                pass
            else:
                for mode in (None, "deflated"):
                    src_env = Environment(loader=FileSystemLoader(root))
                    target = os.path.join(tmp, f"sym_{mode}" + ("" if mode is None else ".zip"))
                    src_env.compile_templates(target, zip=mode, log_function=lambda x: None)
                    mod_env = Environment(loader=ModuleLoader(target))
                    a, b = render(src_env, "page.html"), render(mod_env, "page.html")
                    if a != b:
                        out["symlinked_directory"].append(f"zip={mode} 'page.html' including a template below a symlinked directory: from source {a!r}, precompiled {b!r} "
                                                          f"(list_templates() = {src_env.list_templates()})")
    finally:
        shutil.rmtree(tmp, ignore_errors=True)
    return out


def scenario_replay(name):
    def f(w=None):
        ps = native_scenarios(name)[name]
        return (bool(ps), "; ".join(ps[:2]) or f"scenario {name}: precompiled renders like source")
    return f


def _native_safe():
    try:
        return native_precompiled()
    except Exception as ex:  # the store could not even be read back
        import traceback
        tb = traceback.extract_tb(ex.__traceback__)[-1]
        return [f"precompiled store unusable: {type(ex).__name__}: {ex} (at {tb.name}:{tb.lineno})"], 0


def standin(task, tier, seed):
    t0 = time.time()
    task.bound_text = ("2 template sets (24 templates: 3-level inheritance with super(), dynamic extends, scoped / required blocks, includes "
                       "(list, ignore missing, without context), imports / from-imports with and without context, macros with call blocks, "
                       "recursive loops, autoescape, non-ASCII template name, one template with a syntax error) x {sync, async} x "
                       "{directory, deflated zip, stored zip} x 2 data assignments, plus one loader shared by an environment, its StrictUndefined overlay "
                       "and a second environment (get_template / render / render-again sequences); file-system sets referenced by un-normalised names, a second "
                       "compilation to the same path in one process, a symlinked sub-directory; oracle: same output or same exception class as from source; "
                       "stored text == compile(raw=True, defer_init=True)")
    problems, n = _native_safe()
    task.stats = {"renders": n, "seconds": round(time.time() - t0, 2)}
    rs = []
    if problems:
        rs.append(Res("C31.native.sets", "refuted", "native", time.time() - t0, "; ".join(problems[:3])[:700], "bounded", witness={"problems": problems[:5]}))
    else:
        rs.append(Res("C31.native.sets", "bounded-ok", "native", time.time() - t0, f"{n} renders agree", "bounded"))
    try:
        sc = native_scenarios()
    except Exception as ex:
        sc = {"scenarios": [f"{type(ex).__name__}: {ex}"]}
    for name, ps in sc.items():
        rs.append(Res(f"C31.native.{name}", "refuted" if ps else "bounded-ok", "native", 0, "; ".join(ps[:2])[:700], "bounded", witness={"scenario": name} if ps else None))
    return rs


def standin_replay(w=None):
    if w and w.get("scenario"):
        return scenario_replay(w["scenario"])(w)
    return replay_native(w)


# ------------------------------------------------------------------------------------------ emit.defer_init

def _gen_funcs(tree):
    return [fd for fd in tree.body if isinstance(fd, (ast.FunctionDef, ast.AsyncFunctionDef)) and (fd.name == "root" or fd.name.startswith("block_"))]


def _has_env_default(fd):
    a = fd.args
    names = [x.arg for x in a.args]
    if "environment" not in names:
        return False
    i = names.index("environment")
    di = i - (len(names) - len(a.defaults))
    return di >= 0 and isinstance(a.defaults[di], ast.Name) and a.defaults[di].id == "environment" and i == len(names) - 1


def _strip_env_default(tree):
    for fd in _gen_funcs(tree):
        if _has_env_default(fd):
            fd.args.args.pop()
            fd.args.defaults.pop()
    return tree


def defer_pred(sc, tree, ph, txt):
    if sc.outcome == "raise":
        return []
    d = sc.holds(DEFER_INIT)
    nd = sc.holds(z3.Not(DEFER_INIT))
    if not (d or nd):
        return ["path does not decide defer_init"]
    fails = []
    funcs = _gen_funcs(tree)
    if not funcs or funcs[0].name != "root":
        fails.append("no root function emitted")
    for fd in funcs:
        if [x.arg for x in fd.args.args][:2] != ["context", "missing"]:
            fails.append(f"{fd.name}: parameters are {[x.arg for x in fd.args.args]}")
        if nd and not _has_env_default(fd):
            fails.append(f"{fd.name}: immediate initialisation must bind `environment=environment` as the last default parameter")
        if d:
            if any(x.arg == "environment" for x in fd.args.args + fd.args.kwonlyargs):
                fails.append(f"{fd.name}: deferred initialisation must not bind `environment` in the function header (it is a module global set by the loader)")
            for n in ast.walk(fd):
                if isinstance(n, ast.Name) and n.id == "environment" and isinstance(n.ctx, ast.Store):
                    fails.append(f"{fd.name}: assigns the name environment")
    # the module level must not define `environment` either: the loader provides it
    for n in tree.body:
        for t in ast.walk(n) if not isinstance(n, (ast.FunctionDef, ast.AsyncFunctionDef)) else []:
            if isinstance(t, ast.Name) and t.id == "environment" and isinstance(t.ctx, ast.Store):
                fails.append("module level assigns `environment`")
    return fails


def defer_whole(scs, rendered):
    """pair the paths that differ only in defer_init"""
    groups = {}
    for i, sc, txt, tree, ph in rendered:
        key = (sc.known_extends, tuple(re.sub(r"!\d+", "!", str(c)) for c in sc.pc if "defer_init" not in str(c)), len(ph))
        d = sc.holds(DEFER_INIT)
        groups.setdefault(key, {}).setdefault(d, []).append((i, txt))
    fails = []
    n_pairs = 0
    for key, g in groups.items():
        if True not in g or False not in g:
            fails.append(f"path {key[1][:4]}... exists only with defer_init={list(g)[0]}: control flow depends on defer_init")
            continue
        if len(g[True]) != len(g[False]):
            fails.append("different number of instantiations")
            continue
        for (i, t_def), (j, t_imm) in zip(g[True], g[False]):
            n_pairs += 1
            a = ast.dump(emit.parse_stmts(t_def))
            b = ast.dump(_strip_env_default(emit.parse_stmts(t_imm)))
            if a != b:
                # first differing line for the report
                la, lb = t_def.splitlines(), t_imm.splitlines()
                diff = next(((x, y) for x, y in zip(la, lb) if x != y and x.replace(", environment=environment", "") != y.replace(", environment=environment", "")), ("?", "?"))
                fails.append(f"paths #{i}/#{j}: deferred and immediate modules differ beyond the environment default: {diff[0].strip()[:80]!r} vs {diff[1].strip()[:80]!r}")
    if n_pairs == 0:
        fails.append("no path pairs compared")
    return [("pairwise_equal", fails[:5])]


def defer_reads(task, tier, seed):
    """no other code of the compiler reads defer_init"""
    fails = []
    tree, src, path = extract.module_ast(C)
    reads = []
    for cls in [n for n in tree.body if isinstance(n, ast.ClassDef)]:
        for fn in [n for n in cls.body if isinstance(n, (ast.FunctionDef, ast.AsyncFunctionDef))]:
            for n in ast.walk(fn):
                if isinstance(n, ast.Attribute) and n.attr == "defer_init" and isinstance(n.ctx, ast.Load):
                    reads.append((cls.name, fn.name, n.lineno))
                if isinstance(n, ast.Name) and n.id == "defer_init" and isinstance(n.ctx, ast.Load) and fn.name != "__init__":
                    reads.append((cls.name, fn.name, n.lineno))
    if [(c, f) for c, f, _ in reads] != [("CodeGenerator", "visit_Template")]:
        fails.append(f"defer_init is read at {reads}; expected exactly one read, in CodeGenerator.visit_Template")
    # getattr(self, 'defer_init') / vars() style access
    for n in ast.walk(tree):
        if isinstance(n, ast.Constant) and n.value == "defer_init":
            fails.append(f"string 'defer_init' at line {n.lineno}")
    init, _ = extract.function_ast(extract.resolve("jinja2.compiler:CodeGenerator.__init__"))
    stores = [ast.unparse(n) for n in ast.walk(init) if isinstance(n, ast.Assign) and any(isinstance(t, ast.Attribute) and t.attr == "defer_init" for t in n.targets)]
    if stores != ["self.defer_init = defer_init"]:
        fails.append(f"CodeGenerator.__init__ stores {stores}")
    params = [a.arg for a in init.args.args]
    if params[:7] != ["self", "environment", "name", "filename", "stream", "defer_init", "optimized"]:
        fails.append(f"CodeGenerator.__init__ parameters {params}")
    # other modules: runtime / loaders / environment must not look at it except to pass it on
    for mod in (E, L):
        t2, _, _ = extract.module_ast(mod)
        for n in ast.walk(t2):
            if isinstance(n, ast.Attribute) and n.attr == "defer_init":
                fails.append(f"{mod.__name__} line {n.lineno} reads .defer_init")
    from contracts.emit_template import soften
    return soften([Res("C31.emit.defer_init.reads", "refuted" if fails else "discharged", "ast-scan", 0, "; ".join(fails[:3]), "table",
                       witness={"failures": fails[:5]} if fails else None)], replay_native)


# ------------------------------------------------------------------------------------------ pipeline VCs

class Generate(VC):
    """compiler.generate: code_generator_class(environment, name, filename, stream, defer_init, optimized).visit(node);
    returns the stream's text when no stream is given"""
    prop = "C31"
    target = "jinja2.compiler:generate"

    def __init__(self):
        super().__init__("C31", "C31.pipeline.generate")

    def configure(self, I):
        owner = self

        def call_obj(I_, st, args, kwargs, node):
            if args[0] is owner.gen_cls:
                r = A.obj(st, _AbsGen, "generator", fields={"stream": A.obj(st, _AbsStream, "generator.stream")})
                st.trace.append(Event("call", "code_generator_class", args[1:], kwargs, r))
                owner.generator = r
                return [(st, r)]
            return None

        I.specs["call_obj"] = call_obj
        I.specs["_AbsGen.visit"] = A.abstract_fn("generator.visit", returns=None, raises=[TemplateSyntaxError])
        I.specs["_AbsStream.getvalue"] = A.abstract_fn("stream.getvalue", returns="str")

    def setup(self, I, st):
        self.gen_cls = sym("code_generator_class", "obj")
        self.env = A.obj(st, E.Environment, "environment", fields={"code_generator_class": self.gen_cls})
        self.node = A.obj(st, N.Template, "node")
        self.nm, self.fn = sym("name", "obj"), sym("filename", "obj")
        self.defer, self.opt = sym("defer_init", "bool"), sym("optimized", "bool")
        return [self.node, self.env, self.nm, self.fn], {"defer_init": self.defer, "optimized": self.opt}

    def p_args(self, pre, out):
        cs = A.calls(out, "code_generator_class")
        if len(cs) != 1:
            return False
        a, kw = list(cs[0].args), cs[0].kwargs
        names = ["environment", "name", "filename", "stream", "defer_init", "optimized"]
        got = dict(zip(names, a))
        got.update(kw)
        if set(got) != set(names):
            return False
        ok = got["environment"] == self.env and got["name"] is self.nm and got["filename"] is self.fn and got["stream"] is None
        return bool(ok and got["defer_init"] is self.defer and got["optimized"] is self.opt)

    def p_result(self, pre, out):
        vs = A.calls(out, "generator.visit")
        if len(vs) != 1 or vs[0].args[1] != self.node:
            return False
        if out.raised:
            return out.value.cls is TemplateSyntaxError
        gv = A.calls(out, "stream.getvalue")
        return len(gv) == 1 and out.value is gv[0].result

    posts = [("constructor_receives_defer_init", p_args), ("returns_generated_text", p_result)]

    def replay(self, w):
        return replay_native(w)

    def concretize(self, model, pre, out):
        return {"function": "generate"}


class _AbsGen:
    pass


class _AbsStream:
    pass


class EnvGenerate(VC):
    """Environment._generate passes source, self, name, filename, defer_init, optimized=self.optimized to compiler.generate"""
    prop = "C31"
    target = "jinja2.environment:Environment._generate"

    def __init__(self):
        super().__init__("C31", "C31.pipeline._generate")

    def configure(self, I):
        I.specs[("fn", id(E.generate))] = A.abstract_fn("generate", returns="str", raises=[TemplateSyntaxError])
        I.specs["jinja2.compiler:generate"] = I.specs[("fn", id(E.generate))]

    def setup(self, I, st):
        self.opt = sym("self.optimized", "bool")
        self.env = A.obj(st, E.Environment, "environment", fields={"optimized": self.opt})
        self.src, self.nm, self.fn, self.defer = sym("source", "obj"), sym("name", "obj"), sym("filename", "obj"), sym("defer_init", "bool")
        return [self.env, self.src, self.nm, self.fn], {"defer_init": self.defer}

    def p_pass(self, pre, out):
        cs = A.calls(out, "generate")
        if len(cs) != 1:
            return False
        names = ["node", "environment", "name", "filename", "stream", "defer_init", "optimized"]
        got = dict(zip(names, cs[0].args))
        got.update(cs[0].kwargs)
        ok = (got.get("node") is self.src and got.get("environment") == self.env and got.get("name") is self.nm and got.get("filename") is self.fn
              and got.get("stream") is None and got.get("defer_init") is self.defer and got.get("optimized") is self.opt)
        if not ok:
            return False
        return True if out.raised else out.value is cs[0].result

    posts = [("passes_defer_init_through", p_pass)]

    def replay(self, w):
        return replay_native(w)

    def concretize(self, model, pre, out):
        return {"function": "_generate"}


class EnvCompile(VC):
    """Environment.compile(source: str, name, filename, raw=True, defer_init=d) returns _generate(_parse(source, name,
    filename), name, filename, defer_init=d) unchanged"""
    prop = "C31"
    target = "jinja2.environment:Environment.compile"

    def __init__(self):
        super().__init__("C31", "C31.pipeline.compile")

    def configure(self, I):
        I.specs["Environment._parse"] = A.abstract_fn("_parse", returns="obj", raises=[TemplateSyntaxError])
        I.specs["Environment._generate"] = A.abstract_fn("_generate", returns="str", raises=[TemplateSyntaxError])
        I.specs["Environment._compile"] = A.abstract_fn("_compile", returns="obj")

        def handle_exception(I_, st, args, kwargs, node):
            # documented NoReturn: re-raises the (rewritten) current exception
            e = Exc(TemplateSyntaxError, (), tag="handle_exception", origin=getattr(node, "lineno", None))
            st.trace.append(Event("call", "handle_exception", args, kwargs, e))
            return [(st, Raised(e))]

        I.specs["Environment.handle_exception"] = handle_exception

    def setup(self, I, st):
        self.env = A.obj(st, E.Environment, "environment")
        self.src, self.nm, self.fn, self.defer = sym("source", "str"), sym("name", "obj"), sym("filename", "obj"), sym("defer_init", "bool")
        return [self.env, self.src, self.nm, self.fn, True, self.defer], {}

    def p_raw(self, pre, out):
        ps, gs = A.calls(out, "_parse"), A.calls(out, "_generate")
        if len(ps) != 1 or list(ps[0].args[1:]) != [self.src, self.nm, self.fn]:
            return False
        if isinstance(ps[0].result, Exc):
            return out.raised and not gs
        if len(gs) != 1:
            return False
        got = dict(zip(["source", "name", "filename", "defer_init"], gs[0].args[1:]))
        got.update(gs[0].kwargs)
        if not (got.get("source") is ps[0].result and got.get("name") is self.nm and got.get("filename") is self.fn and got.get("defer_init") is self.defer):
            return False
        if A.calls(out, "_compile"):
            return False
        if out.raised:
            return isinstance(gs[0].result, Exc)
        return out.value is gs[0].result

    posts = [("raw_returns_generated_source_with_defer_init", p_raw)]

    def replay(self, w):
        return replay_native(w)

    def concretize(self, model, pre, out):
        return {"function": "compile"}


# ------------------------------------------------------------------------------------------ compile_templates

class _AbsLoader:
    pass


class _AbsZip:
    pass


class _AbsZipInfo:
    pass


class _AbsFile:
    pass


class CompileTemplates(VC):
    prop = "C31"
    target = "jinja2.environment:Environment.compile_templates"
    timeout_quick = 20000

    def __init__(self, zip_mode):
        self.zip_mode = zip_mode
        super().__init__("C31", f"C31.compile_templates.{'dir' if zip_mode is None else zip_mode}")

    def configure(self, I):
        owner = self
        I.specs["Environment.list_templates"] = lambda I_, st, args, kwargs, node: (
            st.trace.append(Event("call", "list_templates", args[1:], kwargs, None)) or [(st, st.alloc(HList(items=list(owner.names))))])
        I.specs["_AbsLoader.get_source"] = A.abstract_fn("get_source", returns=None, result=lambda st, args, kwargs: (fresh("source", "str"), fresh("filename", "obj"), fresh("uptodate", "obj")))
        I.specs["Environment.compile"] = A.abstract_fn("compile", returns="str", raises=[TemplateSyntaxError])
        I.specs["jinja2.loaders:ModuleLoader.get_module_filename"] = A.abstract_fn("get_module_filename", returns="str")
        I.specs[("fn", id(L.ModuleLoader.get_module_filename))] = I.specs["jinja2.loaders:ModuleLoader.get_module_filename"]
        I.specs["ModuleLoader.get_module_filename"] = I.specs["jinja2.loaders:ModuleLoader.get_module_filename"]
        # any other way of naming the file is a contract violation (the loader imports get_template_key(name) + ".py")
        I.specs["jinja2.loaders:ModuleLoader.get_template_key"] = A.abstract_fn("get_template_key", returns="str")
        I.specs[("fn", id(L.ModuleLoader.get_template_key))] = I.specs["jinja2.loaders:ModuleLoader.get_template_key"]
        I.specs["ModuleLoader.get_template_key"] = I.specs["jinja2.loaders:ModuleLoader.get_template_key"]

        def zipfile_ctor(I_, st, args, kwargs, node):
            r = A.obj(st, _AbsZip, "zip_file")
            st.trace.append(Event("call", "ZipFile", args, kwargs, r))
            return [(st, r)]

        def zipinfo_ctor(I_, st, args, kwargs, node):
            r = st.alloc(HObj(_AbsZipInfo, fields={"filename": args[0]}, path="info"))
            st.get(r).plain_setattr = True
            st.trace.append(Event("call", "ZipInfo", args, kwargs, r))
            return [(st, r)]

        I.specs[I.spec_key(zipfile.ZipFile)] = zipfile_ctor
        I.specs[I.spec_key(zipfile.ZipInfo)] = zipinfo_ctor
        I.specs["_AbsZip.writestr"] = A.abstract_fn("writestr", returns=None)
        I.specs["_AbsZip.close"] = A.abstract_fn("zip.close", returns=None)

        def open_spec(I_, st, args, kwargs, node):
            r = A.obj(st, _AbsFile, "file")
            st.trace.append(Event("call", "open", args, kwargs, r))
            return [(st, r)]

        I.specs[("fn", id(open))] = open_spec
        I.specs["_AbsFile.write"] = A.abstract_fn("file.write", returns=None)

        def cm_enter(I_, st, cm, node):
            if isinstance(cm, Ref) and isinstance(st.get(cm), HObj) and st.get(cm).cls is _AbsFile:
                st.trace.append(Event("call", "file.__enter__", [cm]))
                return [(st, cm)]
            return None

        def cm_exit(I_, st, cm, ctl, node):
            if isinstance(cm, Ref) and isinstance(st.get(cm), HObj) and st.get(cm).cls is _AbsFile:
                st.trace.append(Event("call", "file.__exit__", [cm]))
                return [(st, ctl)]
            return None

        I.specs["cm_enter"] = cm_enter
        I.specs["cm_exit"] = cm_exit
        import importlib
        import importlib.util
        I.specs[("fn", id(importlib.invalidate_caches))] = A.abstract_fn("invalidate_caches", returns=None)
        F_cache = z3.Function("cache_from_source", z3.StringSort(), z3.StringSort())
        self.F_cache = F_cache
        I.specs[("fn", id(importlib.util.cache_from_source))] = lambda I_, st, args, kwargs, node: [(st, Sym(F_cache(to_term(args[0], "str")), "str"))]
        I.specs[("fn", id(os.remove))] = A.abstract_fn("os.remove", returns=None, raises=[OSError])
        I.specs[("fn", id(os.unlink))] = I.specs[("fn", id(os.remove))]
        I.specs[("fn", id(os.path.isdir))] = A.abstract_fn("isdir", returns="bool")
        I.specs[("fn", id(os.makedirs))] = A.abstract_fn("makedirs", returns=None)
        F_join = z3.Function("os.path.join", z3.StringSort(), z3.StringSort(), z3.StringSort())
        self.F_join = F_join
        I.specs[("fn", id(os.path.join))] = lambda I_, st, args, kwargs, node: [(st, Sym(F_join(to_term(args[0], "str"), to_term(args[1], "str")), "str"))]
        F_enc = z3.Function("str.encode.utf8", z3.StringSort(), KIND_OBJ)
        self.F_enc = F_enc

        def encode(I_, st, args, kwargs, node):
            codec = (list(args[1:2]) or [kwargs.get("encoding", "utf-8")])[0]
            errors = (list(args[2:3]) or [kwargs.get("errors", "strict")])[0]
            if isinstance(codec, str) and codec.lower().replace("-", "") == "utf8" and errors == "strict":
                return [(st, Sym(F_enc(to_term(args[0], "str")), "obj"))]
            # any other codec / error handler: some other bytes (the contract demands the utf-8 encoding of the text)
            other = z3.Function(f"str.encode.{codec}.{errors}", z3.StringSort(), KIND_OBJ)
            return [(st, Sym(other(to_term(args[0], "str")), "obj"))]

        I.specs["str.encode"] = encode

    def setup(self, I, st):
        self.names = [sym("tname0", "str"), sym("tname1", "str")]
        self.loader = A.obj(st, _AbsLoader, "loader")
        self.env = A.obj(st, E.Environment, "environment", fields={"loader": self.loader})
        self.target_path = sym("target", "str")
        self.ignore = sym("ignore_errors", "bool")
        self.ext, self.flt = sym("extensions", "obj"), sym("filter_func", "obj")
        return [self.env, self.target_path], {"extensions": self.ext, "filter_func": self.flt, "zip": self.zip_mode, "log_function": None, "ignore_errors": self.ignore}

    # ---- helpers over the trace
    def rounds(self, out):
        """split the trace into per-template rounds starting at get_source"""
        evs = [e for e in out.st.trace if e.kind == "call"]
        rounds, cur, pre = [], None, []
        for e in evs:
            if e.name == "get_source":
                cur = [e]
                rounds.append(cur)
            elif cur is None:
                pre.append(e)
            else:
                cur.append(e)
        return pre, rounds

    def p_protocol(self, pre_, out):
        pre, rounds = self.rounds(out)
        zipm = self.zip_mode
        # --- container set-up
        names = [e.name for e in pre]
        if zipm is not None:
            zs = [e for e in pre if e.name == "ZipFile"]
            if len(zs) != 1 or "open" in names or "makedirs" in names:
                return False
            a = zs[0].args
            want = zipfile.ZIP_DEFLATED if zipm == "deflated" else zipfile.ZIP_STORED
            if not (len(a) == 3 and a[0] is self.target_path and a[1] == "w" and a[2] == want and not zs[0].kwargs):
                return False
            zf = zs[0].result
        else:
            if "ZipFile" in names:
                return False
            zf = None
        lt = [e for e in pre if e.name == "list_templates"]
        if len(lt) != 1 or list(lt[0].args) != [self.ext, self.flt]:
            return False
        # --- per template
        terminated = False
        for i, r in enumerate(rounds):
            if terminated:
                return False
            gs = r[0]
            if not (gs.args[0] == self.loader and gs.args[1] == self.env and gs.args[2] is self.names[i]):
                return False
            source, filename, _ = gs.result
            rest = [e for e in r[1:] if e.name not in ("zip.close",)]
            if not rest or rest[0].name != "compile":
                return False
            c = rest[0]
            if not (list(c.args[1:]) == [source, self.names[i], filename, True, True] and not c.kwargs) and not (
                    list(c.args[1:4]) == [source, self.names[i], filename] and dict(zip(["raw", "defer_init"], c.args[4:]), **c.kwargs) == {"raw": True, "defer_init": True}):
                return False
            writes = [e for e in rest[1:] if e.name in ("writestr", "file.write", "open", "ZipInfo", "get_module_filename", "get_template_key", "file.__enter__", "file.__exit__")]
            if isinstance(c.result, Exc):
                if writes:
                    return False
                # skipped iff ignore_errors, checked in p_errors
                if i == len(rounds) - 1 and out.raised and out.value is c.result:
                    terminated = True
                continue
            code = c.result
            seq = [e.name for e in writes]
            if zipm is not None:
                if seq != ["get_module_filename", "ZipInfo", "writestr"]:
                    return False
                gm, zi, ws = writes
                if not (list(gm.args) == [self.names[i]] and list(zi.args) == [gm.result] and ws.args[0] == zf and ws.args[1] == zi.result and ws.args[2] is code and len(ws.args) == 3):
                    return False
            else:
                if seq != ["get_module_filename", "open", "file.__enter__", "file.write", "file.__exit__"]:
                    return False
                gm, op, en, wr, ex = writes
                if list(gm.args) != [self.names[i]]:
                    return False
                path = op.args[0]
                mode = op.args[1] if len(op.args) > 1 else op.kwargs.get("mode")
                if mode != "wb" or not isinstance(path, Sym) or not path.t.eq(self.F_join(self.target_path.t, gm.result.t)):
                    return False
                data = wr.args[1]
                if wr.args[0] != op.result or not isinstance(data, Sym) or not data.t.eq(self.F_enc(code.t)):
                    return False
        if not out.raised and len(rounds) != len(self.names):
            return False
        return True

    def p_errors(self, pre_, out):
        """a TemplateSyntaxError from compile is skipped iff ignore_errors; nothing else is swallowed"""
        cs = [e for e in A.calls(out, "compile")]
        failed = [e for e in cs if isinstance(e.result, Exc)]
        if out.raised:
            if failed and out.value is failed[-1].result:
                return z3.Not(self.ignore.t)
            return False
        if failed:
            return self.ignore.t
        return True

    def p_closed(self, pre_, out):
        closes = A.calls(out, "zip.close")
        if self.zip_mode is None:
            return not closes
        evs = [e for e in out.st.trace if e.kind == "call"]
        return len(closes) == 1 and evs.index(closes[0]) > max([evs.index(e) for e in evs if e.name in ("writestr", "compile")] or [-1])

    def p_fresh_for_import(self, pre_, out):
        """what was written is what a later import reads (dependency spec of the import system: a zipimporter keeps the table of
        contents of an archive, a FileFinder its directory listing, until importlib.invalidate_caches(); byte code cached in
        __pycache__ is reused when mtime (seconds) and size of the source agree): after the last write the import caches are
        invalidated, and in directory mode the cached byte code of every rewritten module is removed"""
        if out.raised and not A.calls(out, "compile"):
            return None
        evs = [e for e in out.st.trace if e.kind == "call"]
        inv = A.calls(out, "invalidate_caches")
        last_write = max([evs.index(e) for e in evs if e.name in ("writestr", "file.write", "zip.close")] or [-1])
        if last_write >= 0 and not any(evs.index(e) > last_write for e in inv):
            return False
        if self.zip_mode is None:
            for op in A.calls(out, "open"):
                path = op.args[0]
                rem = [e for e in A.calls(out, "os.remove") if isinstance(e.args[0], Sym) and isinstance(path, Sym) and e.args[0].t.eq(self.F_cache(path.t)) and evs.index(e) > evs.index(op)]
                if not rem:
                    return False
        return True

    posts = [("stores_deferred_raw_compilation_under_module_filename", p_protocol), ("syntax_errors_skipped_iff_ignore_errors", p_errors),
             ("archive_closed_once_at_the_end", p_closed), ("written_store_is_what_a_later_import_reads", p_fresh_for_import)]
    expect_paths_min = 4

    def replay(self, w):
        v1, d1 = replay_native(w)
        v2, d2 = scenario_replay("recompile_same_path")(w)
        return (bool(v1 or v2), d1 if v1 else d2)

    def concretize(self, model, pre, out):
        return {"zip": self.zip_mode, "ignore_errors": str(model.eval(self.ignore.t, True))}




# ------------------------------------------------------------------------------------------ module loader

def loader_tables(task, tier, seed):
    rs = []

    def row(name, fails):
        rs.append(Res(f"C31.module_loader.{name}", "refuted" if fails else "discharged", "table", 0, "; ".join(fails[:3]), "table",
                      witness={"failures": fails[:5]} if fails else None))

    # get_template_key / get_module_filename: real functions against the documented formula
    fails = []
    names = ["a", "a/test.html", "ünï.html", "", "x" * 300, "with space.txt", "sub/deep.html", "a\\b", "名前"]
    for name in names:
        want = "tmpl_" + hashlib.sha1(name.encode("utf-8")).hexdigest()
        if L.ModuleLoader.get_template_key(name) != want:
            fails.append(f"get_template_key({name!r}) = {L.ModuleLoader.get_template_key(name)!r}")
        if L.ModuleLoader.get_module_filename(name) != want + ".py":
            fails.append(f"get_module_filename({name!r}) = {L.ModuleLoader.get_module_filename(name)!r}")
        if not want.isidentifier():
            fails.append("key is not an importable module name")
    row("key_formula", fails)

    # spellings that the source loaders reading from a file system / package treat as one template (split_template_path drops
    # empty and "." segments) must name one compiled module: the compiled code passes the spelling written in the template
    fails = []
    for name in ["base.html", "partials/item.html", "a/b/c.txt", "ünï.html"]:
        segs = name.split("/")
        spellings = {"/" + name, "./" + name, "//" + name, name.replace("/", "//"), name.replace("/", "/./"), "./" + name.replace("/", "//"), "/./" + name}
        for sp in sorted(spellings - {name}):
            if "/".join(L.split_template_path(sp)) != name:
                continue
            if L.ModuleLoader.get_template_key(sp) != L.ModuleLoader.get_template_key(name):
                fails.append(f"[normalisation] FileSystemLoader / PackageLoader load {sp!r} as {name!r}, but ModuleLoader.get_template_key gives another module name for it")
    row("key_normalisation", sorted(fails)[:6])

    # semantics of the two functions on an exhaustive family of names (no demand on the shape of the code): every name made
    # of up to 4 segments from a segment alphabet that contains the empty and the "." segment:
    #   key == "tmpl_" + sha1(normalised name), normalised = the segments without empty / "." ones joined by "/"
    # hence equal keys for equivalent spellings, and different keys for different normalised names (checked on the family)
    import itertools
    fails = []
    alphabet = ["", ".", "a", "b.html", "ü", "..", "a b", "x" * 40]
    seen = {}
    n_names = 0
    for n in range(1, 5):
        for segs in itertools.product(alphabet, repeat=n):
            name = "/".join(segs)
            n_names += 1
            norm = "/".join(x for x in segs if x not in ("", "."))
            want = "tmpl_" + hashlib.sha1(norm.encode("utf-8")).hexdigest()
            try:
                got = L.ModuleLoader.get_template_key(name)
                gotf = L.ModuleLoader.get_module_filename(name)
            except Exception as ex:
                fails.append(f"get_template_key({name!r}) raises {type(ex).__name__}")
                continue
            if got != want and len(fails) < 8:
                fails.append(f"get_template_key({name!r}) = {got!r}, expected 'tmpl_' + sha1 of the normalised name {norm!r}")
            if gotf != got + ".py" and len(fails) < 8:
                fails.append(f"get_module_filename({name!r}) = {gotf!r}, expected the key + '.py'")
            if seen.setdefault(got, norm) != norm and len(fails) < 8:
                fails.append(f"the different templates {seen[got]!r} and {norm!r} share the module name {got}")
    if L.sha1 is not hashlib.sha1:
        fails.append("loaders.sha1 is not hashlib.sha1")
    rs.append(Res("C31.module_loader.key_semantics", "refuted" if fails else "discharged", "table", 0,
                  "; ".join(fails[:3]) if fails else f"{n_names} names, {len(seen)} distinct normalised names", "table",
                  witness={"failures": fails[:5]} if fails else None))

    # __init__: a package object whose __path__ is the given path(s), registered (weakly) in sys.modules under package_name
    fails = []
    import tempfile
    import pathlib
    d = tempfile.mkdtemp(prefix="c31ml_", dir=os.environ.get("PYVC_TMP") or None)
    try:
        for arg, want in ((d, [d]), (pathlib.Path(d), [d]), ([d, pathlib.Path("/nonexistent")], [d, "/nonexistent"])):
            ld = L.ModuleLoader(arg)
            if list(ld.module.__path__) != want:
                fails.append(f"ModuleLoader({arg!r}).module.__path__ = {ld.module.__path__!r}")
            if ld.package_name not in sys.modules or sys.modules[ld.package_name].__name__ != ld.module.__name__ or ld.module.__name__ != ld.package_name:
                fails.append("the package is not registered in sys.modules under package_name")
            pk = ld.package_name
            del ld
            import gc
            gc.collect()
            if pk in sys.modules:
                fails.append("sys.modules entry survives the loader")
        if L.ModuleLoader.has_source_access is not False:
            fails.append("has_source_access")
    finally:
        import shutil
        shutil.rmtree(d, ignore_errors=True)
    row("init", fails)
    return rs


class _AbsTemplateClass:
    pass


class _AbsModule:
    pass


class _SysModules:
    pass


class LoaderLoad(VC):
    prop = "C31"
    target = "jinja2.loaders:ModuleLoader.load"

    def __init__(self, cached, with_globals):
        self.cached, self.with_globals = cached, with_globals
        super().__init__("C31", f"C31.module_loader.load.{'cached' if cached else 'import'}.{'globals' if with_globals else 'noglobals'}")

    def configure(self, I):
        owner = self
        I.specs["jinja2.loaders:ModuleLoader.get_template_key"] = A.abstract_fn("get_template_key", returns="str")
        I.specs["ModuleLoader.get_template_key"] = I.specs["jinja2.loaders:ModuleLoader.get_template_key"]
        I.specs[("fn", id(L.ModuleLoader.get_template_key))] = I.specs["jinja2.loaders:ModuleLoader.get_template_key"]

        def import_spec(I_, st, args, kwargs, node):
            s2 = st.fork()
            e = Exc(ImportError, (), tag="__import__", origin=getattr(node, "lineno", None))
            s2.trace.append(Event("call", "__import__", args, kwargs, e))
            mod = st.alloc(HObj(_AbsModule, fields={"__dict__": sym("imported_module_dict", "obj")}, path="imported"))
            st.trace.append(Event("call", "__import__", args, kwargs, mod))
            return [(s2, Raised(e)), (st, mod)]

        I.specs[("fn", id(__import__))] = import_spec

        def getattr_spec(I_, st, args, kwargs, node):
            o, nm = args[0], args[1]
            if o == owner.module and len(args) == 3:
                st.trace.append(Event("call", "getattr(self.module)", args[1:], {}, owner.cached_mod))
                return [(st, owner.cached_mod if owner.cached else args[2])]
            return None

        self._base_getattr = I.specs.get(("fn", id(getattr)))

        def getattr_wrap(I_, st, args, kwargs, node):
            r = getattr_spec(I_, st, args, kwargs, node)
            if r is not None:
                return r
            return self._base_getattr(I_, st, args, kwargs, node)

        I.specs[("fn", id(getattr))] = getattr_wrap
        I.specs["_AbsTemplateClass.from_module_dict"] = A.abstract_fn("from_module_dict", returns="obj")
        I.specs["_SysModules.pop"] = A.abstract_fn("sys.modules.pop", returns=None)

        def attr_hook(I_, st, obj, name, node):
            if obj is sys and name == "modules":
                return [(st, owner.sysmodules)]
            return None

        I.attr_hook = attr_hook

    def setup(self, I, st):
        self.tname = sym("template_name", "str")
        self.pkg = sym("package_name", "str")
        self.module = A.obj(st, _AbsModule, "self.module")
        self.cached_mod = st.alloc(HObj(_AbsModule, fields={"__dict__": sym("cached_module_dict", "obj")}, path="cached"), initial=True)
        self.loader = A.obj(st, L.ModuleLoader, "loader", fields={"package_name": self.pkg, "module": self.module})
        self.sysmodules = A.obj(st, _SysModules, "sys.modules")
        self.tc = A.obj(st, _AbsTemplateClass, "template_class")
        self.env = A.obj(st, E.Environment, "environment", fields={"template_class": self.tc})
        self.glob = st.alloc(HDict(items={"G": sym("g_value", "obj")}), initial=True) if self.with_globals else None
        return [self.loader, self.env, self.tname], ({"globals": self.glob} if self.with_globals else {})

    def p_load(self, pre, out):
        ks = A.calls(out, "get_template_key")
        if len(ks) != 1 or list(ks[0].args)[-1:] != [self.tname]:
            return False
        key = ks[0].result
        want_mod = z3.Concat(self.pkg.t, z3.StringVal("."), key.t)
        imps = A.calls(out, "__import__")
        fm = A.calls(out, "from_module_dict")
        if self.cached:
            if imps:
                return False
            mod_dict = out.st.get(self.cached_mod).fields["__dict__"]
        else:
            if len(imps) != 1:
                return False
            a = imps[0].args
            nm = a[0]
            if not (isinstance(nm, Sym) and z3.simplify(nm.t == want_mod) is not None):
                return False
            self._name_term = nm.t
            fl = a[3] if len(a) > 3 else imps[0].kwargs.get("fromlist")
            if isinstance(fl, Ref):
                fl = out.st.get(fl).items
            if list(fl or []) != ["root"]:
                return False
            if isinstance(imps[0].result, Exc):
                # ImportError -> TemplateNotFound(name)
                ok = out.raised and out.value.cls is TemplateNotFound and list(out.value.args) == [self.tname] and not fm
                return z3.And(nm.t == want_mod) if ok else False
            mod_dict = out.st.get(imps[0].result).fields["__dict__"]
        if out.raised or len(fm) != 1:
            return False
        a = fm[0].args
        if not (a[0] == self.tc and a[1] == self.env and a[2] is mod_dict and out.value is fm[0].result):
            return False
        g = a[3]
        if self.with_globals:
            if g != self.glob:
                return False
        else:
            if not (isinstance(g, Ref) and isinstance(out.st.get(g), HDict) and out.st.get(g).items == {}):
                return False
        if not self.cached:
            return nm.t == want_mod
        return True

    posts = [("imports_package_dot_key_and_builds_from_module_dict", p_load)]

    def replay(self, w):
        return replay_native(w)

    def concretize(self, model, pre, out):
        return {"function": "ModuleLoader.load", "cached": self.cached}


class LoaderLoadTwice(VC):
    """The same name loaded twice through ONE ModuleLoader (for two environments): the namespace dict handed to
    Template.from_module_dict / _from_namespace the second time is not the one the first template owns.  (_from_namespace
    stores the loading environment in namespace['environment'], the global the deferred functions read: a shared namespace
    makes the template handed out first render with the other environment.)

    Dependency spec of the import system (assumed): `__import__(dotted, ..., fromlist)` returns sys.modules[dotted] when
    present, otherwise executes the file into a FRESH module, stores it in sys.modules[dotted] and binds it as attribute
    <short name> of the parent package object; `getattr(package, name, default)` sees exactly those bindings."""
    prop = "C31"
    target = "jinja2.loaders:ModuleLoader.load"

    def __init__(self):
        super().__init__("C31", "C31.module_loader.load.twice")

    # -- deciding string equalities under the path condition
    @staticmethod
    def _eq(st, a, b):
        ta, tb = to_term(a, "str"), to_term(b, "str")
        from pyvc.smt import check_sat
        if check_sat(list(st.pc) + [ta != tb], 3000, 0, use_cvc5=False).status == "unsat":
            return True
        if check_sat(list(st.pc) + [ta == tb], 3000, 0, use_cvc5=False).status == "unsat":
            return False
        return None

    def configure(self, I):
        owner = self
        F_key = z3.Function("get_template_key", z3.StringSort(), z3.StringSort())

        def key_spec(I_, st, args, kwargs, node):
            r = Sym(F_key(to_term(args[-1], "str")), "str")
            st.assume(z3.Not(z3.Contains(r.t, z3.StringVal("."))), z3.Length(r.t) > 0)
            st.trace.append(Event("call", "get_template_key", args, kwargs, r))
            return [(st, r)]

        for k in ("jinja2.loaders:ModuleLoader.get_template_key", "ModuleLoader.get_template_key", ("fn", id(L.ModuleLoader.get_template_key))):
            I.specs[k] = key_spec

        def lookup(st, table, name):
            """-> list of (state, module or None) for a ghost table [(key term, module)]"""
            outs = []
            cur = st
            for kt, mod in table(cur):
                d = owner._eq(cur, name, kt)
                if d is True:
                    outs.append((cur, mod))
                    return outs
                if d is None:
                    hit = cur.fork()
                    hit.assume(to_term(name, "str") == to_term(kt, "str"))
                    outs.append((hit, mod))
                    cur.assume(to_term(name, "str") != to_term(kt, "str"))
            outs.append((cur, None))
            return outs

        def pkg_attrs(st):
            return list(st.get(owner.module).fields.get("ghost_attrs", ()))

        def sys_entries(st):
            return list(st.get(owner.sysmodules).fields.get("ghost_entries", ()))

        base_getattr = I.specs.get(("fn", id(getattr)))

        def getattr_spec(I_, st, args, kwargs, node):
            if args[0] == owner.module and len(args) == 3:
                res = []
                for s, mod in lookup(st, pkg_attrs, args[1]):
                    s.trace.append(Event("call", "getattr(self.module)", args[1:], {}, mod))
                    res.append((s, mod if mod is not None else args[2]))
                return res
            return base_getattr(I_, st, args, kwargs, node)

        I.specs[("fn", id(getattr))] = getattr_spec

        def import_spec(I_, st, args, kwargs, node):
            name = args[0]
            res = []
            for s, mod in lookup(st, sys_entries, name):
                if mod is not None:
                    s.trace.append(Event("call", "__import__", args, kwargs, mod))
                    res.append((s, mod))
                    continue
                # not in sys.modules: the file is executed into a fresh module (or cannot be found)
                s2 = s.fork()
                e = Exc(ImportError, (), tag="__import__", origin=getattr(node, "lineno", None))
                s2.trace.append(Event("call", "__import__", args, kwargs, e))
                res.append((s2, Raised(e)))
                n = len([e_ for e_ in s.trace if e_.name == "__import__"])
                m = s.alloc(HObj(_AbsModule, fields={"__dict__": fresh("module_dict", "obj")}, path=f"imported{n}"))
                t = to_term(name, "str")
                short = None
                if z3.is_app(t) and t.decl().kind() == z3.Z3_OP_SEQ_CONCAT:
                    leaf = t
                    while z3.is_app(leaf) and leaf.decl().kind() == z3.Z3_OP_SEQ_CONCAT:
                        leaf = leaf.children()[-1]
                    # <package>.<short>: the last piece of the dotted name, which contains no dot itself
                    if owner._eq(s, Sym(z3.Concat(owner.pkg.t, z3.StringVal("."), leaf), "str"), name) is True:
                        short = leaf
                if short is None:
                    raise Unsupported("import of a module whose name is not <package>.<key>", node)
                hm, hs = s.get(owner.module), s.get(owner.sysmodules)
                hm.fields["ghost_attrs"] = tuple(hm.fields.get("ghost_attrs", ())) + ((Sym(short, "str"), m),)
                hs.fields["ghost_entries"] = tuple(hs.fields.get("ghost_entries", ())) + ((name, m),)
                s.trace.append(Event("call", "__import__", args, kwargs, m))
                res.append((s, m))
            return res

        I.specs[("fn", id(__import__))] = import_spec

        def pop_spec(I_, st, args, kwargs, node):
            res = []
            for s, mod in lookup(st, sys_entries, args[1]):
                hs = s.get(owner.sysmodules)
                if mod is not None:
                    hs.fields["ghost_entries"] = tuple((k, m) for k, m in hs.fields.get("ghost_entries", ()) if m != mod)
                s.trace.append(Event("call", "sys.modules.pop", args[1:], kwargs, mod))
                res.append((s, mod if mod is not None else (args[2] if len(args) > 2 else None)))
            return res

        I.specs["_SysModules.pop"] = pop_spec
        I.specs["_AbsTemplateClass.from_module_dict"] = A.abstract_fn("from_module_dict", returns="obj")

        def attr_hook(I_, st, obj, name, node):
            if obj is sys and name == "modules":
                return [(st, owner.sysmodules)]
            return None

        I.attr_hook = attr_hook

    def setup(self, I, st):
        self.tname = sym("template_name", "str")
        self.pkg = sym("package_name", "str")
        self.module = A.obj(st, _AbsModule, "self.module", fields={"ghost_attrs": ()})
        self.loader = A.obj(st, L.ModuleLoader, "loader", fields={"package_name": self.pkg, "module": self.module})
        self.sysmodules = A.obj(st, _SysModules, "sys.modules", fields={"ghost_entries": ()})
        self.tc = A.obj(st, _AbsTemplateClass, "template_class")
        self.envs = [A.obj(st, E.Environment, f"environment{i}", fields={"template_class": self.tc}) for i in (1, 2)]
        return [self.loader, self.envs[0], self.tname], {}

    def paths(self, I):
        from pyvc.contract import Outcome
        st = State()
        self.configure(I)
        args, kwargs = self.setup(I, st)
        pre = st.fork()
        clo = self.closure(I)
        outs = []
        for s1, v1 in I.call_closure(st, clo, list(args), dict(kwargs)):
            if isinstance(v1, Raised):
                continue  # the template does not exist: nothing is handed out
            for s2, v2 in I.call_closure(s1, clo, [self.loader, self.envs[1], self.tname], {}):
                outs.append(Outcome(s2, "raise" if isinstance(v2, Raised) else "return", v2.exc if isinstance(v2, Raised) else v2, len(outs)))
        return pre, outs

    def p_fresh(self, pre, out):
        fm = A.calls(out, "from_module_dict")
        if out.raised:
            # the second load may only fail like the first one could: by not finding the module
            return out.value.cls is TemplateNotFound
        if len(fm) != 2:
            return False
        d1, d2 = fm[0].args[2], fm[1].args[2]
        if fm[0].args[1] != self.envs[0] or fm[1].args[1] != self.envs[1]:
            return False
        same = (d1 is d2) or (isinstance(d1, Sym) and isinstance(d2, Sym) and d1.t.eq(d2.t))
        return not same

    def p_unregistered(self, pre, out):
        """after each load the module is not left in sys.modules (the only reference is the template's namespace)"""
        return not out.st.get(self.sysmodules).fields.get("ghost_entries")

    posts = [("second_load_gets_a_namespace_of_its_own", p_fresh), ("module_not_left_in_sys_modules", p_unregistered)]
    expect_paths_min = 1

    def replay(self, w):
        return replay_native(w)

    def concretize(self, model, pre, out):
        return {"function": "ModuleLoader.load", "scenario": "one loader, two environments, same template name"}


def constructor_tables(task, tier, seed):
    """from_module_dict and from_code build the template with the same constructor; _from_namespace binds the
    module-global `environment` the deferred functions read"""
    rs = []

    def row(name, fails):
        rs.append(Res(f"C31.module_loader.{name}", "refuted" if fails else "discharged", "ast+native", 0, "; ".join(fails[:3]), "table",
                      witness={"failures": fails[:5]} if fails else None))

    # semantic, no demand on the code's shape: a Template subclass records what reaches _from_namespace
    fails = []
    from jinja2 import Environment as _Env
    env0 = _Env()
    calls = []

    class Rec(E.Template):
        @classmethod
        def _from_namespace(cls, environment, namespace, globals):
            calls.append((cls, environment, namespace, globals))
            return super()._from_namespace(environment, namespace, globals)

    ns0 = {"name": "n", "__file__": "f", "blocks": {}, "root": (lambda ctx: iter(())), "debug_info": ""}
    g0 = {"G": 1}
    t0_ = Rec.from_module_dict(env0, ns0, g0)
    if len(calls) != 1 or calls[0][0] is not Rec or calls[0][1] is not env0 or calls[0][2] is not ns0 or calls[0][3] is not g0:
        fails.append("from_module_dict does not build the template by cls._from_namespace(environment, <the module dict itself>, globals)")
    elif not isinstance(t0_, Rec) or t0_.globals is not g0:
        fails.append("from_module_dict does not return the template built by _from_namespace")
    del calls[:]
    code0 = env0.compile("{{ 1 }}{% block b %}x{% endblock %}", "nm", "fn")
    g1 = {"H": 2}
    t1_ = Rec.from_code(env0, code0, g1, None)
    if len(calls) != 1 or calls[0][0] is not Rec or calls[0][1] is not env0 or calls[0][3] is not g1:
        fails.append("from_code does not build the template by cls._from_namespace(environment, namespace, globals)")
    else:
        ns1 = calls[0][2]
        if not (callable(ns1.get("root")) and "b" in ns1.get("blocks", {}) and ns1.get("name") == "nm" and ns1.get("__file__") == "fn"):
            fails.append("from_code does not hand _from_namespace the namespace in which the compiled module was executed")
        if t1_.root_render_func is not ns1.get("root"):
            fails.append("from_code does not return the template built by _from_namespace")
    row("same_constructor", fails)

    # _from_namespace natively on a recording namespace: reads name/__file__/blocks/root/debug_info, writes environment
    fails = []
    from jinja2 import Environment
    env = Environment()
    root = lambda ctx: iter(())  # noqa
    blocks = {"b": root}
    ns = {"name": "n", "__file__": "f", "blocks": blocks, "root": root, "debug_info": "1=2"}
    g = {"G": 1}
    t = E.Template._from_namespace(env, ns, g)
    if ns.get("environment") is not env:
        fails.append("_from_namespace does not bind namespace['environment'] to the loading environment")
    if not (t.environment is env and t.globals is g and t.name == "n" and t.filename == "f" and t.blocks is blocks and t.root_render_func is root and t._debug_info == "1=2" and t._module is None):
        fails.append("_from_namespace does not take name, filename, blocks, root, debug_info from the namespace")
    if ns.get("__jinja_template__") is not t:
        fails.append("__jinja_template__ not stored")
    # a deferred module really reads the global: exec a raw deferred compilation in a fresh namespace
    src = env.compile("{{ 1 }}{% block b %}{{ undefined_name }}{% endblock %}", "n", "f", raw=True, defer_init=True)
    ns2 = {"__file__": "f"}
    exec(compile(src, "f", "exec"), ns2)
    if "environment" in ns2:
        fails.append("a deferred module defines `environment` itself")
    t2 = E.Template.from_module_dict(env, ns2, {})
    try:
        if t2.render() != "1":
            fails.append(f"deferred module renders {t2.render()!r}")
    except Exception as ex:
        fails.append(f"deferred module fails after from_module_dict: {type(ex).__name__}: {ex}")
    row("binds_environment", fails)
    return rs


# ------------------------------------------------------------------------------------------ tasks

def _fk(t, k):
    t.finding_key = k
    return t


def ct_key(res):
    return res.name.split(".")[-1].split("#")[0]


TASKS = (
    [TemplateEmitTask("C31", f"C31.emit.defer_init.{'async' if a else 'sync'}.{'known_extends' if ke else 'open'}", defer_pred, replay_fn=replay_native,
                      min_paths=16, whole=defer_whole, n_blocks=1, n_imports=1, env_fields={"is_async": a}, known_extends=ke)
     for a in (False, True) for ke in (False, True)]
    + [
     FnTask("C31", "C31.emit.defer_init.reads", defer_reads, "table", replay_native),
     Generate(), EnvGenerate(), EnvCompile(),
     _fk(CompileTemplates(None), ct_key), _fk(CompileTemplates("deflated"), ct_key), _fk(CompileTemplates("stored"), ct_key),
     _fk(FnTask("C31", "C31.module_loader.tables", loader_tables, "table", scenario_replay("unnormalised_names")), lambda r: "normalisation" if "[normalisation]" in (r.detail or "") else "?"),
     LoaderLoad(False, False), LoaderLoad(False, True), LoaderLoadTwice(),
     FnTask("C31", "C31.module_loader.constructor", constructor_tables, "table", replay_native),
     _fk(FnTask("C31", "C31.native", standin, "bounded", standin_replay), lambda r: r.name.rsplit(".", 1)[-1])]
)

META = {
    "level": "other",
    "explanation": "Proof of mechanism: relational emission contract on the real visit_Template (deferred and immediate modules are the same Python "
                   "AST up to the environment default parameter; nothing else reads defer_init), VCs on compile -> _generate -> generate passing "
                   "defer_init, a trace contract on the real Environment.compile_templates (what is written where, per container, error policy), "
                   "VCs on ModuleLoader.load and structural/table obligations on the key formula and the shared constructor _from_namespace; plus a "
                   "bounded native stand-in comparing renders from source, directory and zip stores.",
    "assumptions": ["equal source text implies equal behaviour when the loading environment is configured like the compiling one (the statement's premise)",
                    "sha1 is collision free on the template names in use",
                    "Python's import system finds <key>.py in the package __path__ (directory or zip archive): dependency spec",
                    "compile_templates is run with two generic template names (the loop body carries no state between templates)",
                    "visit_Template is run with one block and one imported name"],
    "trusted_base": ["pyvc symbolic interpreter and emission engine", "python ast", "zipfile / import system", "z3 5.1"],
}
