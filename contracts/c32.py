"""C32  Static template introspection over-approximates runtime behaviour.

PROOF-OF-MECHANISM.

  C32.resolve.covered      relational, on the real CodeGenerator.enter_frame and meta.TrackingCodeGenerator.enter_frame run
                           symbolically over the SAME frame.symbols.loads (entries with symbolic action / param): whenever
                           the code generator emits `<target> = resolve(<param>)` (or `<ctx>.resolve(...)`) for an entry, the
                           tracking generator has added that param to undeclared_identifiers, unless it is an environment
                           global.  (The tracking class compares with the literal "resolve": the relation fails if
                           idtracking.VAR_LOAD_RESOLVE drifts.)
  C32.resolve.only_site.*  no other visitor's emission schema contains a context lookup by name (resolve / .resolve /
                           .resolve_or_missing / context[...] / context.get(...)); plus a scan of every string literal of the
                           CodeGenerator class: the text `resolve` is produced only by enter_frame, get_resolve_func and
                           write_commons (the alias `resolve = context.resolve_or_missing`)
  C32.tracking.*           TrackingCodeGenerator overrides exactly __init__, write, enter_frame; write has no effect;
                           __init__ only adds the empty set; find_undeclared_variables returns the set of the generator it
                           ran over the given ast; Symbols.load registers (VAR_LOAD_RESOLVE, name) under the name itself
  C32.refs.sites.*         the visitors whose schemas (and whose source literals, through the helpers they call) emit
                           environment.get_template / select_template / get_or_select_template are exactly the visitors of
                           meta._ref_types, and the template argument is the visited `node.template`
  C32.refs.yield.*         the real generator find_referenced_templates run on every node shape (class in _ref_types x
                           template in {Const str, Const non-str, Const tuple/list, Tuple/List node with const-str /
                           const-non-str / dynamic items (<= 3 items), every other expression class}) with symbolic leaves:
                           every name the emitted code can load is yielded, or None is yielded (soundness); a constant
                           string is yielded as is, without None (precision).  Expected to fail for non-string constants
                           inside a list (DESIGN F23).
"""
from __future__ import annotations

import ast
import inspect
import itertools
import re
import time
import z3

from pyvc.contract import VC, Res, FnTask
from pyvc.emitcheck import EmitTask
from pyvc import emit, extract, abstract as A
from pyvc.values import State, Sym, Ref, HObj, HList, HDict, HSet, Closure, KIND_SORT, sym, Unsupported, fresh_name
from pyvc.interp import Raised
from pyvc.smt import check_sat
from contracts.emit_common import all_visitor_tasks, hole_of
from contracts.emit_template import TemplateEmitTask

import jinja2.nodes as N
import jinja2.meta as M
import jinja2.compiler as C
import jinja2.idtracking as IDT

STRSET = z3.ArraySort(z3.StringSort(), z3.BoolSort())
GLOBALS_DOM = z3.Const("environment.globals.dom", STRSET)


# ------------------------------------------------------------------------------------------ native oracles

class _RecordingContext:
    pass


def native_undeclared(w=None):
    """Render a family of templates with a recording context class: every name looked up from the context at
    runtime must be reported by find_undeclared_variables or be an environment global."""
    from jinja2 import Environment, DictLoader
    from jinja2.runtime import Context
    looked = []

    class RC(Context):
        def resolve_or_missing(self, key):
            looked.append(key)
            return super().resolve_or_missing(key)

    srcs = [
        "{{ a }}{{ b.c }}{% set d = e %}{{ d }}",
        "{% for x in xs %}{{ x }}{{ y }}{{ loop.index }}{% endfor %}{{ x }}",
        "{% if p %}{% set q = 1 %}{% else %}{{ r }}{% endif %}{{ q }}",
        "{% macro m(a, b=c) %}{{ a }}{{ b }}{{ d }}{{ caller }}{{ varargs }}{% endmacro %}{{ m(1) }}",
        "{% with u = v %}{{ u }}{{ w }}{% endwith %}{{ u }}",
        "{% block t %}{{ s }}{{ self }}{% endblock %}",
        "{% set ns = namespace(k=z) %}{% set ns.k = zz %}{{ ns.k }}",
        "{% call(cc) m2() %}{{ cc }}{{ dd }}{% endcall %}",
        "{% filter upper %}{{ f1 }}{% endfilter %}{% set blk %}{{ f2 }}{% endset %}",
        "{{ range(3) }}{{ lipsum }}{{ g1 }}",
        "{% for i in r1 if i > lim %}{{ i }}{% else %}{{ e1 }}{% endfor %}",
        "{% for i in r2 recursive %}{{ loop(i.c) }}{{ o1 }}{% endfor %}",
        "{% import 'lib' as lib %}{{ lib.f(i1) }}{% from 'lib' import f as ff %}{{ ff(i2) }}",
        "{% include 'inc' %}{{ k1 }}",
        # a name read from the context before / although the template assigns it
        "{% set title = title or 'untitled' %}[{{ title }}]",
        "{% if flag %}{% set title2 = 'fixed' %}{% endif %}[{{ title2 }}]",
        "{% block b %}{% set n = n|default(3) %}{{ n }}{% endblock %}",
        "{% for i in seq %}{% if i %}{% set acc = i %}{% endif %}{{ acc }}{% endfor %}",
        "{% if a1 %}{% set v9 = 1 %}{% elif a2 %}{% set w9 = 2 %}{% else %}{% set v9 = 3 %}{% endif %}{{ v9 }}{{ w9 }}",
        "{% macro mm() %}{% set inner = inner|default(1) %}{{ inner }}{% endmacro %}{{ mm() }}",
        "{% with q9 = q9 %}{{ q9 }}{% endwith %}{% set q9 = 1 %}",
        "{% for row in rows %}{% set total = (total or 0) + row %}{% endfor %}{{ total }}",
        # names the compiler binds only inside the matching construct, used outside of it
        "{{ loop.index }}{{ kwargs }}{{ varargs }}{{ caller }}{{ super }}",
        "{% macro m3() %}{{ loop }}{% endmacro %}{% for i in seq %}{{ m3() }}{% endfor %}",
        "{% block b2 %}{{ caller }}{{ kwargs }}{% endblock %}",
        # scopes that still run after a root-level extends
        "{% extends 'base' %}{% for item in cart %}{% set ns.total = ns.total + item * tax %}{% endfor %}",
        "{% extends 'base' %}{% with w1 = rate %}{% set ns.x = w1 * fee %}{% endwith %}{% filter upper %}{{ shout }}{% endfilter %}",
        "{% extends 'base' %}{% set z5 = zz5 %}{% if cond5 %}{% set y5 = yy5 %}{% endif %}{% block body %}{{ inblock5 }}{% endblock %}",
        "{% if dyn %}{% extends 'base' %}{% endif %}{% for item in cart %}{{ item * tax2 }}{% endfor %}",
    ]
    env = Environment(loader=DictLoader({"lib": "{% macro f(x) %}{{ x }}{{ libvar }}{% endmacro %}", "inc": "{{ incvar }}", "base": "[{% block body %}{% endblock %}]"}))
    env.context_class = RC
    problems = []
    for src in srcs:
        try:
            tree = env.parse(src)
            reported = M.find_undeclared_variables(tree)
        except Exception as ex:
            problems.append(f"{src!r}: find_undeclared_variables raised {type(ex).__name__}: {ex}")
            continue
        code = env.compile(tree, "main", "main")
        own_names = set(re.findall(r"resolve\('([^']*)'\)", env.compile(tree, "main", "main", raw=True)))
        names_all = set(reported) | own_names
        for data in ({}, {n: [1, 2] for n in names_all}, {n: 1 for n in names_all}, {n: 0 for n in names_all}):
            del looked[:]
            try:
                env.from_string(src).render(**data)
            except Exception:
                pass
            mine = [n for n in looked if n in own_names or n not in ("libvar", "incvar")]
            for n in mine:
                if n not in reported and n not in env.globals and n not in ("libvar", "incvar"):
                    problems.append(f"{src!r}: runtime lookup of {n!r} is not reported by find_undeclared_variables ({sorted(reported)})")
    return (bool(problems), "; ".join(sorted(set(problems))[:3]) or f"all runtime context lookups of {len(srcs)} templates are reported")


def native_refs(w=None):
    """Render templates with a recording loader: every template loaded at runtime through extends / include / import
    is reported by find_referenced_templates, or None is reported."""
    from jinja2 import Environment, BaseLoader, TemplateNotFound
    srcs = list((w or {}).get("sources") or []) + [
        '{% extends "base" %}', '{% include "a" %}', '{% include ["missing", "a"] %}', '{% include [1, "a"] %}', '{% include ("a", 1) %}',
        '{% include [x, "a"] %}', '{% include x %}', '{% import "a" as m %}', '{% from "a" import q %}{{ q }}', '{% extends x %}',
        '{% include "a" if c else "b" %}', '{% include ["a", "b"] ignore missing %}', '{% include [1] ignore missing %}',
        '{% extends x if x else "base" %}', '{% include "base" if not x else x %}', '{% import ("base" if not x else x) as m %}',
        '{% from (x if x else "base") import q %}', '{% extends "ba" ~ "se" %}', '{% include x ~ "" %}', '{% include (x or "base") %}',
        '{% include x|default("base") %}', '{% include x if x %}',
        '{% include [none, "a"] ignore missing %}', '{% include [1.5, "a"] ignore missing %}',
    ]
    store = {"base": "B", "a": "A", "b": "Bb", "t0": "T0", "t1": "T1", "t2": "T2"}
    problems = []
    for src in dict.fromkeys(srcs):
        loaded = []

        class L(BaseLoader):
            def get_source(self, environment, template):
                # a loader that has every template whose name is not a string (tuples, numbers, None), and the strings of `store`
                if not isinstance(template, str) or template in store:
                    loaded.append(template)
                    return store.get(template, "X"), None, lambda: True
                raise TemplateNotFound(str(template))

        env = Environment(loader=L())
        try:
            reported = list(M.find_referenced_templates(env.parse(src)))
        except Exception as ex:
            problems.append(f"{src}: find_referenced_templates raised {type(ex).__name__}")
            continue
        for data in ({"x": "a", "c": True}, {"x": "b", "c": False}):
            del loaded[:]
            try:
                env.from_string(src).render(**data)
            except Exception:
                pass
            for name in loaded:
                if name not in reported and None not in reported:
                    problems.append(f"{src} loads template {name!r} at runtime but find_referenced_templates reports {reported} (no None)")
    return (bool(problems), "; ".join(sorted(set(problems))[:3]) or f"every runtime load of {len(srcs)} templates is reported or flagged unknown")


# ------------------------------------------------------------------------------------------ resolve.covered

def _join_spec(I_, s, args, kwargs, node):
    from pyvc.smt import to_term
    items = I_.iter_concrete(s, args[1], node)
    if all(isinstance(x, str) for x in items) and isinstance(args[0], str):
        return [(s, args[0].join(items))]
    parts = []
    for i, x in enumerate(items):
        if i:
            parts.append(to_term(args[0], "str"))
        parts.append(to_term(x, "str"))
    if not parts:
        return [(s, "")]
    return [(s, Sym(z3.Concat(*parts) if len(parts) > 1 else parts[0], "str"))]


def _map_spec(I_, s, args, kwargs, node):
    items = I_.iter_concrete(s, args[1], node)
    if callable(args[0]) and all(isinstance(x, (str, int)) for x in items):
        return [(s, tuple(args[0](x) for x in items))]
    raise Unsupported("map() over symbolic items", node)


def _cfg_join(I):
    I.specs["str.join"] = _join_spec
    I.specs[I.spec_key(map)] = _map_spec


def _cfg_visitors(I):
    """dependency specs needed by some visitors (visit_Const tests math.isfinite on the constant)"""
    import math
    from pyvc.values import fresh
    I.specs[("fn", id(math.isfinite))] = lambda I_, s, args, kwargs, node: [(s, fresh("isfinite", "bool"))]


def run_enter_frame(tracking, n, stack):
    from pyvc.engine import Interp
    I = Interp()
    emit.install(I)
    del I.specs["CodeGenerator.enter_frame"]
    I.specs["str.join"] = _join_spec
    st = State()
    und = st.alloc(HSet(dom=z3.Const("undeclared0", STRSET), size=z3.Int("n_undeclared0"), kk="str"), initial=True)
    glob = st.alloc(HDict(dom=GLOBALS_DOM, val=z3.Const("environment.globals.val", z3.ArraySort(z3.StringSort(), KIND_SORT["obj"])),
                          size=z3.Int("n_globals"), kk="str", vk="obj"), initial=True)
    n_ext = sym("self.extends_so_far", "int")
    st.assume(n_ext.t >= 0)
    # the generator's own state is arbitrary: whatever was compiled before (a known extends, blocks, ...), every `resolve`
    # load of the frame that is emitted must be recorded (frame flags toplevel / rootlevel / require_output_check /
    # loop_frame / block_frame / soft_frame are symbolic already)
    g = emit.Gen(st, generator_cls=M.TrackingCodeGenerator if tracking else None, env_fields={"globals": glob},
                 gen_fields={"undeclared_identifiers": und, "_context_reference_stack": st.alloc(HList(items=list(stack)), initial=True),
                             "has_known_extends": sym("self.has_known_extends", "bool"), "extends_so_far": n_ext,
                             "created_block_context": sym("self.created_block_context", "bool")})
    loads = {f"l_0_t{i}": (sym(f"action{i}", "str"), sym(f"param{i}", "str")) for i in range(n)}
    st.get(g.symbols).fields["loads"] = st.alloc(HDict(items=loads), initial=True)
    # the rest of the symbol table is arbitrary: a name may be stored in the frame AND resolved from the context
    # (read before assignment, assignment on one branch only), so nothing relates `stores` / `refs` to the loads
    st.get(g.symbols).fields["stores"] = st.alloc(HSet(dom=z3.Const("symbols.stores.dom", STRSET), size=z3.Int("n_symbols_stores"), kk="str"), initial=True)
    st.get(g.symbols).fields["refs"] = st.alloc(HDict(dom=z3.Const("symbols.refs.dom", STRSET), val=z3.Const("symbols.refs.val", z3.ArraySort(z3.StringSort(), z3.StringSort())),
                                                      size=z3.Int("n_symbols_refs"), kk="str", vk="str"), initial=True)
    st.get(g.symbols).fields["parent"] = None
    st.get(g.symbols).fields["level"] = 0
    if tracking:
        base = I.closure_of_function(extract.resolve("jinja2.compiler:CodeGenerator.enter_frame"))

        class SuperProxy:
            """super() inside TrackingCodeGenerator: attribute lookup continues in CodeGenerator"""
            def __init__(self, ref):
                self.ref = ref

            def __getattr__(self, name):
                fn = inspect.getattr_static(C.CodeGenerator, name)
                b = I.closure_of_function(fn)
                return Closure(b.node, b.module, [], b.qualname, b.defaults, b.kwdefaults, self_val=self.ref)

        I.specs[I.spec_key(super)] = lambda I_, s, args, kwargs, node: [(s, SuperProxy(g.gen))]
    q = "jinja2.meta:TrackingCodeGenerator.enter_frame" if tracking else "jinja2.compiler:CodeGenerator.enter_frame"
    clo = I.closure_of_function(extract.resolve(q))
    res = I.call_closure(st, clo, [g.gen, g.frame], {})
    out = []
    for s, v in res:
        sc = emit.Schema(list(s.ghost.get("out", [])), list(s.pc), [], "raise" if isinstance(v, Raised) else "return", s)
        sc.value = v.exc if isinstance(v, Raised) else v
        sc.und_dom = s.get(und).dom
        out.append(sc)
    return out


LOOKUP_ATTRS = {"resolve", "resolve_or_missing"}


def lookups_in(tree, ph):
    """context lookups by name in a parsed emission: list of (node, z3 term of the looked-up name or None)"""
    out = []
    for n in ast.walk(tree):
        if isinstance(n, ast.Call):
            f = n.func
            is_lookup = (isinstance(f, ast.Name) and f.id == "resolve") or (isinstance(f, ast.Attribute) and f.attr in LOOKUP_ATTRS) or \
                        (isinstance(f, ast.Attribute) and f.attr == "get" and isinstance(f.value, ast.Name) and f.value.id == "context")
            if is_lookup:
                term = None
                if len(n.args) == 1 and isinstance(n.args[0], ast.Constant) and isinstance(n.args[0].value, str):
                    p = ph.get(f"'{n.args[0].value}'")
                    if p and p[0] == "repr":
                        term = p[1]
                out.append((n, term))
        if isinstance(n, ast.Subscript) and isinstance(n.ctx, ast.Load):
            v = n.value
            if (isinstance(v, ast.Name) and v.id == "context") or (isinstance(v, ast.Attribute) and v.attr in ("vars", "parent") and isinstance(v.value, ast.Name) and v.value.id == "context"):
                out.append((n, None))
    return out


def resolve_covered(task, tier, seed):
    rs = []
    n = 2
    for stack in (("context",), ("context", "t_9")):
        base = run_enter_frame(False, n, stack)
        track = run_enter_frame(True, n, stack)
        tag = "root" if len(stack) == 1 else "derived"
        n_pairs = 0
        n_resolve = 0
        # the tracking generator must not fail where the code generator succeeds
        for i, a in enumerate(base):
            if a.outcome == "raise":
                continue
            t0 = time.time()
            fails = []
            wit = None
            for txt, ph in a.texts():
                tree = emit.parse_stmts(txt)
                for node, term in lookups_in(tree, ph):
                    n_resolve += 1
                    if term is None:
                        fails.append(f"context lookup whose name is not a quoted load parameter: {ast.unparse(node)}")
                        continue
                    covered_somewhere = False
                    for j, b in enumerate(track):
                        pcs = list(a.pc) + list(b.pc)
                        if check_sat(pcs, 2000, seed, use_cvc5=False).status == "unsat":
                            continue
                        n_pairs += 1
                        if b.outcome == "raise":
                            fails.append(f"tracking generator raises {b.value!r} where the code generator emits {ast.unparse(node)}")
                            continue
                        goal = z3.Or(z3.Select(b.und_dom, term), z3.Select(GLOBALS_DOM, term))
                        r = check_sat(pcs + [z3.Not(goal)], 4000, seed)
                        if r.status == "sat":
                            m = r.model
                            wit = {"action": str(m.eval(z3.String("action0"), True)), "model": str(m)[:300], "stack": list(stack)}
                            fails.append(f"`{ast.unparse(node)}` is emitted but the looked-up name is neither added to undeclared_identifiers nor an "
                                         f"environment global (code generator path {[str(c)[:40] for c in a.pc]}, tracking path {[str(c)[:40] for c in b.pc]})")
                        elif r.status != "unsat":
                            fails.append("undecided")
                        else:
                            covered_somewhere = True
                    if not covered_somewhere and not fails:
                        fails.append("no compatible tracking path")
            rs.append(Res(f"C32.resolve.covered.{tag}#p{i}", "refuted" if fails else "discharged", "pyvc+z3", time.time() - t0,
                          "; ".join(fails[:2]), "vc", witness=(wit or {"stack": list(stack)}) if fails else None))
        if n_resolve == 0:
            rs.append(Res(f"C32.resolve.covered.{tag}.nonvacuous", "refuted", "pyvc", 0,
                          "the code generator's enter_frame emits no context lookup at all on any path (vacuous)", "vc", witness={"stack": list(stack)}))
    # the looked-up name is the reported name: `resolve(<param>)` quotes param itself (checked above through the placeholder map)
    return rs


# ------------------------------------------------------------------------------------------ only_site

def no_lookup_pred(sc, tree, ph, txt):
    if sc.outcome == "raise" or tree is None or not isinstance(tree, ast.AST):
        return []
    return [f"context lookup by name emitted outside enter_frame: {ast.unparse(n)[:100]}" for n, _ in lookups_in(tree, ph)]


def template_no_lookup_pred(sc, tree, ph, txt):
    if sc.outcome == "raise":
        return []
    fails = []
    for n, _ in lookups_in(tree, ph):
        fails.append(f"context lookup by name emitted by visit_Template: {ast.unparse(n)[:100]}")
    # the alias definition is the only mention of resolve_or_missing
    for n in ast.walk(tree):
        if isinstance(n, ast.Attribute) and n.attr in LOOKUP_ATTRS:
            par_ok = False
            for a in ast.walk(tree):
                if isinstance(a, ast.Assign) and a.value is n and len(a.targets) == 1 and isinstance(a.targets[0], ast.Name) and a.targets[0].id == "resolve":
                    par_ok = True
            if not par_ok:
                fails.append(f"{ast.unparse(n)} used other than as the alias `resolve = context.resolve_or_missing`")
    return fails


def _string_literals(fn_node):
    for n in ast.walk(fn_node):
        if isinstance(n, ast.Constant) and isinstance(n.value, str):
            yield n


def _method_nodes(cls):
    out = {}
    for name, raw in cls.__dict__.items():
        f = raw.__func__ if isinstance(raw, (staticmethod, classmethod)) else raw
        f = inspect.unwrap(f) if callable(f) else f
        if inspect.isfunction(f):
            try:
                node, _ = extract.function_ast(f)
            except LookupError:
                continue
            out[name] = node
    return out


def _doc_nodes(fn_node):
    ds = set()
    for n in ast.walk(fn_node):
        if isinstance(n, (ast.FunctionDef, ast.AsyncFunctionDef)) and n.body and isinstance(n.body[0], ast.Expr) and isinstance(n.body[0].value, ast.Constant):
            ds.add(id(n.body[0].value))
    return ds


def literal_scan(task, tier, seed):
    """every string literal of the CodeGenerator class that can reach the output stream"""
    rs = []
    meths = _method_nodes(C.CodeGenerator)
    allowed = {"enter_frame", "get_resolve_func", "write_commons"}
    fails = []
    pat = re.compile(r"\bresolve\b|resolve_or_missing|context\[|context\.get\(|context\.vars\[[^\]]*\](?!\s*=)|context\.parent")
    for name, node in meths.items():
        docs = _doc_nodes(node)
        for lit in _string_literals(node):
            if id(lit) in docs:
                continue
            if pat.search(lit.value) and name not in allowed:
                fails.append(f"CodeGenerator.{name} line {lit.lineno} contains the literal {lit.value[:60]!r}: a context lookup outside enter_frame")
    # and the three allowed sites are what they are expected to be
    gr = meths.get("get_resolve_func")
    if gr is None:
        fails.append("get_resolve_func missing")
    wc = meths.get("write_commons")
    if wc is not None and not any(l.value == "resolve = context.resolve_or_missing" for l in _string_literals(wc)):
        fails.append("write_commons does not define `resolve = context.resolve_or_missing`")
    # callers of get_resolve_func: only enter_frame
    for name, node in meths.items():
        for n in ast.walk(node):
            if isinstance(n, ast.Attribute) and n.attr == "get_resolve_func" and name != "enter_frame":
                fails.append(f"CodeGenerator.{name} uses get_resolve_func")
    rs.append(Res("C32.resolve.only_site.literals", "refuted" if fails else "discharged", "ast-scan", 0, "; ".join(fails[:3]), "table",
                  witness={"failures": fails[:5]} if fails else None))
    from contracts.emit_template import soften
    return soften(rs, native_undeclared)


# ------------------------------------------------------------------------------------------ tracking class

def tracking_tables(task, tier, seed):
    rs = []

    def row(name, fails):
        rs.append(Res(f"C32.tracking.{name}", "refuted" if fails else "discharged", "table", 0, "; ".join(fails[:3]), "table",
                      witness={"failures": fails[:5]} if fails else None))

    own = {k for k, v in M.TrackingCodeGenerator.__dict__.items() if inspect.isfunction(v) or isinstance(v, (property, staticmethod, classmethod))}
    fails = []
    if own != {"__init__", "write", "enter_frame"}:
        fails.append(f"TrackingCodeGenerator overrides {sorted(own)}: a visitor overridden here would walk other frames than the compiler")
    if M.TrackingCodeGenerator.__bases__ != (C.CodeGenerator,):
        fails.append(f"bases {M.TrackingCodeGenerator.__bases__}")
    if M.TrackingCodeGenerator.visit is not C.CodeGenerator.visit:
        fails.append("visit dispatch differs from the code generator's")
    row("overrides", fails)

    # write: no effect at all
    node, _ = extract.function_ast(extract.resolve("jinja2.meta:TrackingCodeGenerator.write"))
    body = [s for s in node.body if not (isinstance(s, ast.Expr) and isinstance(s.value, ast.Constant))]
    row("write.noop", [] if all(isinstance(s, ast.Pass) for s in body) else [f"TrackingCodeGenerator.write has a body: {ast.unparse(body[0])[:80]}"])

    # __init__: super().__init__(environment, <name>, <filename>) then the empty set
    node, _ = extract.function_ast(extract.resolve("jinja2.meta:TrackingCodeGenerator.__init__"))
    fails = []
    stmts = [s for s in node.body if not (isinstance(s, ast.Expr) and isinstance(s.value, ast.Constant))]
    ok_super = (len(stmts) >= 1 and isinstance(stmts[0], ast.Expr) and isinstance(stmts[0].value, ast.Call)
                and ast.unparse(stmts[0].value.func) == "super().__init__" and stmts[0].value.args
                and isinstance(stmts[0].value.args[0], ast.Name) and stmts[0].value.args[0].id == node.args.args[1].arg
                and not any(k.arg in ("defer_init", "optimized", "stream") for k in stmts[0].value.keywords) and len(stmts[0].value.args) <= 3)
    if not ok_super:
        fails.append("TrackingCodeGenerator.__init__ does not start with super().__init__(environment, name, filename)")
    rest = stmts[1:]
    ok_set = (len(rest) == 1 and isinstance(rest[0], (ast.Assign, ast.AnnAssign)) and ast.unparse(rest[0].target if isinstance(rest[0], ast.AnnAssign) else rest[0].targets[0]) == "self.undeclared_identifiers"
              and ast.unparse(rest[0].value) == "set()")
    if not ok_set:
        fails.append("TrackingCodeGenerator.__init__ does more than `self.undeclared_identifiers = set()`")
    # the same on a live instance
    from jinja2 import Environment
    env = Environment()
    t = M.TrackingCodeGenerator(env)
    ref = C.CodeGenerator(env, "<introspection>", "<introspection>")
    if t.undeclared_identifiers != set() or t.environment is not env:
        fails.append("live TrackingCodeGenerator(env) is not initialised with the environment and the empty set")
    def norm(v):
        return re.sub(r"0x[0-9a-f]+", "0x", repr(v))

    diff = {k for k in set(vars(ref)) | set(vars(t)) if k not in ("undeclared_identifiers", "stream") and norm(vars(ref).get(k, "<absent>")) != norm(vars(t).get(k, "<absent>"))}
    if diff:
        fails.append(f"TrackingCodeGenerator(env) starts in another state than CodeGenerator(env, ...): fields {sorted(diff)}")
    row("init", fails)
    from contracts.emit_template import soften
    return soften(rs, native_undeclared)


def _set_algebra_specs(I):
    """set algebra on symbolic sets (dependency spec of set - / & / | / ^ and the corresponding methods): the result is a
    NEW set whose membership is defined pointwise, so that a contract can compare it with the original extensionally"""
    import ast as _ast

    def member(st, v):
        """k -> Bool for a symbolic HSet ref, or a host set of strings"""
        if isinstance(v, Ref) and isinstance(st.heap.get(v.id), HSet):
            h = st.get(v)
            if h.items is None:
                return lambda k: z3.Select(h.dom, k)
            items = list(h.items)
            return lambda k: z3.Or(*[k == (z3.StringVal(x) if isinstance(x, str) else x.t) for x in items]) if items else z3.BoolVal(False)
        if isinstance(v, (set, frozenset, tuple, list)) and all(isinstance(x, str) for x in v):
            items = sorted(v)
            return lambda k: z3.Or(*[k == z3.StringVal(x) for x in items]) if items else z3.BoolVal(False)
        return None

    def combine(op):
        def h(I_, st, args, kwargs, node):
            a, b = args[0], args[1]
            ma, mb = member(st, a), member(st, b)
            if ma is None or mb is None:
                return None
            k = z3.Const(fresh_name("k"), z3.StringSort())
            body = {"sub": z3.And(ma(k), z3.Not(mb(k))), "and": z3.And(ma(k), mb(k)), "or": z3.Or(ma(k), mb(k)), "xor": z3.Xor(ma(k), mb(k))}[op]
            r = st.alloc(HSet(dom=z3.Lambda([k], body), size=z3.Int(fresh_name("n_set")), kk="str"))
            return [(st, r)]
        return h

    for node_op, name in ((_ast.Sub, "sub"), (_ast.BitAnd, "and"), (_ast.BitOr, "or"), (_ast.BitXor, "xor")):
        I.specs[("binop", node_op)] = combine(name)
    for meth, name in (("difference", "sub"), ("intersection", "and"), ("union", "or"), ("symmetric_difference", "xor")):
        I.specs[f"set.{meth}"] = combine(name)

    def inplace(op):
        def h(I_, st, args, kwargs, node):
            rs = combine(op)(I_, st, args, kwargs, node)
            if rs is None:
                return None
            s2, r = rs[0]
            hh, new = s2.get(args[0]), s2.get(r)
            hh.items, hh.dom, hh.size, hh.kk = None, new.dom, new.size, "str"
            return [(s2, None)]
        return h

    for meth, name in (("difference_update", "sub"), ("intersection_update", "and"), ("update", "or"), ("symmetric_difference_update", "xor")):
        I.specs[f"set.{meth}"] = inplace(name)

    for ctor in (set, frozenset):
        base = I.specs.get(("fn", id(ctor)))

        def copy_ctor(I_, st, args, kwargs, node, base=base):
            if args and isinstance(args[0], Ref) and isinstance(st.heap.get(args[0].id), HSet) and st.get(args[0]).items is None:
                h = st.get(args[0])
                return [(st, st.alloc(HSet(dom=h.dom, size=h.size, kk=h.kk)))]
            if base is not None:
                return base(I_, st, args, kwargs, node)
            return None

        I.specs[("fn", id(ctor))] = copy_ctor


class FindUndeclared(VC):
    """find_undeclared_variables(ast) runs one TrackingCodeGenerator(ast.environment) over ast and returns exactly the set
    that generator collected: nothing removed, nothing filtered (result == codegen.undeclared_identifiers, extensionally)"""
    prop = "C32"
    target = "jinja2.meta:find_undeclared_variables"

    def __init__(self):
        super().__init__("C32", "C32.tracking.find_undeclared_variables")

    def configure(self, I):
        owner = self
        _set_algebra_specs(I)

        def ctor(I_, st, args, kwargs, node):
            owner.und = st.alloc(HSet(dom=z3.Const("undeclared.before_visit", STRSET), size=z3.Int("n_undeclared_before"), kk="str"))
            r = st.alloc(HObj(M.TrackingCodeGenerator, fields={"undeclared_identifiers": owner.und, "environment": args[0] if args else None}, path="codegen"))
            st.trace.append(A.Event("call", "TrackingCodeGenerator", args, kwargs, r))
            owner.codegen = r
            return [(st, r)]

        I.specs[I.spec_key(M.TrackingCodeGenerator)] = ctor
        visit = A.abstract_fn("codegen.visit", returns=None, raises=[("any", Exception)])

        def visit_spec(I_, st, args, kwargs, node):
            # the visit fills the set: afterwards it holds an arbitrary collection of names
            outs = visit(I_, st, args, kwargs, node)
            for s, v in outs:
                if not isinstance(v, Raised):
                    h = s.get(owner.und)
                    h.items, h.dom, h.size = None, owner.collected, z3.Int("n_undeclared_collected")
            return outs

        self.collected = z3.Const("undeclared.collected", STRSET)
        for k in ("TrackingCodeGenerator.visit", "NodeVisitor.visit", "CodeGenerator.visit"):
            I.specs[k] = visit_spec

    def setup(self, I, st):
        self.env = sym("ast.environment", "obj")
        self.ast = A.obj(st, N.Template, "ast", fields={"environment": self.env})
        return [self.ast], {}

    def p_returns(self, pre, out):
        ctor = A.calls(out, "TrackingCodeGenerator")
        visits = A.calls(out, "codegen.visit")
        if len(ctor) != 1 or len(ctor[0].args) != 1 or ctor[0].args[0] is not self.env:
            return False
        if len(visits) != 1 or visits[0].args[0] != self.codegen or visits[0].args[1] != self.ast:
            return False
        if out.raised:
            return out.value.tag.startswith("codegen.visit")
        v = out.value
        if not (isinstance(v, Ref) and isinstance(out.st.heap.get(v.id), HSet)):
            return False
        h = out.st.get(v)
        if h.items is not None:
            return False
        k = z3.Const("some_name", z3.StringSort())
        # every collected name is in the result and nothing else is
        return z3.ForAll([k], z3.Select(h.dom, k) == z3.Select(self.collected, k))

    posts = [("runs_tracking_generator_once_and_returns_exactly_its_set", p_returns)]

    def replay(self, w):
        return native_undeclared(w)

    def concretize(self, model, pre, out):
        return {"function": "find_undeclared_variables", "model": str(model)[:300]}


class _RecMap:
    """dict stand-in that records its item stores (key, value)"""


class SymbolsLoad(VC):
    """Symbols.load(name): when the name has no reference yet, a (VAR_LOAD_RESOLVE, name) entry is registered - the
    runtime lookup uses, and the introspection reports, exactly the template's own name"""
    prop = "C32"
    target = "jinja2.idtracking:Symbols.load"

    def __init__(self):
        super().__init__("C32", "C32.tracking.Symbols.load")

    def configure(self, I):
        I.inline.add("jinja2.idtracking:Symbols._define_ref")
        owner = self

        def find_ref(I_, st, args, kwargs, node):
            s2 = st.fork()
            st.note("find_ref -> None")
            s2.note("find_ref -> ident")
            return [(st, None), (s2, "l_0_existing")]

        I.specs["Symbols.find_ref"] = find_ref

        def rec_set(I_, st, args, kwargs, node):
            h = st.get(args[0])
            h.fields["writes"] = tuple(h.fields["writes"]) + ((args[1], args[2]),)
            return [(st, None)]

        I.specs["_RecMap.__setitem__"] = rec_set

        # _define_ref spells a name that changes under NFKC normalisation by the hex digits of its encoding: library functions
        import unicodedata
        from pyvc.values import fresh, BoundMethod
        I.specs[("fn", id(unicodedata.normalize))] = lambda I_, st, args, kwargs, node: [(st, fresh("nfkc", "str"))]
        I.specs["str.encode"] = lambda I_, st, args, kwargs, node: [(st, fresh("encoded", "obj"))]
        I.specs["getattr_obj"] = lambda I_, st, args, kwargs, node: [(st, BoundMethod(args[0], args[1]))] if args[1] == "hex" else None
        I.specs["method_obj"] = lambda I_, st, args, kwargs, node: [(st, fresh("hex", "str"))] if args[1] == "hex" else None

    def setup(self, I, st):
        self.vname = sym("name", "str")
        self.refs = A.obj(st, _RecMap, "refs", fields={"writes": ()})
        self.loads = A.obj(st, _RecMap, "loads", fields={"writes": ()})
        self.s = A.obj(st, IDT.Symbols, "symbols", fields={"level": 0, "parent": None, "refs": self.refs, "loads": self.loads, "stores": st.alloc(HSet(items=[]), initial=True)})
        return [self.s, self.vname], {}

    def p_entry(self, pre, out):
        if out.raised:
            return False
        loads = out.st.get(self.loads).fields["writes"]
        refs = out.st.get(self.refs).fields["writes"]
        if "find_ref -> ident" in out.st.notes:
            return not loads and not refs
        if len(loads) != 1 or len(refs) != 1:
            return False
        (ident, load), = loads
        (rname, rident), = refs
        ok = isinstance(load, tuple) and len(load) == 2 and load[0] == "resolve" and load[0] == IDT.VAR_LOAD_RESOLVE and load[1] is self.vname
        same_ident = rident is ident or (isinstance(rident, Sym) and isinstance(ident, Sym) and rident.t.eq(ident.t))
        return bool(ok and rname is self.vname and same_ident)

    posts = [("registers_resolve_of_the_name_itself", p_entry)]

    def replay(self, w):
        return native_undeclared(w)

    def concretize(self, model, pre, out):
        return {"function": "Symbols.load"}


# ------------------------------------------------------------------------------------------ refs.sites

LOADERS = {"environment.get_template", "environment.select_template", "environment.get_or_select_template"}
REF_VISITORS = {f"visit_{c.__name__}" for c in M._ref_types}
EXPECTED_REF_TYPES = {"Extends", "Include", "Import", "FromImport"}


def loader_calls(tree):
    return [n for n in ast.walk(tree) if isinstance(n, ast.Call) and (emit.call_name(n) in LOADERS or
            (isinstance(n.func, ast.Attribute) and n.func.attr in ("get_template", "select_template", "get_or_select_template", "_load_template", "join_path")))]


def sites_pred(visitor):
    is_ref = visitor in REF_VISITORS

    def pred(sc, tree, ph, txt):
        if sc.outcome == "raise" or tree is None or not isinstance(tree, ast.AST):
            return []
        calls = loader_calls(tree)
        fails = []
        if not is_ref:
            if calls:
                fails.append(f"{visitor} emits a template load `{ast.unparse(calls[0])[:80]}` but {visitor[6:]} is not in meta._ref_types")
            return fails
        if len(calls) != 1:
            return [f"{visitor} emits {len(calls)} template loads (expected exactly one)"]
        c = calls[0]
        if emit.call_name(c) not in LOADERS:
            fails.append(f"template load through {ast.unparse(c.func)}")
        h = hole_of(c.args[0], ph) if c.args else None
        if h is None or h.path != "node.template":
            fails.append("the loaded template is not the visited `node.template` expression that find_referenced_templates inspects")
        return fails

    return pred


def sites_tables(task, tier, seed):
    rs = []
    fails = []
    got = {c.__name__ for c in M._ref_types}
    if got != EXPECTED_REF_TYPES:
        fails.append(f"meta._ref_types is {sorted(got)}")
    # source literals: which visit_* methods can (transitively through self.<helper>() calls) write a template load
    meths = _method_nodes(C.CodeGenerator)
    direct = set()
    pat = re.compile(r"get_template|select_template|get_or_select_template|_load_template")
    for name, node in meths.items():
        docs = _doc_nodes(node)
        if any(pat.search(l.value) for l in _string_literals(node) if id(l) not in docs):
            direct.add(name)
    calls = {name: {n.func.attr for n in ast.walk(node) if isinstance(n, ast.Call) and isinstance(n.func, ast.Attribute)
                    and isinstance(n.func.value, ast.Name) and n.func.value.id == "self" and n.func.attr in meths} for name, node in meths.items()}
    reach = set(direct)
    changed = True
    while changed:
        changed = False
        for name, cs in calls.items():
            if name not in reach and cs & reach and not name.startswith("visit") is False:
                pass
        for name, cs in calls.items():
            if name not in reach and (cs & {r for r in reach if not r.startswith("visit_") and r not in ("visit", "generic_visit")}):
                reach.add(name)
                changed = True
    visitors = {n for n in reach if n.startswith("visit_")}
    if visitors != REF_VISITORS:
        fails.append(f"visitors able to emit a template load: {sorted(visitors)}; meta._ref_types covers {sorted(REF_VISITORS)}")
    # every ref node class keeps the template expression in the field `template`
    for c in M._ref_types:
        if "template" not in c.fields:
            fails.append(f"nodes.{c.__name__} has no field `template`")
    # no other node class has a visitor-less route: every node class with a `template` field is a ref type
    for name in dir(N):
        c = getattr(N, name)
        if inspect.isclass(c) and issubclass(c, N.Node) and "template" in getattr(c, "fields", ()) and c not in M._ref_types:
            fails.append(f"nodes.{name} has a `template` field but is not in meta._ref_types")
    rs.append(Res("C32.refs.sites.tables", "refuted" if fails else "discharged", "table", 0, "; ".join(fails[:3]), "table",
                  witness={"failures": fails[:5]} if fails else None))
    from contracts.emit_template import soften
    return soften(rs, native_refs)


# ------------------------------------------------------------------------------------------ refs.yield

OTHER_EXPRS = sorted((c for c in vars(N).values() if inspect.isclass(c) and issubclass(c, N.Expr) and not c.abstract
                      and c not in (N.Const, N.Tuple, N.List)), key=lambda c: c.__name__)


def _leaf(kind, name):
    if kind == "str":
        return sym(name, "str")
    if kind == "int":
        return sym(name, "int")
    if kind == "none":
        return None
    if kind == "float":
        return 1.5
    raise ValueError(kind)


def shapes():
    """(group, description, spec, whole) - whole: 'single' | 'list' | 'unknown'"""
    out = []
    out.append(("Const_single", "Const(str)", ("const", ["str"]), "single"))
    for k in ("int", "none", "float"):
        out.append(("Const_single", f"Const({k})", ("const", [k]), "single"))
    for ctor in ("tuple", "list"):
        for n in range(0, 3):
            for kinds in itertools.product(("str", "int"), repeat=n):
                out.append(("Const_seq", f"Const({ctor} of {list(kinds)})", ("constseq", ctor, list(kinds)), "list"))
    for cls in ("List", "Tuple"):
        for n in range(0, 4):
            for kinds in itertools.product(("str", "int", "dyn"), repeat=n):
                out.append((cls, f"{cls}{list(kinds)}", ("nodeseq", cls, list(kinds)), "list"))
        out.append((cls, f"{cls}['none', 'str']", ("nodeseq", cls, ["none", "str"]), "list"))
    for c in OTHER_EXPRS:
        out.append(("other", f"{c.__name__}(...)", ("other", c.__name__, None), "unknown"))
        # the same class with every combination of constant-string / constant-non-string / dynamic children: a non-Const
        # template expression is unknown whatever its operands are ("a" if x else y, "a" ~ x, ...)
        singles, lists = expr_fields(c)
        if not singles and not lists:
            continue
        combos = list(itertools.product(("str", "dyn"), repeat=len(singles))) if len(singles) <= 3 else [tuple("str" for _ in singles), tuple("dyn" for _ in singles)]
        combos.append(tuple("int" for _ in singles))
        for combo in combos:
            for lk in (["str", "dyn"], ["str", "str"]) if lists else ([],):
                kinds = dict(zip(singles, combo))
                for f in lists:
                    kinds[f] = list(lk)
                out.append(("other_children", f"{c.__name__}({', '.join(f'{k}={v}' for k, v in kinds.items())})", ("other", c.__name__, kinds), "unknown"))
    return out


def expr_fields(cls):
    """(fields holding one expression, fields holding a list of expressions) of a node class, from its annotations"""
    import typing
    ann = {}
    for k in reversed(cls.__mro__):
        ann.update(getattr(k, "__annotations__", {}))
    singles, lists = [], []
    for f in cls.fields:
        a = ann.get(f)
        if a is None:
            continue
        origin, args = typing.get_origin(a), typing.get_args(a)
        def is_expr(x):
            x = getattr(N, x.__forward_arg__, None) if isinstance(x, typing.ForwardRef) else (getattr(N, x, None) if isinstance(x, str) else x)
            return inspect.isclass(x) and issubclass(x, N.Expr)
        if origin is list and args and is_expr(args[0]):
            lists.append(f)
        elif is_expr(a) or (args and any(is_expr(x) for x in args) and origin is not list and origin is not dict):
            singles.append(f)
    return singles, lists


def _child(st, kind, path):
    if kind == "dyn":
        return emit.make_node(st, N.Name, path)
    return emit.make_node(st, N.Const, path, fields={"value": _leaf(kind, path.replace(".", "_") + "_v")})


def build_template(st, spec):
    kind = spec[0]
    leaves = []
    if kind == "const":
        v = _leaf(spec[1][0], "v0")
        leaves.append((spec[1][0], v))
        return emit.make_node(st, N.Const, "tmpl", fields={"value": v}), leaves
    if kind == "constseq":
        vs = [_leaf(k, f"v{i}") for i, k in enumerate(spec[2])]
        leaves = list(zip(spec[2], vs))
        val = tuple(vs) if spec[1] == "tuple" else st.alloc(HList(items=list(vs)))
        return emit.make_node(st, N.Const, "tmpl", fields={"value": val}), leaves
    if kind == "nodeseq":
        items = []
        for i, k in enumerate(spec[2]):
            if k == "dyn":
                items.append(emit.make_node(st, N.Name, f"item{i}"))
                leaves.append(("dyn", None))
            else:
                v = _leaf(k, f"v{i}")
                items.append(emit.make_node(st, N.Const, f"item{i}", fields={"value": v}))
                leaves.append((k, v))
        return emit.make_node(st, getattr(N, spec[1]), "tmpl", fields={"items": st.alloc(HList(items=items))}), leaves
    if kind == "other":
        fields = {}
        for f, k in (spec[2] or {}).items():
            if isinstance(k, list):
                fields[f] = st.alloc(HList(items=[_child(st, kk, f"tmpl.{f}[{i}]") for i, kk in enumerate(k)]))
            else:
                fields[f] = _child(st, k, f"tmpl.{f}")
        return emit.make_node(st, getattr(N, spec[1]), "tmpl", fields=fields), [("dyn", None)]
    raise ValueError(spec)


def source_of(node_cls, spec):
    """a real template that produces this shape through the parser (None when only extensions / the optimizer can build it)"""
    def lit(k, i):
        return {"str": f'"t{i}"', "int": "1", "none": "none", "float": "1.5", "dyn": "x"}[k]
    kind = spec[0]
    if kind == "const" and spec[1][0] in ("str", "int", "none", "float"):
        e = lit(spec[1][0], 0)
    elif kind == "nodeseq":
        inner = ", ".join(lit(k, i) for i, k in enumerate(spec[2]))
        e = f"[{inner}]" if spec[1] == "List" else (f"({inner},)" if len(spec[2]) == 1 else f"({inner})")
    elif kind == "other":
        kinds = spec[2] or {}
        cls = getattr(N, spec[1])
        def sub(f, default="x"):
            k = kinds.get(f)
            return default if k is None or isinstance(k, list) else lit(k, 0)
        if spec[1] == "CondExpr":
            e = f"({sub('expr1')} if {sub('test', 'c')} else {sub('expr2')})"
        elif issubclass(cls, N.BinExpr) and getattr(cls, "operator", None) in ("+", "-", "*", "/", "//", "%", "**", "and", "or"):
            e = f"({sub('left')} {cls.operator} {sub('right')})"
        elif spec[1] == "Concat":
            e = "(" + " ~ ".join(lit(k, i) for i, k in enumerate(kinds.get("nodes", ["str", "dyn"]))) + ")"
        else:
            e = {"Name": "x", "Getattr": f"{sub('node')}.y", "Call": "f()", "Filter": f"({sub('node')}|lower)", "Getitem": f"{sub('node')}[0]", "Not": f"(not {sub('node')})"}.get(spec[1])
        if e is None:
            return None
    else:
        return None
    return {N.Include: "{%% include %s ignore missing %%}", N.Extends: "{%% extends %s %%}", N.Import: "{%% import %s as m %%}",
            N.FromImport: "{%% from %s import q %%}"}[node_cls] % e


def run_refs(node_cls, spec):
    from pyvc.engine import Interp
    I = Interp()
    I.inline.add("*")
    st = State()
    tmpl, leaves = build_template(st, spec)
    nd = emit.make_node(st, node_cls, "node", fields={"template": tmpl})
    root = emit.make_node(st, N.Template, "ast")
    seen = []

    def find_all(I_, s, args, kwargs, node):
        seen.append(args[1])
        return [(s, (nd,))]

    I.specs["Node.find_all"] = find_all
    clo = I.closure_of_function(extract.resolve("jinja2.meta:find_referenced_templates"))
    res = I.call_closure(st, clo, [root], {})
    return res, leaves, seen


def _same(y, v):
    if isinstance(y, Sym) and isinstance(v, Sym):
        return y.t.eq(v.t)
    return y is v or (not isinstance(y, Sym) and not isinstance(v, Sym) and y == v and type(y) is type(v))


def shape_failures(node_cls, spec, whole):
    res, leaves, seen = run_refs(node_cls, spec)
    fails = []
    if seen != [M._ref_types] and not all(set(s if isinstance(s, tuple) else (s,)) >= set(M._ref_types) for s in seen):
        fails.append(f"[search:not-all-ref-types] the tree is searched for {seen}, not for all of meta._ref_types")
    for s, v in res:
        if isinstance(v, Raised):
            fails.append(f"[raise:{getattr(v.exc.cls, '__name__', 'exception')}] raises {v.exc!r}")
            continue
        ys = s.yields
        has_none = any(y is None for y in ys)
        if whole == "single":
            k, leaf = leaves[0]
            if k == "str":
                if not any(_same(y, leaf) for y in ys):
                    fails.append("[single:str-not-yielded] the constant template name is not yielded")
                if has_none or len(ys) != 1:
                    fails.append("[single:str-imprecise] a hard-coded name must be yielded as is, exactly once, without None")
            elif not has_none:
                fails.append(f"[single:nonstr-no-none] a non-string constant template reference ({k}) yields no None")
        elif whole == "unknown":
            kinds = (spec[2] or {}) if len(spec) > 2 else {}
            if spec[1] == "CondExpr" and kinds.get("expr1") == "str" and kinds.get("expr2") == "str":
                # both branches are hard-coded names: reporting exactly those two is as good as None
                got = {str(y.t) for y in ys if isinstance(y, Sym)}
                if not has_none and not {"tmpl_expr1_v", "tmpl_expr2_v"} <= got:
                    fails.append("[dynamic:no-none] a conditional between two constant names yields neither both names nor None")
            elif not has_none:
                fails.append("[dynamic:no-none] a dynamic template expression yields no None")
        elif node_cls is not N.Include:
            # outside include the sequence as a whole is the template name (get_template): a tuple can be a loader key
            if spec[0] == "constseq" or spec[1] == "Tuple":
                if not has_none:
                    fails.append("[seq:tuple-name-outside-include-no-none] extends/import of a tuple loads the template named by the tuple itself, but no None is yielded")
        else:
            # include of a sequence: select_template may load any element
            for idx, (k, leaf) in enumerate(leaves):
                if k == "str":
                    if not any(_same(y, leaf) for y in ys) and not has_none:
                        fails.append("[seq:str-not-yielded] a string element is neither yielded nor is None yielded")
                elif k == "dyn":
                    if not has_none:
                        fails.append("[seq:dynamic-no-none] a dynamic element yields no None")
                elif not has_none:
                    fails.append("[seq:nonstr-const-no-none] a non-string constant element can be loaded by select_template but no None is yielded")
            if leaves and all(k == "str" for k, _ in leaves):
                if has_none or len(ys) != len(leaves) or not all(_same(y, l) for y, (_, l) in zip(ys, leaves)):
                    fails.append("[seq:str-imprecise] an all-constant-string list must yield exactly its strings in order")
    return sorted(set(fails))


def refs_yield(node_cls):
    def fn(task, tier, seed):
        rs = []
        groups = {}
        for group, desc, spec, whole in shapes():
            groups.setdefault(group, []).append((desc, spec, whole))
        for group, members in groups.items():
            t0 = time.time()
            name = f"C32.refs.yield.{node_cls.__name__}.{group}"
            bad = []
            unsupported = None
            for desc, spec, whole in members:
                try:
                    fails = shape_failures(node_cls, spec, whole)
                except Unsupported as ex:
                    unsupported = f"{desc}: {ex}"
                    continue
                if fails:
                    bad.append((desc, source_of(node_cls, spec), fails))
            if bad:
                tags = sorted({f for _, _, fs in bad for f in fs})
                srcs = [src for _, src, _ in bad if src][:6]
                rs.append(Res(name, "refuted", "pyvc-path", time.time() - t0,
                              f"{len(bad)} of {len(members)} shapes fail, first {bad[0][0]} of {node_cls.__name__} (e.g. {bad[0][1]}): " + "; ".join(tags[:4]),
                              "vc", witness={"node": node_cls.__name__, "shapes": [d for d, _, _ in bad][:8], "sources": srcs}))
            elif unsupported:
                rs.append(Res(name, "unknown", "pyvc", time.time() - t0, f"unsupported: {unsupported}", "vc"))
            else:
                rs.append(Res(name, "discharged", "pyvc-path", time.time() - t0, f"{len(members)} shapes", "vc"))
        return rs
    return fn


TAG = re.compile(r"\[([\w-]+):([\w-]+)\]")


def yield_key(res):
    return ",".join(sorted({f"{a}:{b}" for a, b in TAG.findall(res.detail or "")})) or "?"


def _feasible(sc):
    return check_sat(list(sc.pc), 20000, 0, use_cvc5=False).status != "unsat"


def _with_key(t, k):
    t.finding_key = k
    return t


def _fromimport_fields(st):
    return {"names": st.alloc(HList(items=["n0", ("n1", "a1")]))}


def global_context_lookups(task, tier, seed):
    """environment globals installed by jinja itself (defaults and the built-in extensions) that receive the render context and
    look a name up in it BY LITERAL: using such a global in a template makes the template depend on that context variable, which
    find_undeclared_variables must report (the global's own name is exempt as an environment global, the looked-up name is not)"""
    import jinja2.ext as X
    from jinja2 import Environment
    from jinja2.utils import _PassArg
    env = Environment(extensions=[X.InternationalizationExtension, X.ExprStmtExtension, X.LoopControlExtension, X.DebugExtension])
    fails = []
    checked = 0
    for gname, g in sorted(env.globals.items()):
        f = inspect.unwrap(g) if callable(g) else None
        if not inspect.isfunction(f) or not str(getattr(f, "__module__", "")).startswith("jinja2") or _PassArg.from_obj(g) is not _PassArg.context:
            continue
        try:
            node, _ = extract.function_ast(f)
        except LookupError:
            continue
        ctx = node.args.args[0].arg if node.args.args else (node.args.posonlyargs[0].arg if node.args.posonlyargs else None)
        lits = set()
        for n in ast.walk(node):
            if isinstance(n, ast.Call) and isinstance(n.func, ast.Attribute) and n.func.attr in ("resolve", "resolve_or_missing", "get", "__getitem__") \
                    and isinstance(n.func.value, ast.Name) and n.func.value.id == ctx and n.args and isinstance(n.args[0], ast.Constant) and isinstance(n.args[0].value, str):
                lits.add(n.args[0].value)
            if isinstance(n, ast.Subscript) and isinstance(n.value, ast.Name) and n.value.id == ctx and isinstance(n.slice, ast.Constant) and isinstance(n.slice.value, str):
                lits.add(n.slice.value)
        if not lits:
            continue
        checked += 1
        reported = M.find_undeclared_variables(env.parse("{{ %s('x') }}" % gname))
        missing = sorted(x for x in lits if x not in reported and x not in env.globals)
        if missing:
            fails.append(f"[{gname}:{','.join(missing)}] the environment global {gname!r} ({f.__module__}.{f.__name__}) resolves {missing} from the render context, but "
                         f"find_undeclared_variables('{{{{ {gname}(\'x\') }}}}') reports {sorted(reported)}")
    return [Res("C32.globals.context_lookups_reported", "refuted" if fails else "discharged", "table+native", 0, "; ".join(fails[:3])[:800], "table",
                witness={"failures": fails[:4]} if fails else None)]


def native_global_lookup(w=None):
    from jinja2 import Environment
    from jinja2.runtime import Context
    looked = []

    class RC(Context):
        def resolve_or_missing(self, key):
            looked.append(key)
            return super().resolve_or_missing(key)

    env = Environment(extensions=["jinja2.ext.i18n"])
    env.context_class = RC
    src = '{{ _("hello") }}'
    reported = M.find_undeclared_variables(env.parse(src))
    out = env.from_string(src).render(gettext=lambda s: s.upper())
    bad = sorted(n for n in set(looked) if n not in reported and n not in env.globals)
    return (bool(bad), f"{src} rendered {out!r}: looked up {bad} from the render context, find_undeclared_variables reported {sorted(reported)}" if bad
            else "every context lookup made through an environment global is reported")


def native_standin(which):
    def fn(task, tier, seed):
        t0 = time.time()
        if which == "undeclared":
            task.bound_text = ("33 templates (special names outside their construct, scopes after a root-level extends, plain reads, loops, branches, macros, with, blocks, namespaces, call blocks, filter/set blocks, imports, "
                               "includes, read-before-assign, assignment on one branch only, in blocks / loops / macros) x 4 data assignments rendered with a "
                               "recording Context; oracle: every name looked up at run time is reported by find_undeclared_variables or is an environment global")
            v, d = native_undeclared()
        else:
            task.bound_text = ("24 extends / include / import / from-import forms (constant, list, tuple, dynamic, conditional with constant and dynamic "
                               "branches, concatenation, filters, non-string names) x 2 data assignments rendered with a recording loader; oracle: every "
                               "template loaded at run time is reported by find_referenced_templates, or None is reported")
            v, d = native_refs()
        task.stats = {"seconds": round(time.time() - t0, 2)}
        return [Res(f"C32.native.{which}", "refuted" if v else "bounded-ok", "native", time.time() - t0, d[:700], "bounded", witness={"family": which} if v else None)]
    return fn


# ------------------------------------------------------------------------------------------ tasks

TASKS = (
    [FnTask("C32", "C32.resolve.covered", resolve_covered, "vc", native_undeclared)]
    + all_visitor_tasks("C32", "C32.resolve.only_site", no_lookup_pred, replay_fn=native_undeclared, buffers=(None,), configure=_cfg_visitors)
    + [TemplateEmitTask("C32", "C32.resolve.only_site.visit_Template", template_no_lookup_pred, replay_fn=native_undeclared, min_paths=8, n_blocks=1),
       FnTask("C32", "C32.resolve.only_site.literals", literal_scan, "table", native_undeclared),
       FnTask("C32", "C32.tracking.tables", tracking_tables, "table", native_undeclared),
       FindUndeclared(), SymbolsLoad()]
    + [EmitTask("C32", f"C32.refs.sites.{v}", f"jinja2.compiler:CodeGenerator.{v}", getattr(N, v[6:]), sites_pred(v), mode="stmts",
                replay_fn=native_refs, min_paths=1) for v in ("visit_Extends", "visit_Include", "visit_Import")]
    + [EmitTask("C32", "C32.refs.sites.visit_FromImport", "jinja2.compiler:CodeGenerator.visit_FromImport", N.FromImport, sites_pred("visit_FromImport"),
                mode="stmts", replay_fn=native_refs, min_paths=1, node_fields=_fromimport_fields, configure=_cfg_join)]
    + [t for nm in ("Output", "If", "For", "Assign", "AssignBlock", "With", "FilterBlock", "Block", "ExprStmt", "Scope", "OverlayScope", "Call", "Filter",
                    "Test", "Name", "Getattr", "Getitem", "CondExpr", "Const")
       for t in all_visitor_tasks("C32", "C32.refs.sites.others", sites_pred(f"visit_{nm}"), replay_fn=native_refs, only=[nm], buffers=(None,), configure=_cfg_visitors)]
    + [FnTask("C32", "C32.refs.sites.tables", sites_tables, "table", native_refs)]
    + [_with_key(FnTask("C32", f"C32.refs.yield.{c.__name__}", refs_yield(c), "vc", native_refs), yield_key) for c in (N.Extends, N.Include, N.Import, N.FromImport)]
    + [_with_key(FnTask("C32", "C32.globals.context_lookups", global_context_lookups, "table", native_global_lookup),
                 lambda r: ",".join(sorted(set(re.findall(r"\[(\w+:[\w,]+)\]", r.detail or "")))) or "?")]
    + [FnTask("C32", "C32.native.undeclared", native_standin("undeclared"), "bounded", native_undeclared),
       FnTask("C32", "C32.native.refs", native_standin("refs"), "bounded", native_refs)]
)

for _t in TASKS:
    if isinstance(_t, EmitTask) and _t.path_filter is None:
        _t.path_filter = _feasible

META = {
    "level": "other",
    "explanation": "Proof of mechanism: (1) relational symbolic execution of the real CodeGenerator.enter_frame and TrackingCodeGenerator.enter_frame "
                   "over the same symbol loads: each emitted resolve(<name>) is matched by an entry in undeclared_identifiers unless the name is an "
                   "environment global; enter_frame is the only emission site of a context lookup (all visitor schemas + literal scan); the tracking "
                   "class overrides nothing else. (2) the visitors that emit environment.get_template/select_template/get_or_select_template are exactly "
                   "meta._ref_types and load the visited node.template; the real generator find_referenced_templates is executed on every node shape with "
                   "symbolic leaves and must yield every loadable name or None.",
    "assumptions": ["the name actually loaded is join_path(name, parent): the identity unless an Environment subclass overrides it",
                    "Context.resolve_or_missing is the runtime lookup the emitted `resolve` alias denotes (write_commons)",
                    "find_referenced_templates shapes: literal sequences up to 3 items (the item loop has no carried state)",
                    "names looked up by included / imported templates are those templates' own (their own find_undeclared_variables)"],
    "trusted_base": ["pyvc symbolic interpreter and emission engine", "python ast", "z3 5.1"],
}
