"""C10  All rendering entry points produce the same text.

Ghost: R(ctx) = the sequence of strings the root render function yields for a context
(`self.root_render_func(ctx)` is an abstract callee returning an iterator over a symbolic
sequence R of strings of arbitrary length).  Spec vocabulary (pure functions of a sequence):

    JOIN(a, k)  = "".join(a[0:k])            (dependency spec of `concat`, see join facts below)
    NE(a, k)    = |{ j < k : a[j] != "" }|   (number of non-empty pieces among the first k)

Join facts used (instances of: join([]) = "", join(X + [x]) = join(X) + x; cross-checked natively):
    JOIN(a, 0) = ""        JOIN(a, k+1) = JOIN(a, k) + a[k]
    after  lst.append(x):  JOIN(lst') = JOIN(lst) + x

Obligations
    C10.Template.render       = environment.concat(R(ctx0)),   ctx0 = new_context(dict(*args, **kwargs))
    C10.Template.generate     yields exactly R(ctx0), in order
    C10.Template.stream       = TemplateStream(generate(*args, **kwargs)), unbuffered
    C10.Template.make_module / TemplateModule.__init__ / __str__ / __html__
                              _body_stream = list(R(ctx)),  str/html = concat(_body_stream)
    C10.TemplateStream.__next__ / disable_buffering / enable_buffering
    C10.TemplateStream._buffered_generator   (unbounded: two nested loop invariants)
    C10.TemplateStream.dump   writes the (encoded) items in order, closes only what it opened
Lemma (paper): when R is a function of the context (C29/C30) the five texts are JOIN(R, |R|).
"""
from __future__ import annotations

import functools
import itertools
import os
import tempfile
import time

import z3

from pyvc.contract import VC, Res, FnTask
from pyvc.values import (
    Sym, Ref, HObj, HList, HDict, HIter, SSeq, Obj, Exc, Event, BoundMethod,
    fresh, fresh_name, sym, Unsupported,
)
from pyvc.smt import to_term, host_const
from pyvc.stmts import LoopSpec
from pyvc.interp import Raised, seq
from pyvc import abstract as A
from pyvc import models

import jinja2
import jinja2.environment as E
import jinja2.utils as U

I_ = z3.IntSort()
S_ = z3.StringSort()
ArrS = z3.ArraySort(I_, S_)
ArrI = z3.ArraySort(I_, I_)

JOIN = z3.Function("join", ArrS, I_, S_)
NE = z3.Function("nonempty_count", ArrS, I_, I_)
EMPTY = z3.StringVal("")


def join_step(a, k):
    """definitional instance at k of JOIN and NE"""
    x = z3.Select(a, k)
    return [JOIN(a, k + 1) == z3.Concat(JOIN(a, k), x),
            NE(a, k + 1) == NE(a, k) + z3.If(z3.Length(x) > 0, 1, 0)]


def join_base(a):
    return [JOIN(a, 0) == EMPTY, NE(a, 0) == 0]


# =====================================================================================
# native oracle (used by every replay and by the bounded stand-ins): runs the REAL code
# =====================================================================================

def pieces_from_pattern(pattern):
    """'1' = a non-empty piece (pairwise distinct), '0' = the empty string"""
    return [f"<{i}>" if c == "1" else "" for i, c in enumerate(pattern)]


def chunk_oracle(pieces, size, chunks):
    """The statement: chunks are contiguous segments of the input covering it up to a tail of
    empty strings; every chunk but the last combines exactly `size` non-empty pieces, the last 1..size.
    -> None if it holds, else a description."""
    pos = 0
    n = len(pieces)
    for ci, ch in enumerate(chunks):
        # the segment of chunk ci starts at pos; it must end somewhere with join == ch and the right count
        ok = False
        last = ci == len(chunks) - 1
        for end in range(pos, n + 1):
            seg = pieces[pos:end]
            cnt = sum(1 for p in seg if p)
            if "".join(seg) == ch and ((cnt == size) or (last and 1 <= cnt <= size)):
                # pieces are pairwise distinct when non-empty, so the segment is determined up to
                # trailing empties; take the shortest for full chunks, the longest admissible otherwise
                ok = True
                pos = end
                break
        if not ok:
            return f"chunk #{ci} {ch!r} is not a segment starting at piece {pos} with {'1..' if last else ''}{size} non-empty pieces"
    if any(pieces[pos:]):
        return f"pieces {pieces[pos:]!r} after the last chunk are not covered"
    if "".join(chunks) != "".join(pieces):
        return "concatenation of the chunks differs from the concatenation of the pieces"
    return None


def native_buffered(pieces, size):
    """chunks of the REAL generator; a generator that does not stop after more chunks than input
    pieces (+1) is cut there (the oracle then rejects the result)"""
    s = E.TemplateStream(iter(list(pieces)))
    return list(itertools.islice(s._buffered_generator(size), len(pieces) + 2))


def search_buffered_counterexample(max_len=7, sizes=(2, 3, 4, 5)):
    for n in range(0, max_len + 1):
        for pat in itertools.product("01", repeat=n):
            pattern = "".join(pat)
            pieces = pieces_from_pattern(pattern)
            for size in sizes:
                try:
                    chunks = native_buffered(pieces, size)
                except Exception as ex:  # noqa
                    return {"pattern": pattern, "size": size}
                if chunk_oracle(pieces, size, chunks) is not None:
                    return {"pattern": pattern, "size": size}
    return None


def replay_buffered(w):
    pieces = pieces_from_pattern(w["pattern"])
    size = int(w["size"])
    try:
        chunks = native_buffered(pieces, size)
    except Exception as ex:  # noqa
        return True, f"_buffered_generator({size}) over {pieces!r} raised {ex!r}"
    d = chunk_oracle(pieces, size, chunks)
    return (d is not None, f"_buffered_generator({size}) over {pieces!r} -> {chunks!r}: {d or 'as specified'}")


# =====================================================================================
# C10.buffered : TemplateStream._buffered_generator, unbounded
# =====================================================================================

def local_roles(target):
    """Names of the locals of _buffered_generator by role, read off the real AST (so that renaming a
    local is harmless): buf = the local bound to an empty list display, counter = the local initialised
    to the constant 0, piece = the local bound to a next(...) call.  Every other name assigned in a loop
    is havoced as an opaque value."""
    import ast
    from pyvc import extract
    node, _ = extract.function_ast(extract.resolve(target))
    roles = {"buf": "buf", "counter": "c_size", "piece": "c"}
    found = set()
    for sub in ast.walk(node):
        tgt = val = None
        if isinstance(sub, ast.Assign) and len(sub.targets) == 1 and isinstance(sub.targets[0], ast.Name):
            tgt, val = sub.targets[0].id, sub.value
        elif isinstance(sub, ast.AnnAssign) and isinstance(sub.target, ast.Name) and sub.value is not None:
            tgt, val = sub.target.id, sub.value
        if tgt is None:
            continue
        if isinstance(val, ast.List) and not val.elts and "buf" not in found:
            roles["buf"] = tgt
            found.add("buf")
        elif isinstance(val, ast.Constant) and val.value == 0 and type(val.value) is int and "counter" not in found:
            roles["counter"] = tgt
            found.add("counter")
        elif isinstance(val, ast.Call) and isinstance(val.func, ast.Name) and val.func.id == "next" and "piece" not in found:
            roles["piece"] = tgt
            found.add("piece")
    stores = set()
    for sub in ast.walk(node):
        if isinstance(sub, (ast.While, ast.For)):
            for x in ast.walk(sub):
                if isinstance(x, ast.Name) and isinstance(x.ctx, ast.Store):
                    stores.add(x.id)
    havoc = {}
    for nm in sorted(stores):
        havoc[nm] = "str" if nm == roles["piece"] else ("int" if nm == roles["counter"] else "obj")
    return roles, havoc


class YGhost:
    """Ghost record of the chunks yielded so far: chunk i is the input segment [ys[i], ye[i]) with
    value yv[i]; `text` the concatenation of all yields; `pos` the input index where the next chunk starts."""

    __slots__ = ("ny", "ys", "ye", "yv", "text", "pos")

    def __init__(self, ny, ys, ye, yv, text, pos):
        self.ny, self.ys, self.ye, self.yv, self.text, self.pos = ny, ys, ye, yv, text, pos

    @staticmethod
    def initial():
        return YGhost(z3.IntVal(0), z3.K(I_, z3.IntVal(0)), z3.K(I_, z3.IntVal(0)), z3.K(I_, EMPTY), EMPTY, z3.IntVal(0))

    @staticmethod
    def havoc():
        f = fresh_name
        return YGhost(z3.Int(f("ny")), z3.Const(f("ys"), ArrI), z3.Const(f("ye"), ArrI), z3.Const(f("yv"), ArrS),
                      z3.Const(f("ytext"), S_), z3.Int(f("ypos")))


class BufferedGenerator(VC):
    prop = "C10"
    target = "jinja2.environment:TemplateStream._buffered_generator"
    timeout_quick = 30000
    expect_paths_min = 1

    def __init__(self):
        super().__init__("C10", "C10.TemplateStream._buffered_generator")

    # ---- state access ---------------------------------------------------------------
    def cur(self, st):
        return to_term(st.get(self.gen).cursor, "int")

    def J(self, k):
        return JOIN(self.R.arr, k)

    def N(self, k):
        return NE(self.R.arr, k)

    def cnt(self, Y, i):
        return self.N(z3.Select(Y.ye, i)) - self.N(z3.Select(Y.ys, i))

    def chunk_facts(self, Y, cur, final):
        """facts about the chunks recorded in Y (quantified over the chunk index)"""
        i = z3.Int(fresh_name("ci"))
        n = self.R.n
        ys, ye, yv = (lambda t: z3.Select(Y.ys, t)), (lambda t: z3.Select(Y.ye, t)), (lambda t: z3.Select(Y.yv, t))
        rng = z3.And(0 <= i, i < Y.ny)
        size = self.size.t
        segments = z3.ForAll([i], z3.Implies(rng, z3.And(
            ys(i) == z3.If(i == 0, z3.IntVal(0), ye(i - 1)), ys(i) <= ye(i), 0 <= ys(i), ye(i) <= n)))
        values = z3.ForAll([i], z3.Implies(rng, z3.Concat(self.J(ys(i)), yv(i)) == self.J(ye(i))))
        if final:
            counts = z3.And(
                z3.ForAll([i], z3.Implies(z3.And(0 <= i, i < Y.ny - 1), self.cnt(Y, i) == size)),
                z3.Implies(Y.ny > 0, z3.And(1 <= self.cnt(Y, Y.ny - 1), self.cnt(Y, Y.ny - 1) <= size)))
        else:
            counts = z3.ForAll([i], z3.Implies(rng, z3.Or(
                self.cnt(Y, i) == size,
                z3.And(i == Y.ny - 1, cur == n, 1 <= self.cnt(Y, i), self.cnt(Y, i) <= size))))
        return segments, values, counts

    # ---- engine configuration ---------------------------------------------------------
    def configure(self, I):
        c = self
        roles, havoc_names = local_roles(self.target)
        BUF, CSIZE = roles["buf"], roles["counter"]
        c.BUF = BUF

        def ev_yield(e, st, fr):
            def f(s, v):
                Y = s.ghost["Y"]
                cur = c.cur(s)
                vt = to_term(v, "str")
                s.ghost["Y"] = YGhost(Y.ny + 1, z3.Store(Y.ys, Y.ny, Y.pos), z3.Store(Y.ye, Y.ny, cur),
                                      z3.Store(Y.yv, Y.ny, vt), z3.Concat(Y.text, vt), cur)
                s.yields.append(v)
                s.trace.append(Event("yield", "yield", [v], lineno=e.lineno))
                return [(s, None)]

            return seq(I.ev(e.value, st, fr), f)

        I.ev_Yield = ev_yield

        def next_spec(I_, st, args, kwargs, node):
            it = args[0]
            if not (isinstance(it, Ref) and it == c.gen):
                return models.builtin_next(I_, st, args, kwargs, node)
            before = c.cur(st)
            out = []
            for s, v in models.builtin_next(I_, st, args, kwargs, node):
                if not isinstance(v, Raised):
                    s.assume(*join_step(c.R.arr, before))  # definitions of JOIN / NE at this index
                out.append((s, v))
            return out

        I.specs[("fn", id(next))] = next_spec

        def buf_terms(st, v):
            """(arr, n) of a list of strings; the empty concrete list has no element kind yet"""
            arr, n, kind = A.list_terms(st, v)
            if kind != "str":
                if z3.is_int_value(n) and n.as_long() == 0:
                    return z3.K(I_, EMPTY), n
                raise Unsupported("a list of non-strings where pieces are expected")
            return arr, n

        c.buf_terms = buf_terms

        def concat_spec(I_, st, args, kwargs, node):
            arr, n = buf_terms(st, args[0])
            v = Sym(JOIN(arr, n), "str")
            st.assume(JOIN(arr, 0) == EMPTY)
            A.call_event(st, "concat", args, kwargs, v, node)
            return [(st, v)]

        I.specs[("fn", id(E.concat))] = concat_spec

        orig_call_method = I.call_method

        def call_method(st, recv, name, args, kwargs, node=None):
            """list.append on a list of pieces: join fact  join(X + [x]) = join(X) + x"""
            if name == "append" and isinstance(recv, Ref) and isinstance(st.get(recv), HList) and len(args) == 1:
                a0, n0 = buf_terms(st, recv)
                x = args[0]
                rs = orig_call_method(st, recv, name, args, kwargs, node)
                if isinstance(x, (Sym, str)) and (isinstance(x, str) or x.k == "str"):
                    for s, v in rs:
                        if not isinstance(v, Raised):
                            a1, n1 = buf_terms(s, recv)
                            s.assume(JOIN(a1, n1) == z3.Concat(JOIN(a0, n0), to_term(x, "str")), JOIN(a1, 0) == EMPTY)
                return rs
            return orig_call_method(st, recv, name, args, kwargs, node)

        I.call_method = call_method

        def outer_inv(ctx):
            st = ctx.st
            Y = st.ghost["Y"]
            cur = c.cur(st)
            barr, bn = buf_terms(st, ctx.local(BUF))
            seg, val, cnts = c.chunk_facts(Y, cur, final=False)
            return [
                bn == 0, to_term(ctx.local(CSIZE), "int") == 0, Y.pos == cur, 0 <= cur, cur <= c.R.n,
                Y.ny >= 0, z3.If(Y.ny > 0, z3.Select(Y.ye, Y.ny - 1) == Y.pos, Y.pos == 0),
                seg, val, cnts,
                Y.text == c.J(Y.pos),
            ]

        def outer_heap(st, local):
            c.havoc_buf(st, local)
            st.ghost["Y"] = YGhost.havoc()

        def inner_inv(ctx):
            st = ctx.st
            Y = st.ghost["Y"]
            cur = c.cur(st)
            barr, bn = buf_terms(st, ctx.local(BUF))
            cs = to_term(ctx.local(CSIZE), "int")
            j = z3.Int(fresh_name("bj"))
            return [
                0 <= Y.pos, Y.pos <= cur, cur <= c.R.n,
                # the buffer holds the text of the pieces consumed since the last chunk
                z3.Concat(c.J(Y.pos), JOIN(barr, bn)) == c.J(cur),
                cs == c.N(cur) - c.N(Y.pos), 0 <= cs, cs <= c.size.t,
                z3.Implies(cs == 0, c.J(cur) == c.J(Y.pos)),
                z3.ForAll([j], z3.Implies(z3.And(cs == 0, Y.pos <= j, j < cur), z3.Select(c.R.arr, j) == EMPTY)),
            ]

        def inner_heap(st, local):
            c.havoc_buf(st, local)

        qn = "TemplateStream._buffered_generator"
        I.loops[(qn, 0)] = LoopSpec(outer_inv, havoc=dict(havoc_names), heap=outer_heap, name="chunk_loop")
        I.loops[(qn, 1)] = LoopSpec(inner_inv, havoc=dict(havoc_names), heap=inner_heap, name="fill_loop")

    def havoc_buf(self, st, local):
        h = st.get(local[self.BUF])
        h.items = None
        h.arr = z3.Const(fresh_name("buf_arr"), ArrS)
        h.n = z3.Int(fresh_name("buf_n"))
        h.k = "str"
        st.assume(h.n >= 0, JOIN(h.arr, 0) == EMPTY)
        st.get(self.gen).cursor = Sym(z3.Int(fresh_name("cursor")), "int")

    # ---- pre-state ---------------------------------------------------------------------
    def setup(self, I, st):
        self.R = A.sseq(st, "R", "str")
        self.gen = st.alloc(HIter(self.R, 0, tag="generator"), initial=True)
        self.size = sym("size", "int")
        st.assume(self.size.t >= 1)
        st.assume(*join_base(self.R.arr))
        self.stream = A.obj(st, E.TemplateStream, "self", fields={"_gen": self.gen, "buffered": True})
        st.ghost["Y"] = YGhost.initial()
        return [self.stream, self.size], {}

    # ---- postconditions (from the statement) ---------------------------------------------
    def p_no_exception(self, pre, out):
        return out.returned

    def _final(self, out):
        st = out.st
        Y = st.ghost["Y"]
        return st, Y, self.cur(st)

    def p_segments(self, pre, out):
        """the chunks are contiguous segments of the input, starting at its beginning"""
        if out.raised:
            return None
        st, Y, cur = self._final(out)
        return z3.And(self.chunk_facts(Y, cur, final=True)[0], Y.ny >= 0)

    def p_values(self, pre, out):
        """each chunk is the join of its segment"""
        if out.raised:
            return None
        st, Y, cur = self._final(out)
        return self.chunk_facts(Y, cur, final=True)[1]

    def p_counts(self, pre, out):
        """every chunk but the last combines exactly `size` non-empty pieces; the last 1..size"""
        if out.raised:
            return None
        st, Y, cur = self._final(out)
        return self.chunk_facts(Y, cur, final=True)[2]

    def p_coverage(self, pre, out):
        """the input is consumed entirely and everything after the last chunk is the empty string"""
        if out.raised:
            return None
        st, Y, cur = self._final(out)
        j = z3.Int(fresh_name("cj"))
        end = z3.If(Y.ny > 0, z3.Select(Y.ye, Y.ny - 1), z3.IntVal(0))
        return z3.And(cur == self.R.n,
                      z3.ForAll([j], z3.Implies(z3.And(end <= j, j < self.R.n), z3.Select(self.R.arr, j) == EMPTY)))

    def p_text(self, pre, out):
        """the concatenation of all chunks is the concatenation of the input"""
        if out.raised:
            return None
        st, Y, cur = self._final(out)
        return Y.text == self.J(self.R.n)

    posts = [("no_exception", p_no_exception), ("segments", p_segments), ("values", p_values),
             ("counts", p_counts), ("coverage", p_coverage), ("text", p_text)]

    # ---- witnesses: a refuted loop obligation lives in an arbitrary-iteration state, so the
    # failing *input* is searched on the real code with the statement's oracle ----------------
    def run(self, tier, seed):
        rs = super().run(tier, seed)
        if any(r.status == "refuted" for r in rs):
            w = search_buffered_counterexample()
            for r in rs:
                if r.status == "refuted":
                    r.witness = w
        return rs

    def replay(self, w):
        return replay_buffered(w)




# =====================================================================================
# native oracle for the entry points (REAL code; used by replays and bounded stand-ins)
# =====================================================================================

# codecs whose incremental encoder is not byte-identical to the one-shot encoding (C10.spec.incremental_encoder)
NOT_BYTE_IDENTICAL = ("utf-7",)


_SCRATCH = {}


def scratch_dir(prefix="c10"):
    """one scratch directory per process (under TMPDIR, i.e. the per-run directory of ./check), removed at exit"""
    pid = os.getpid()
    if _SCRATCH.get("pid") != pid:
        import atexit
        import shutil
        d = tempfile.mkdtemp(prefix=prefix)
        _SCRATCH.clear()
        _SCRATCH.update(pid=pid, dir=d)
        atexit.register(shutil.rmtree, d, True)
    return _SCRATCH["dir"]


class Boom(Exception):
    """raised by the stand-in render function of the native oracle"""


def native_template(pieces, log, raise_at=None):
    """A real Template of a real Environment whose root render function yields `pieces`
    (and records the context it is called with)."""
    env = jinja2.Environment()
    env.globals["g0"] = "global"
    t = env.from_string("")

    def root(ctx):
        log.append(ctx)
        if hasattr(ctx, "exported_vars"):
            ctx.vars["exported0"] = "E0"
            ctx.exported_vars.add("exported0")
        for i, p in enumerate(pieces):
            if raise_at is not None and i == raise_at:
                raise Boom("render function failed")
            yield p
        if raise_at is not None and raise_at >= len(pieces):
            raise Boom("render function failed")

    t.root_render_func = root
    return env, t


def call_shape(nargs, nkw):
    args = tuple({"a%d" % i: i, "shared_key": "from_arg%d" % i} for i in range(nargs))
    kwargs = {"k%d" % i: 10 + i for i in range(nkw)}
    if nkw:
        kwargs["shared_key"] = "from_kw"
    return args, kwargs


def context_view_error(t, ctx, vars, shared=False, locals=None):
    """docs of Template.new_context: the vars are passed to the template, the globals are added
    unless `shared`, `locals` are added for internal usage"""
    want = dict(vars or {}) if shared else {**dict(t.globals), **dict(vars or {})}
    for k, v in (locals or {}).items():
        if v is not U.missing:
            want[k] = v
    got = dict(ctx.get_all())
    got.pop("exported0", None)  # set by the stand-in render function itself
    if got != want:
        return f"context holds {got!r}, expected {want!r}"
    if ctx.name != t.name or ctx.environment is not t.environment or ctx.blocks.keys() != t.blocks.keys():
        return "context is not bound to this template/environment"
    return None


class _FileWL:
    def __init__(self):
        self.items, self.closed, self.log = ["<prior>"], 0, []

    def write(self, x):
        self.items.append(x)

    def writelines(self, xs):
        for x in xs:
            self.items.append(x)

    def close(self):
        self.closed += 1


class _FileNoWL:
    def __init__(self):
        self.items, self.closed = ["<prior>"], 0

    def write(self, x):
        self.items.append(x)

    def close(self):
        self.closed += 1


def native_check(w):
    """-> None when the real code behaves as the statement says on this input, else a description."""
    entry = w["entry"]
    pieces = pieces_from_pattern(w.get("pattern", "101"))
    text = "".join(pieces)
    raise_at = w.get("raise_at")
    log = []
    env, t = native_template(pieces, log, raise_at)
    args, kwargs = call_shape(w.get("nargs", 0), w.get("nkw", 0))
    size = int(w.get("size", 3))

    def expect_vars():
        return dict(*args, **kwargs)

    def check_ctx():
        if len(log) != 1:
            return f"the render function was called {len(log)} times"
        return context_view_error(t, log[0], expect_vars())

    if entry in ("render", "generate", "stream"):
        try:
            want_vars = expect_vars()
        except TypeError:
            want_vars = None
        try:
            if entry == "render":
                got = t.render(*args, **kwargs)
            elif entry == "generate":
                got = "".join(t.generate(*args, **kwargs))
            else:
                s = t.stream(*args, **kwargs)
                if type(s) is not E.TemplateStream or s.buffered:
                    return "stream() did not return an unbuffered TemplateStream"
                if w.get("buffered"):
                    s.enable_buffering(size)
                    chunks = list(itertools.islice(s, len(pieces) + 2))
                    d = chunk_oracle(pieces, size, chunks)
                    if d:
                        return f"stream buffered({size}) over {pieces!r} -> {chunks!r}: {d}"
                    got = "".join(chunks)
                else:
                    items = list(s)
                    if raise_at is None and items != pieces:
                        return f"unbuffered stream yields {items!r}, the render function yields {pieces!r}"
                    got = "".join(items)
        except Boom:
            if raise_at is None:
                return "unexpected exception"
            return None if len(log) == 1 else "render function not called exactly once"
        except TypeError:
            return None if want_vars is None else "TypeError although dict(*args, **kwargs) is well-formed"
        if want_vars is None:
            return "no TypeError although dict(*args, **kwargs) is ill-formed"
        if raise_at is not None:
            return f"{entry} swallowed the exception of the render function (returned {got!r})"
        if got != text:
            return f"{entry}{args + (kwargs,)!r} = {got!r}, concatenation of the render function's pieces = {text!r}"
        return check_ctx()

    if entry == "new_context" or entry == "module":
        vars = {"v": 1} if w.get("vars", True) else None
        shared = bool(w.get("shared", False))
        locals = {"l_x": 5, "l_m": U.missing} if w.get("locals", False) else None
        if entry == "new_context":
            ctx = t.new_context(vars, shared, locals)
            if type(ctx) is not env.context_class:
                return "new_context did not return a Context"
            return context_view_error(t, ctx, vars, shared, locals)
        m = t.make_module(vars, shared, locals)
        if len(log) != 1:
            return f"the render function was called {len(log)} times"
        d = context_view_error(t, log[0], vars, shared, locals)
        if d:
            return d
        from markupsafe import Markup
        if list(m._body_stream) != pieces:
            return f"module body {list(m._body_stream)!r} != {pieces!r}"
        if str(m) != text:
            return f"str(module) = {str(m)!r}, expected {text!r}"
        h = m.__html__()
        if type(h) is not Markup or str(h) != text:
            return f"module.__html__() = {h!r}, expected Markup({text!r})"
        if str(m) != text or len(log) != 1:
            return "str(module) is not stable"
        if m.__name__ != t.name:
            return "module name"
        if getattr(m, "exported0", None) != "E0":
            return "the module does not carry the exported names of the template"
        return None

    if entry == "module_init":
        class Ctx:
            environment = env

            def get_exported(self):
                return {"e0": 1}

        m = E.TemplateModule(t, Ctx(), pieces)
        if m._body_stream is not pieces or log or m.e0 != 1 or str(m) != text:
            return "TemplateModule(template, ctx, body_stream) must keep the given body stream and not render"
        return None

    if entry == "stream_obj":
        src = iter(list(pieces))
        s = E.TemplateStream(src)
        if s.buffered or s._gen is not src:
            return "a new TemplateStream must be unbuffered and keep its generator"
        if iter(s) is not s:
            return "iter(stream) is not the stream"
        got = []
        k = w.get("take", 1)
        for _ in range(k):
            try:
                got.append(next(s))
            except StopIteration:
                break
        if got != pieces[:k]:
            return f"first {k} unbuffered items {got!r} != {pieces[:k]!r}"
        try:
            s.enable_buffering(size)
            if size <= 1:
                return f"enable_buffering({size}) did not raise ValueError"
        except ValueError:
            if size > 1:
                return f"enable_buffering({size}) raised ValueError"
            if s.buffered:
                return "failed enable_buffering left the stream marked buffered"
            rest = list(s)
            return None if rest == pieces[k:] else f"after the failed enable_buffering the stream yields {rest!r}"
        if not s.buffered:
            return "enable_buffering did not set .buffered"
        rest_in = pieces[k:]
        if w.get("disable_again"):
            s.disable_buffering()
            if s.buffered:
                return "disable_buffering left .buffered set"
            rest = list(s)
            return None if rest == rest_in else f"after disable_buffering the stream yields {rest!r}, expected {rest_in!r}"
        chunks = list(itertools.islice(s, len(rest_in) + 2))
        d = chunk_oracle(rest_in, size, chunks)
        return None if d is None else f"enable_buffering({size}) over {rest_in!r} -> {chunks!r}: {d}"

    if entry == "dump" and w.get("reps", 2) > 1:
        # dump() calls are independent: the same dump twice in a row must be right both times
        for i in range(w.get("reps", 2)):
            d = native_check({**w, "reps": 1})
            if d:
                return f"dump #{i + 1} in a row: {d}"
        return None

    if entry == "dump":
        target, enc, errors = w["target"], w.get("encoding"), w.get("errors", "strict")
        if w.get("nonascii"):
            tail = "\udc80" if w["nonascii"] == "surrogate" else "é€"
            pieces = [p + tail if p else p for p in pieces]
        s = E.TemplateStream(iter(list(pieces)))
        if w.get("buffered"):
            s.enable_buffering(size)
            twin = E.TemplateStream(iter(list(pieces)))
            twin.enable_buffering(size)
            if len(list(itertools.islice(twin, len(pieces) + 2))) > len(pieces) + 1:
                return "the buffered stream does not terminate"
        extra = (enc,) if errors == "strict" else (enc, errors)
        if target == "path":
            d = scratch_dir()
            path = os.path.join(d, "out.bin")
            opened = []
            real_open = open

            class Spy:
                def __init__(self, f):
                    self.f, self.closed_calls, self.writes_after_close = f, 0, 0

                def write(self, x):
                    if self.closed_calls:
                        self.writes_after_close += 1
                    return self.f.write(x)

                def writelines(self, xs):
                    for x in xs:
                        self.write(x)

                def close(self):
                    self.closed_calls += 1
                    self.f.close()

            def spy_open(*a, **k):
                sp = Spy(real_open(*a, **k))
                opened.append((a, k, sp))
                return sp

            E_open = E.__dict__.get("open")
            E.open = spy_open
            try:
                try:
                    s.dump(path, *extra)
                    raised = None
                except (UnicodeError, LookupError) as ex:
                    raised = ex
            finally:
                if E_open is None:
                    del E.open
                else:
                    E.open = E_open
            try:
                if len(opened) != 1:
                    return f"dump(path) opened {len(opened)} files"
                a, k, sp = opened[0]
                if a[0] != path or (a[1:] + (k.get("mode"),))[0] != "wb":
                    return f"dump(path) opened the file with {a!r} {k!r}, expected (path, 'wb')"
                if sp.closed_calls != 1 or sp.writes_after_close:
                    return f"dump(path) closed the file it opened {sp.closed_calls} times (writes after close: {sp.writes_after_close})"
                data = real_open(path, "rb").read()
                if raised is None:
                    # the statement: the dumped file holds the same TEXT (as far as the codec/error mode keeps it)
                    codec = enc or "utf-8"
                    want_text = "".join(pieces).encode(codec, errors).decode(codec)
                    try:
                        got_text = data.decode(codec)
                    except UnicodeError as ex:
                        return f"file holds {data!r}, which does not decode as {codec}: {ex}"
                    if got_text != want_text:
                        return f"dump(path, {codec!r}) wrote a file that decodes to {got_text!r}, the rendered text is {want_text!r}"
                    want_bytes = "".join(pieces).encode(codec, errors)
                    if codec not in NOT_BYTE_IDENTICAL and data != want_bytes:
                        return f"dump(path, {codec!r}) wrote {data!r}, the rendered text in that encoding is {want_bytes!r}"
                else:
                    try:
                        "".join(pieces).encode(enc or "utf-8", errors)
                        return f"dump raised {raised!r} although the text is encodable"
                    except (UnicodeError, LookupError):
                        pass
                return None
            finally:
                pass
        f = _FileWL() if target == "wl" else _FileNoWL()
        try:
            s.dump(f, *extra)
            raised = None
        except (UnicodeError, LookupError) as ex:
            raised = ex
        if f.closed:
            return "dump closed a file object it did not open"
        if raised is not None:
            try:
                "".join(pieces).encode(enc, errors)
                return f"dump raised {raised!r} although the text is encodable"
            except (UnicodeError, LookupError):
                return None
        got = f.items
        if got[:1] != ["<prior>"]:
            return "dump disturbed what the file already held"
        got = got[1:]
        if enc:
            if not all(isinstance(x, bytes) for x in got):
                return f"dump(file, {enc!r}) wrote non-bytes items {got!r}"
            want_text = "".join(pieces).encode(enc, errors).decode(enc)
            try:
                got_text = b"".join(got).decode(enc)
            except UnicodeError as ex:
                return f"dump wrote {got!r}, which does not decode as {enc}: {ex}"
            if got_text != want_text:
                return f"dump(file, {enc!r}) wrote bytes that decode to {got_text!r}, the rendered text is {want_text!r}"
            want_bytes = "".join(pieces).encode(enc, errors)
            if enc not in NOT_BYTE_IDENTICAL and b"".join(got) != want_bytes:
                return f"dump(file, {enc!r}) wrote {b''.join(got)!r}, the rendered text in that encoding is {want_bytes!r}"
            return None
        items = list(pieces)
        if w.get("buffered"):
            s2 = E.TemplateStream(iter(list(pieces)))
            s2.enable_buffering(size)
            items = list(itertools.islice(s2, len(pieces) + 2))  # what iterating the buffered stream gives
        want = list(items)
        return None if got == want else f"dump wrote {got!r}, expected the items {want!r} (in order)"

    raise ValueError(f"unknown entry {entry!r}")


class C10VC(VC):
    """VC whose refutations are turned into concrete failing inputs by running the statement's
    oracle on the real code over a small family of inputs for that entry point."""
    prop = "C10"

    def native_family(self):
        return []

    def run(self, tier, seed):
        rs = super().run(tier, seed)
        if any(r.status == "refuted" for r in rs):
            w = None
            for cand in self.native_family():
                try:
                    bad = native_check(cand)
                except Exception as ex:  # noqa: the real code crashed on a valid input
                    bad = f"crash: {ex!r}"
                if bad:
                    w = cand
                    break
            for r in rs:
                if r.status == "refuted":
                    r.witness = w
        return rs

    def replay(self, w):
        try:
            d = native_check(w)
        except Exception as ex:  # noqa
            import traceback
            return True, "real code crashed: " + traceback.format_exc()[-300:].replace("\n", " | ")
        return (d is not None, d or "as specified")


PATTERNS = ["", "1", "0", "11", "101", "0110", "11011", "100101"]


# =====================================================================================
# common abstract callees
# =====================================================================================

def always_raises(name, within=Exception):
    def handler(I, st, args, kwargs, node):
        e = Exc(None, (), tag=name, within=within, origin=getattr(node, "lineno", None))
        e.from_call = name
        A.call_event(st, name, args, kwargs, e, node)
        return [(st, Raised(e))]

    return handler


def partial_specs(I):
    """functools.partial(f, *a)(*b) == f(*a, *b)   (dependency spec)"""

    def mk(I_, st, args, kwargs, node):
        if kwargs:
            raise Unsupported("partial with keywords", node)
        return [(st, st.alloc(HObj(functools.partial, fields={"func": args[0], "args": tuple(args[1:])})))]

    def call(I_, st, args, kwargs, node):
        h = st.get(args[0])
        return I_.call(st, h.fields["func"], list(h.fields["args"]) + list(args[1:]), kwargs, node)

    I.specs[("fn", id(functools.partial))] = mk
    I.specs["partial.__call__"] = call


def is_partial_next(st, v, it):
    """v is partial(next, it)"""
    if not isinstance(v, Ref):
        return False
    h = st.get(v)
    return (isinstance(h, HObj) and h.cls is functools.partial and h.fields.get("func") is next
            and len(h.fields.get("args", ())) == 1 and h.fields["args"][0] == it)


class TemplateEnv:
    """symbolic Template + Environment and the abstract callees of the rendering entry points"""

    def make(self, st, is_async):
        self.is_async = is_async
        self.env = A.obj(st, jinja2.Environment, "environment", fields={"is_async": is_async})
        self.tname, self.blocks, self.globals_ = sym("t_name", "obj"), sym("t_blocks", "obj"), sym("t_globals", "obj")
        self.tmpl = A.obj(st, E.Template, "self", fields={
            "environment": self.env, "name": self.tname, "blocks": self.blocks, "globals": self.globals_})
        self.R = A.sseq(st, "R", "str")
        st.assume(*join_base(self.R.arr))

    def install(self, I, new_context_abstract=True):
        c = self
        import asyncio

        def dict_spec(I_, st, args, kwargs, node):
            v = fresh("vars", "obj")
            A.call_event(st, "dict", args, kwargs, v, node)
            return [(st, v)]

        I.specs[("fn", id(dict))] = dict_spec
        if new_context_abstract:
            I.specs["Template.new_context"] = A.abstract_fn("Template.new_context", returns="obj")

        def root_spec(I_, st, args, kwargs, node):
            it = st.alloc(HIter(c.R, 0, tag="generator"))
            A.call_event(st, "root_render_func", args, kwargs, it, node)
            return [(st, it)]

        I.specs["Template.root_render_func"] = root_spec

        def env_concat(I_, st, args, kwargs, node):
            """Environment.concat = "".join over an iterator: consumes it; an exception of the
            generator (any Exception, or a BaseException such as KeyboardInterrupt) passes through"""
            it = args[1]
            out = []
            for cls in (None, KeyboardInterrupt):
                s = st.fork()
                e = Exc(cls, (), tag="render_func", within=Exception, origin=getattr(node, "lineno", None))
                A.call_event(s, "environment.concat", args[1:], kwargs, e, node)
                out.append((s, Raised(e)))
            arr, n, kind = A.list_terms(st, it)
            if isinstance(it, Ref) and isinstance(st.get(it), HIter):
                h = st.get(it)
                if not (isinstance(h.cursor, int) and h.cursor == 0):
                    raise Unsupported("concat of a partially consumed iterator", node)
                h.cursor = Sym(n, "int")
            v = Sym(JOIN(arr, n), "str")
            A.call_event(st, "environment.concat", args[1:], kwargs, v, node)
            out.append((st, v))
            return out

        I.specs["Environment.concat"] = env_concat
        # the module-level concat is the same "".join (C10.tables.concat_is_join)
        I.specs[("fn", id(E.concat))] = lambda I_, st, args, kwargs, node: env_concat(I_, st, [None] + list(args), kwargs, node)
        I.specs["Environment.handle_exception"] = always_raises("environment.handle_exception")
        I.specs[("fn", id(asyncio.run))] = A.abstract_fn("asyncio.run", returns="obj")
        I.specs["Template.render_async"] = A.abstract_fn("Template.render_async", returns="obj")
        I.specs["Template.generate_async"] = A.abstract_fn("Template.generate_async", returns="obj")

    # ---- predicates over a path -----------------------------------------------------------
    def ctx0_ok(self, out, args, kwargs_items):
        """exactly: d = dict(*args, **kwargs); ctx = self.new_context(d); root_render_func(ctx)"""
        d = A.calls(out, "dict")
        nc = A.calls(out, "Template.new_context")
        rr = A.calls(out, "root_render_func")
        if len(d) != 1 or len(nc) != 1 or len(rr) != 1:
            return False
        if len(d[0].args) != len(args) or any(x is not y for x, y in zip(d[0].args, args)):
            return False
        if set(d[0].kwargs) != set(kwargs_items) or any(d[0].kwargs[k] is not v for k, v in kwargs_items.items()):
            return False
        if list(nc[0].args[1:]) != [d[0].result] or nc[0].kwargs or nc[0].args[0] != self.tmpl:
            return False
        if len(rr[0].args) != 2 or rr[0].args[1] is not nc[0].result or rr[0].kwargs:
            return False
        return True


SHAPES = [(0, 0), (1, 0), (0, 2), (1, 2)]


class EntryVC(C10VC):
    """render / generate / stream with a concrete call shape (number of positional and keyword
    arguments) and symbolic argument values"""

    entry = ""

    def __init__(self, nargs, nkw):
        self.nargs, self.nkw = nargs, nkw
        VC.__init__(self, "C10", f"C10.Template.{self.entry}[args={nargs},kwargs={nkw}]")

    def native_family(self):
        for pat in PATTERNS:
            for ra in (None, 0, 1):
                for buffered in ((False, True) if self.entry == "stream" else (False,)):
                    yield {"entry": self.entry, "pattern": pat, "nargs": self.nargs, "nkw": self.nkw,
                           "raise_at": ra, "buffered": buffered, "size": 2}

    def configure(self, I):
        self.T = TemplateEnv()
        self.T.install(I)
        self.configure_entry(I)

    def configure_entry(self, I):
        pass

    def setup(self, I, st):
        self.T.make(st, sym("is_async", "bool"))
        self.args = tuple(sym(f"arg{i}", "obj") for i in range(self.nargs))
        self.kw = {f"k{i}": sym(f"kwval{i}", "obj") for i in range(self.nkw)}
        kwref = st.alloc(HDict(items=dict(self.kw)), initial=True)
        return "locals", {"self": self.T.tmpl, "args": self.args, "kwargs": kwref}

    def same_call_args(self, ev):
        """the event was called with (self, *args, **kwargs) exactly"""
        return (ev.args[0] == self.T.tmpl and len(ev.args) == 1 + len(self.args)
                and all(x is y for x, y in zip(ev.args[1:], self.args))
                and ev.kwargs.keys() == self.kw.keys() and all(ev.kwargs[k] is v for k, v in self.kw.items()))

    def is_async_path(self, out):
        return bool(A.calls(out, "asyncio.run"))

    def p_mode(self, pre, out):
        """the async variants are used exactly in async mode"""
        return self.T.is_async.t == z3.BoolVal(self.is_async_path(out))


class Render(EntryVC):
    entry = "render"
    target = "jinja2.environment:Template.render"

    def p_text(self, pre, out):
        """render returns the concatenation of R(ctx0)"""
        if self.is_async_path(out) or out.raised:
            return None
        if not self.T.ctx0_ok(out, self.args, self.kw):
            return False
        cc = A.calls(out, "environment.concat")
        if len(cc) != 1 or cc[0].args[0] != A.calls(out, "root_render_func")[0].result:
            return False
        if A.calls(out, "environment.handle_exception"):
            return False
        if not isinstance(out.value, Sym) or out.value.k != "str":
            return False
        return out.value.t == JOIN(self.T.R.arr, self.T.R.n)

    def p_errors(self, pre, out):
        """an Exception of the render function goes through handle_exception (which re-raises);
        render never returns normally without a result"""
        if self.is_async_path(out):
            return None
        if out.returned:
            return len(A.calls(out, "environment.concat")) == 1 and not A.calls(out, "environment.handle_exception")
        tag = out.value.tag
        he = A.calls(out, "environment.handle_exception")
        if tag == "environment.handle_exception":
            cc = A.calls(out, "environment.concat")
            return len(he) == 1 and len(cc) == 1 and isinstance(cc[0].result, Exc)
        if tag == "render_func":
            # only a non-Exception (KeyboardInterrupt ...) may bypass handle_exception
            return out.value.cls is KeyboardInterrupt and not he
        return False

    def p_async(self, pre, out):
        """in async mode render() = asyncio.run(render_async(*args, **kwargs))"""
        if not self.is_async_path(out):
            return None
        ra = A.calls(out, "Template.render_async")
        ar = A.calls(out, "asyncio.run")
        if len(ra) != 1 or len(ar) != 1 or A.calls(out, "root_render_func"):
            return False
        if not self.same_call_args(ra[0]):
            return False
        return out.returned and ar[0].args[0] is ra[0].result and out.value is ar[0].result

    posts = [("mode", EntryVC.p_mode), ("text", p_text), ("errors", p_errors), ("async", p_async)]


class Generate(EntryVC):
    entry = "generate"
    target = "jinja2.environment:Template.generate"

    def configure_entry(self, I):
        c = self

        def ev_yield_from(e, st, fr):
            """`yield from it` over an abstract iterator: yields a prefix and raises what the
            delegate raises, or yields everything that is left"""

            def f(s, v):
                if not (isinstance(v, Ref) and isinstance(s.get(v), HIter) and isinstance(s.get(v).items, SSeq)):
                    raise Unsupported("yield from a non-abstract iterable", e)
                items, start = s.get(v).items, s.get(v).cursor
                outs = []
                for cls in (None, KeyboardInterrupt):
                    s1 = s.fork()
                    k = z3.Int(fresh_name("prefix"))
                    s1.assume(to_term(start, "int") <= k, k <= items.n)
                    s1.get(v).cursor = Sym(k, "int")
                    s1.yields.append(("from", items, start, k))
                    outs.append((s1, Raised(Exc(cls, (), tag="render_func", within=Exception, origin=e.lineno))))
                s.get(v).cursor = Sym(items.n, "int")
                s.yields.append(("from", items, start, items.n))
                outs.append((s, None))
                return outs

            return seq(I.ev(e.value, st, fr), f)

        I.ev_YieldFrom = ev_yield_from

    def yield_text(self, out):
        """concatenation of everything yielded on this path as a term (None: not expressible)"""
        parts = []
        for y in out.st.yields:
            if isinstance(y, tuple) and y and y[0] == "from":
                _, items, start, end = y
                if not (isinstance(start, int) and start == 0):
                    return None
                parts.append(JOIN(items.arr, end))
            elif isinstance(y, str) or (isinstance(y, Sym) and y.k == "str"):
                parts.append(to_term(y, "str"))
            else:
                return None
        if not parts:
            return EMPTY
        return parts[0] if len(parts) == 1 else z3.Concat(*parts)

    def p_text(self, pre, out):
        """the concatenation of generate() is the concatenation of R(ctx0)"""
        if self.is_async_path(out) or out.raised:
            return None
        if not self.T.ctx0_ok(out, self.args, self.kw) or A.calls(out, "environment.handle_exception"):
            return False
        t = self.yield_text(out)
        if t is None:
            return False
        return t == JOIN(self.T.R.arr, self.T.R.n)

    def p_order(self, pre, out):
        """what generate yielded before a failure is a prefix of R(ctx0), in order"""
        if self.is_async_path(out) or out.returned:
            return None
        ys = out.st.yields
        if not ys:
            return True
        return len(ys) == 1 and isinstance(ys[0], tuple) and ys[0][1] is self.T.R and ys[0][2] == 0

    def p_errors(self, pre, out):
        if self.is_async_path(out):
            return None
        he = A.calls(out, "environment.handle_exception")
        if out.returned:
            return not he
        if out.value.tag == "environment.handle_exception":
            return len(he) == 1
        if out.value.tag == "render_func":
            return out.value.cls is KeyboardInterrupt and not he
        return False

    posts = [("text", p_text), ("order", p_order), ("errors", p_errors)]

    def setup(self, I, st):
        r = super().setup(I, st)
        # the async branch of generate() belongs to C09.entry; here: sync mode
        st.assume(z3.Not(self.T.is_async.t))
        return r


class Stream(EntryVC):
    entry = "stream"
    target = "jinja2.environment:Template.stream"

    def configure_entry(self, I):
        c = self
        partial_specs(I)
        I.inline.add("jinja2.environment:TemplateStream.__init__")
        I.inline.add("jinja2.environment:TemplateStream.disable_buffering")

        def gen_spec(I_, st, args, kwargs, node):
            c.G = A.sseq(st, "G", "str")
            it = st.alloc(HIter(c.G, 0, tag="generator"))
            A.call_event(st, "Template.generate", args, kwargs, it, node)
            return [(st, it)]

        I.specs["Template.generate"] = gen_spec

    def p_stream(self, pre, out):
        """stream(*a, **kw) is an unbuffered TemplateStream over generate(*a, **kw)"""
        if out.raised:
            return False
        g = A.calls(out, "Template.generate")
        if len(g) != 1 or not self.same_call_args(g[0]):
            return False
        v = out.value
        if not isinstance(v, Ref) or not isinstance(out.st.get(v), HObj) or out.st.get(v).cls is not E.TemplateStream:
            return False
        f = out.st.get(v).fields
        it = g[0].result
        h = out.st.get(it)
        return (f.get("_gen") == it and f.get("buffered") is False and is_partial_next(out.st, f.get("_next"), it)
                and isinstance(h.cursor, int) and h.cursor == 0)

    posts = [("stream", p_stream)]


class NewContext(C10VC):
    target = "jinja2.environment:Template.new_context"

    def __init__(self):
        VC.__init__(self, "C10", "C10.Template.new_context")

    def native_family(self):
        for vars, shared, locals in itertools.product((True, False), repeat=3):
            yield {"entry": "new_context", "vars": vars, "shared": shared, "locals": locals}

    def configure(self, I):
        self.T = TemplateEnv()
        self.T.install(I, new_context_abstract=False)
        I.specs["jinja2.runtime:new_context"] = A.abstract_fn("runtime.new_context", returns="obj")

    def setup(self, I, st):
        self.T.make(st, sym("is_async", "bool"))
        self.vars, self.shared, self.locals = sym("vars", "obj"), sym("shared", "obj"), sym("locals", "obj")
        return [self.T.tmpl, self.vars, self.shared, self.locals], {}

    def p_delegates(self, pre, out):
        """new_context(vars, shared, locals) = runtime.new_context(environment, name, blocks, vars, shared, globals, locals)"""
        if out.raised:
            return False
        ev = A.calls(out, "runtime.new_context")
        if len(ev) != 1:
            return False
        T = self.T
        got = list(ev[0].args)
        names = ["environment", "template_name", "blocks", "vars", "shared", "globals", "locals"]
        bound = dict(zip(names, got))
        bound.update(ev[0].kwargs)
        want = {"environment": T.env, "template_name": T.tname, "blocks": T.blocks, "vars": self.vars,
                "shared": self.shared, "globals": T.globals_, "locals": self.locals}
        if bound.keys() != want.keys() or len(got) + len(ev[0].kwargs) != 7:
            return False
        for k in want:
            a, b = bound[k], want[k]
            if not (a is b or (isinstance(a, Ref) and a == b)):
                return False
        return out.value is ev[0].result

    posts = [("delegates", p_delegates)]


class MakeModule(C10VC):
    """make_module + TemplateModule.__init__ (inlined)"""
    target = "jinja2.environment:Template.make_module"

    def __init__(self):
        VC.__init__(self, "C10", "C10.Template.make_module")

    def native_family(self):
        for pat in PATTERNS:
            for vars, shared, locals in itertools.product((True, False), repeat=3):
                yield {"entry": "module", "pattern": pat, "vars": vars, "shared": shared, "locals": locals}

    def configure(self, I):
        c = self
        self.T = TemplateEnv()
        self.T.install(I)
        self.exports = None
        I.inline.add("jinja2.environment:TemplateModule.__init__")

        def getattr_obj(I_, st, args, kwargs, node):
            o, name = args
            nc = [e for e in st.trace if e.kind == "call" and e.name == "Template.new_context"]
            if name == "environment" and nc and o is nc[-1].result:
                return [(st, c.T.env)]  # contract of runtime.new_context: the context belongs to the environment passed
            if name == "environment" and o is getattr(c, "ctx", None):
                return [(st, c.T.env)]
            if name == "get_exported":
                return [(st, BoundMethod(o, name))]
            return None

        I.specs["getattr_obj"] = getattr_obj

        def method_obj(I_, st, args, kwargs, node):
            o, name = args[0], args[1]
            if name == "get_exported":
                c.exports = {"exp0": fresh("exp0", "obj"), "exp1": fresh("exp1", "obj")}
                d = st.alloc(HDict(items=dict(c.exports)))
                A.call_event(st, "Context.get_exported", [o], kwargs, d, node)
                return [(st, d)]
            return None

        I.specs["method_obj"] = method_obj

    def setup(self, I, st):
        self.T.make(st, sym("is_async", "bool"))
        self.vars, self.shared, self.locals = sym("vars", "obj"), sym("shared", "obj"), sym("locals", "obj")
        return [self.T.tmpl, self.vars, self.shared, self.locals], {}

    def p_async(self, pre, out):
        """sync module creation is refused in async mode, before anything is rendered"""
        if out.raised:
            if out.value.cls is not RuntimeError or A.calls(out, "root_render_func"):
                return False
            return self.T.is_async.t
        return z3.Not(self.T.is_async.t)

    def p_context(self, pre, out):
        """ctx = self.new_context(vars, shared, locals); the render function runs once, on ctx"""
        nc = A.calls(out, "Template.new_context")
        if len(nc) != 1 or nc[0].kwargs:
            return False
        a = nc[0].args
        if not (len(a) == 4 and a[0] == self.T.tmpl and a[1] is self.vars and a[2] is self.shared and a[3] is self.locals):
            return False
        if out.raised:
            return True
        rr = A.calls(out, "root_render_func")
        return len(rr) == 1 and rr[0].args[0] == self.T.tmpl and rr[0].args[1] is nc[0].result and len(rr[0].args) == 2

    def p_body(self, pre, out):
        """the module stores list(R(ctx)), its exports and its name"""
        if out.raised:
            return None
        v = out.value
        if not (isinstance(v, Ref) and isinstance(out.st.get(v), HObj) and out.st.get(v).cls is E.TemplateModule):
            return False
        f = out.st.get(v).fields
        b = f.get("_body_stream")
        if not (isinstance(b, Ref) and isinstance(out.st.get(b), HList)):
            return False  # must be a list: the body is rendered once, eagerly
        ge = A.calls(out, "Context.get_exported")
        if len(ge) != 1 or ge[0].args[0] is not A.calls(out, "Template.new_context")[0].result:
            return False
        if self.exports is None or any(f.get(k) is not x for k, x in self.exports.items()) or f.get("__name__") is not self.T.tname:
            return False
        arr, n, kind = A.list_terms(out.st, b)
        j = z3.Int(fresh_name("mj"))
        R = self.T.R
        return z3.And(n == R.n, z3.ForAll([j], z3.Implies(z3.And(0 <= j, j < n), z3.Select(arr, j) == z3.Select(R.arr, j))))

    posts = [("async_refused", p_async), ("context", p_context), ("body", p_body)]


class ModuleInitGiven(C10VC):
    """TemplateModule(template, ctx, body_stream): keeps the given body stream, renders nothing"""
    target = "jinja2.environment:TemplateModule.__init__"

    def __init__(self):
        VC.__init__(self, "C10", "C10.TemplateModule.__init__[body_stream given]")

    def native_family(self):
        for pat in PATTERNS:
            yield {"entry": "module_init", "pattern": pat}

    def configure(self, I):
        MakeModule.configure(self, I)

    def setup(self, I, st):
        self.T.make(st, sym("is_async", "bool"))
        self.ctx = sym("ctx", "obj")
        self.body = A.alist(st, "body", "str")
        self.mod = st.alloc(HObj(E.TemplateModule), initial=True)
        return [self.mod, self.T.tmpl, self.ctx, self.body], {}

    def p_kept(self, pre, out):
        if out.raised:
            return False
        f = out.st.get(self.mod).fields
        h = out.st.get(self.body)
        hp = pre.get(self.body)
        return (f.get("_body_stream") == self.body and not A.calls(out, "root_render_func") and h.arr is hp.arr and h.n is hp.n
                and self.exports is not None and all(f.get(k) is x for k, x in self.exports.items()) and f.get("__name__") is self.T.tname)

    posts = [("kept", p_kept)]


class ModuleText(C10VC):
    """TemplateModule.__str__ / __html__ = concat(_body_stream) (as Markup for __html__)"""

    def __init__(self, which):
        self.which = which
        self.target = f"jinja2.environment:TemplateModule.{which}"
        VC.__init__(self, "C10", f"C10.TemplateModule.{which}")

    def native_family(self):
        for pat in PATTERNS:
            yield {"entry": "module", "pattern": pat}

    def configure(self, I):
        def concat_spec(I_, st, args, kwargs, node):
            arr, n, kind = A.list_terms(st, args[0])
            if kind != "str":
                raise Unsupported("concat of a non-string sequence", node)
            v = Sym(JOIN(arr, n), "str")
            st.assume(JOIN(arr, 0) == EMPTY)
            A.call_event(st, "concat", args, kwargs, v, node)
            return [(st, v)]

        I.specs[("fn", id(E.concat))] = concat_spec
        from markupsafe import Markup

        def markup_spec(I_, st, args, kwargs, node):
            a = args[0]
            if not (isinstance(a, Sym) and a.k == "str") or len(args) != 1:
                raise Unsupported("Markup() of a non-string", node)
            v = Sym(a.t, "str", a.tags | {"markup"})
            A.call_event(st, "Markup", args, kwargs, v, node)
            return [(st, v)]

        I.specs[("fn", id(Markup))] = markup_spec

    def setup(self, I, st):
        self.body = A.alist(st, "body", "str")
        h = st.get(self.body)
        self.arr, self.n = h.arr, h.n
        st.assume(*join_base(self.arr))
        self.mod = A.obj(st, E.TemplateModule, "module", fields={"_body_stream": self.body})
        return [self.mod], {}

    def p_text(self, pre, out):
        if out.raised:
            return False
        v = out.value
        if not (isinstance(v, Sym) and v.k == "str"):
            return False
        if ("markup" in v.tags) != (self.which == "__html__"):
            return False
        h = out.st.get(self.body)
        if h.arr is not self.arr or h.n is not self.n or out.st.written:
            return False  # the stored body is not modified
        return v.t == JOIN(self.arr, self.n)

    posts = [("text", p_text)]


# =====================================================================================
# TemplateStream: __init__, __next__, disable_buffering, enable_buffering
# =====================================================================================

class StreamObj(C10VC):
    def native_family(self):
        for pat in PATTERNS:
            for size in (-1, 0, 1, 2, 3):
                for take in (0, 1, 2):
                    for dis in (False, True):
                        yield {"entry": "stream_obj", "pattern": pat, "size": size, "take": take, "disable_again": dis}

    def configure(self, I):
        partial_specs(I)
        self.configure_more(I)

    def configure_more(self, I):
        pass

    def mk_stream(self, st, **fields):
        self.Q = A.sseq(st, "Q", "str")
        self.k0 = z3.Int("cursor0")
        st.assume(0 <= self.k0, self.k0 <= self.Q.n)
        self.gen = st.alloc(HIter(self.Q, Sym(self.k0, "int"), tag="generator"), initial=True)
        f = {"_gen": self.gen}
        f.update(fields)
        self.stream = st.alloc(HObj(E.TemplateStream, fields=f), initial=True)
        return self.stream

    def only_written(self, out, names):
        return all(i != self.stream.id or f in names for (i, f) in out.st.written)

    def gen_untouched(self, out):
        h = out.st.get(self.gen)
        return isinstance(h.cursor, Sym) and h.cursor.t is self.k0 or (isinstance(h.cursor, Sym) and z3.eq(h.cursor.t, self.k0))


class StreamInit(StreamObj):
    target = "jinja2.environment:TemplateStream.__init__"

    def __init__(self):
        VC.__init__(self, "C10", "C10.TemplateStream.__init__")

    def configure_more(self, I):
        I.inline.add("jinja2.environment:TemplateStream.disable_buffering")

    def setup(self, I, st):
        self.mk_stream(st)
        st.get(self.stream).fields.clear()
        return [self.stream, self.gen], {}

    def p_init(self, pre, out):
        """a new stream keeps its generator, is unbuffered, and its next item is next(generator)"""
        if out.raised:
            return False
        f = out.st.get(self.stream).fields
        return (f.get("_gen") == self.gen and f.get("buffered") is False and is_partial_next(out.st, f.get("_next"), self.gen)
                and self.gen_untouched(out) and set(f) == {"_gen", "buffered", "_next"})

    posts = [("init", p_init)]


class DisableBuffering(StreamObj):
    target = "jinja2.environment:TemplateStream.disable_buffering"

    def __init__(self):
        VC.__init__(self, "C10", "C10.TemplateStream.disable_buffering")

    def setup(self, I, st):
        other = st.alloc(HIter(A.sseq(st, "B", "str"), 0, tag="generator"), initial=True)
        p = st.alloc(HObj(functools.partial, fields={"func": next, "args": (other,)}), initial=True)
        self.mk_stream(st, buffered=sym("buffered", "bool"), _next=p)
        return [self.stream], {}

    def p_disable(self, pre, out):
        if out.raised:
            return False
        f = out.st.get(self.stream).fields
        return (f.get("_gen") == self.gen and f.get("buffered") is False and is_partial_next(out.st, f.get("_next"), self.gen)
                and self.gen_untouched(out) and self.only_written(out, {"buffered", "_next"}))

    posts = [("disable", p_disable)]


class EnableBuffering(StreamObj):
    target = "jinja2.environment:TemplateStream.enable_buffering"

    def __init__(self):
        VC.__init__(self, "C10", "C10.TemplateStream.enable_buffering")

    def configure_more(self, I):
        c = self

        def bg(I_, st, args, kwargs, node):
            it = st.alloc(HIter(A.sseq(st, "chunks", "str"), 0, tag="generator"))
            A.call_event(st, "_buffered_generator", args, kwargs, it, node)
            return [(st, it)]

        I.specs["TemplateStream._buffered_generator"] = bg

    def setup(self, I, st):
        p = st.alloc(HObj(functools.partial, fields={"func": next, "args": ()}), initial=True)
        self.mk_stream(st, buffered=False)
        st.get(p).fields["args"] = (self.gen,)
        st.get(self.stream).fields["_next"] = p
        self.p0 = p
        self.size = sym("size", "int")
        return [self.stream, self.size], {}

    def p_guard(self, pre, out):
        """size <= 1 raises ValueError and leaves the stream as it was"""
        if out.raised:
            if out.value.cls is not ValueError or A.calls(out, "_buffered_generator"):
                return False
            f = out.st.get(self.stream).fields
            if f.get("buffered") is not False or f.get("_next") != self.p0 or not self.only_written(out, set()):
                return False
            return self.size.t <= 1
        return self.size.t >= 2

    def p_enable(self, pre, out):
        """afterwards the stream is buffered and its next item is the next chunk of _buffered_generator(size)"""
        if out.raised:
            return None
        f = out.st.get(self.stream).fields
        ev = A.calls(out, "_buffered_generator")
        if len(ev) != 1 or len(ev[0].args) + len(ev[0].kwargs) != 2 or ev[0].args[0] != self.stream:
            return False
        sz = ev[0].args[1] if len(ev[0].args) > 1 else ev[0].kwargs.get("size")
        if not isinstance(sz, Sym) or sz.k != "int":
            return False
        if not (f.get("buffered") is True and f.get("_gen") == self.gen and is_partial_next(out.st, f.get("_next"), ev[0].result)
                and self.gen_untouched(out) and self.only_written(out, {"buffered", "_next"})):
            return False
        return sz.t == self.size.t

    posts = [("guard", p_guard), ("enable", p_enable)]


class StreamNext(StreamObj):
    """__next__ returns the next item of whatever `_next` is bound to (the generator itself when
    unbuffered, the chunk generator when buffered): iterating a stream yields that sequence in order"""
    target = "jinja2.environment:TemplateStream.__next__"

    def __init__(self):
        VC.__init__(self, "C10", "C10.TemplateStream.__next__")

    def setup(self, I, st):
        self.X = A.sseq(st, "X", "str")
        self.kx = z3.Int("xcursor0")
        st.assume(0 <= self.kx, self.kx <= self.X.n)
        self.src = st.alloc(HIter(self.X, Sym(self.kx, "int"), tag="generator"), initial=True)
        p = st.alloc(HObj(functools.partial, fields={"func": next, "args": (self.src,)}), initial=True)
        self.mk_stream(st, buffered=sym("buffered", "bool"), _next=p)
        return [self.stream], {}

    def p_next(self, pre, out):
        cur = to_term(out.st.get(self.src).cursor, "int")
        if not (self.gen_untouched(out) and self.only_written(out, set())):
            return False
        if out.raised:
            if out.value.cls is not StopIteration:
                return False
            return z3.And(self.kx == self.X.n, cur == self.kx)
        v = out.value
        if not (isinstance(v, Sym) and v.k == "str"):
            return False
        return z3.And(self.kx < self.X.n, v.t == z3.Select(self.X.arr, self.kx), cur == self.kx + 1)

    posts = [("next", p_next)]
# =====================================================================================
# TemplateStream.dump
# =====================================================================================

from pyvc.smt import str2obj  # noqa: E402

ENC = z3.Function("str_encode", S_, Obj, Obj, Obj)  # x.encode(encoding, errors)
ArrO = z3.ArraySort(I_, Obj)
# dependency spec of the codecs, for the decoded view of the bytes dump writes to a binary target:
BTEXT = z3.Function("bytes_text", ArrO, I_, I_, Obj, S_)    # b"".join(items[lo:hi]).decode(encoding)
DEC_ITEM = z3.Function("decode_item", Obj, Obj, S_)         # item.decode(encoding)
STATEFUL_CODECS = ("utf-16", "utf-32", "utf-8-sig")
# the codec law is assumed only for codecs whose IncrementalEncoder is a correct incremental encoder:
LAWFUL = z3.Function("lawful_incremental_encoder", Obj, z3.BoolSort())
# stdlib codecs for which the law is known to be FALSE (C10.bounded.dump_codec_sweep finds them by itself):
UNLAWFUL_CODECS = ("punycode",)


def RT(x, e, r):
    """x.encode(e, r).decode(e): what the codec/error mode keeps of a text"""
    return DEC_ITEM(ENC(x, e, r), e)


def btext_ext(A, a, hiA, B, b, hiB, e):
    """BTEXT depends only on the items of the slice (extensionality, part of its definition)"""
    j = z3.Int(fresh_name("ext"))
    same = z3.ForAll([j], z3.Implies(z3.And(0 <= j, j < hiA - a), z3.Select(A, a + j) == z3.Select(B, b + j)))
    return z3.Implies(z3.And(hiA - a == hiB - b, same), BTEXT(A, a, hiA, e) == BTEXT(B, b, hiB, e))


def seq_obj(seqv, j):
    x = z3.Select(seqv.arr, j)
    return str2obj(x) if seqv.k == "str" else x


class _IncEncFactory:
    """model class: the value of codecs.getincrementalencoder(encoding)"""


class _IncEnc:
    """model class: an incremental encoder.  Ghost fields: log (every output so far, in order),
    fed (the concatenation of every input so far), final (a final call was made)"""


class Dump(C10VC):
    """dump(fp, encoding, errors) over the abstract item sequence S of the stream.
    File model: an object with abstract content (a list); write(x) appends x, writelines(it)
    appends the items of it in order, both may fail with OSError; open(path, mode) gives a new
    empty file with writelines or fails with OSError; x.encode(e, r) is an uninterpreted function
    that may fail with UnicodeError.  Binary targets: the nested generator encoded() is executed from
    the real source (its yields go to a ghost sequence, loop invariant on its for loop); the incremental
    encoder is a dependency spec with ONE law, for every codec: the outputs up to and including the final
    flush, concatenated, decode to what the encoding of the concatenation of the inputs decodes to."""
    target = "jinja2.environment:TemplateStream.dump"
    timeout_quick = 20000

    def __init__(self, kind, with_encoding):
        self.kind, self.with_encoding = kind, with_encoding
        VC.__init__(self, "C10", f"C10.TemplateStream.dump[{kind},{'encoding' if with_encoding else 'no encoding'}]")

    def native_family(self):
        for pat in ("", "1", "101", "0110"):
            for enc, errors in ((None, "strict"), (None, "replace"), ("utf-8", "strict"), ("ascii", "replace"),
                                ("utf-16-le", "strict"), ("ascii", "strict"), ("latin-1", "replace")):
                if (enc is not None) != self.with_encoding:
                    continue
                for buffered in (False, True):
                    for na in (False, True, "surrogate"):
                        yield {"entry": "dump", "pattern": pat, "target": self.kind, "encoding": enc, "errors": errors,
                               "buffered": buffered, "size": 2, "nonascii": na}
        if self.with_encoding:
            # stateful codecs last: a refutation whose first failing input is one of these is the known finding
            for pat in ("11", "101"):
                for enc in STATEFUL_CODECS:
                    for buffered in (False, True):
                        yield {"entry": "dump", "pattern": pat, "target": self.kind, "encoding": enc, "errors": "strict",
                               "buffered": buffered, "size": 2, "nonascii": False}
            # ... and last of all the stdlib codec(s) whose IncrementalEncoder is not incremental
            for enc in UNLAWFUL_CODECS:
                yield {"entry": "dump", "pattern": "11", "target": self.kind, "encoding": enc, "errors": "strict",
                       "buffered": False, "size": 2, "nonascii": False}

    def finding_key(self, res):
        w = res.witness or {}
        if w.get("encoding") in UNLAWFUL_CODECS:
            return str(w.get("encoding"))
        if w.get("encoding") in STATEFUL_CODECS:
            return "stateful-encoding"
        return str(w.get("encoding"))

    def run(self, tier, seed):
        rs = super().run(tier, seed)
        # The unconditional clause `text` is expected to be refuted (punycode): the solver has to produce a model of a
        # quantified path condition for that, which it sometimes gives up on.  A solver "unknown" on that clause is then
        # decided by the real code: a failing input found by the statement's oracle refutes it (never the other way round).
        undecided = [r for r in rs if r.status == "unknown" and ".text#" in r.name]
        if undecided:
            w = None
            for cand in self.native_family():
                try:
                    bad = native_check(cand)
                except Exception as ex:  # noqa
                    bad = f"crash: {ex!r}"
                if bad:
                    w = cand
                    break
            if w is not None:
                for r in undecided:
                    r.status, r.witness = "refuted", w
                    r.detail = "solver undecided; refuted by a failing input found on the real code: " + str(bad)[:300]
        for r in rs:
            # an implementation that does not use an incremental encoder is outside the codec law this contract
            # assumes: without a natively failing input the honest verdict is "undecided", not "violated"
            if (r.status == "refuted" and r.witness is None and (".text#" in r.name or ".text_lawful_codec#" in r.name)
                    and "structural predicate" in (r.detail or "")):
                r.status = "unknown"
                r.detail = ("no incremental encoder on this path: the assumed codec law does not relate the written bytes to the "
                            "text, and no failing input was found on the real code")
        return rs

    # ---- file model ------------------------------------------------------------------------
    def content(self, st, f):
        return st.get(st.get(f).fields["content"])

    def configure(self, I):
        c = self
        orig = I.as_sseq

        def as_sseq(st, v, node):
            if isinstance(v, Ref) and v == c.stream:
                return c.S  # iterating the stream yields its items (C10.TemplateStream.__next__)
            return orig(st, v, node)

        I.as_sseq = as_sseq

        def fail(st, name, args, node, cls=OSError):
            s = st.fork()
            e = Exc(cls, (), tag=name, origin=getattr(node, "lineno", None))
            A.call_event(s, name, args, {}, e, node)
            return (s, Raised(e))

        def open_spec(I_, st, args, kwargs, node):
            out = [fail(st, "open", args, node)]
            arr0 = z3.Const(fresh_name("newfile"), ArrO)
            cont = st.alloc(HList(arr=arr0, n=z3.IntVal(0), k="obj"))
            f = st.alloc(HObj(_FileWL, fields={"content": cont}))
            st.ghost["file"] = f
            st.ghost["file_arr0"] = arr0
            st.trace.append(Event("call", "open", args, kwargs, f, lineno=getattr(node, "lineno", None)))
            out.append((st, f))
            return out

        I.specs[("fn", id(open))] = open_spec

        def write(I_, st, args, kwargs, node):
            f, x = args
            out = [fail(st, "write", args, node)]
            h = c.content(st, f)
            h.arr = z3.Store(h.arr, h.n, to_term(x, "obj"))
            h.n = h.n + 1
            A.call_event(st, "write", args, kwargs, None, node)
            out.append((st, None))
            return out

        def writelines(I_, st, args, kwargs, node):
            f, it = args
            seqv = I_.as_sseq(st, it, node)
            s1, r1 = fail(st, "writelines", args, node)
            h1 = c.content(s1, f)  # a failing writelines may have written a part
            h1.arr, h1.n = z3.Const(fresh_name("partial"), ArrO), z3.Int(fresh_name("partial_n"))
            h = c.content(st, f)
            na = z3.Const(fresh_name("wl"), ArrO)
            j = z3.Int(fresh_name("j"))
            st.assume(z3.ForAll([j], z3.Implies(z3.And(0 <= j, j < h.n), z3.Select(na, j) == z3.Select(h.arr, j))))
            st.assume(z3.ForAll([j], z3.Implies(z3.And(0 <= j, j < seqv.n), z3.Select(na, h.n + j) == seq_obj(seqv, j))))
            h.arr, h.n = na, h.n + seqv.n
            A.call_event(st, "writelines", args, kwargs, None, node)
            return [(s1, r1), (st, None)]

        def close(I_, st, args, kwargs, node):
            A.call_event(st, "close", args, kwargs, None, node)
            return [(st, None)]

        I.specs["_FileWL.write"] = write
        I.specs["_FileNoWL.write"] = write
        I.specs["_FileWL.writelines"] = writelines
        I.specs["_FileWL.close"] = close
        I.specs["_FileNoWL.close"] = close

        def encode(I_, st, args, kwargs, node):
            x = args[0]
            enc = args[1] if len(args) > 1 else kwargs.get("encoding", "utf-8")
            err = args[2] if len(args) > 2 else kwargs.get("errors", "strict")
            s1 = st.fork()
            e = Exc(UnicodeEncodeError, (), tag="encode", origin=getattr(node, "lineno", None))
            v = Sym(ENC(to_term(x, "str"), to_term(enc, "obj"), to_term(err, "obj")), "obj")
            return [(s1, Raised(e)), (st, v)]

        I.specs["str.encode"] = encode

        # -- codecs.getincrementalencoder(encoding)(errors) / .encode(x) / .encode("", final=True) ----------------
        import codecs

        def get_inc(I_, st, args, kwargs, node):
            out = [fail(st, "codec", args, node, LookupError)]  # unknown codec name
            out.append((st, st.alloc(HObj(_IncEncFactory, fields={"e": args[0]}))))
            return out

        I.specs[("fn", id(codecs.getincrementalencoder))] = get_inc

        def inc_new(I_, st, args, kwargs, node):
            fac = st.get(args[0])
            r = args[1] if len(args) > 1 else kwargs.get("errors", "strict")
            log = st.alloc(HList(arr=z3.Const(fresh_name("enclog"), ArrO), n=z3.IntVal(0), k="obj"))
            enc = st.alloc(HObj(_IncEnc, fields={"e": fac.fields["e"], "r": r, "log": log, "fed": "", "final": False}))
            st.ghost["enc"] = enc
            return [(st, enc)]

        I.specs["_IncEncFactory.__call__"] = inc_new

        def inc_encode(I_, st, args, kwargs, node):
            """IncrementalEncoder.encode(x, final=False).  CODEC LAW (assumed, every codec, stateful or not; cross-checked
            natively by C10.spec.incremental_encoder and, over every text codec of the stdlib, by
            C10.bounded.dump_codec_sweep): FOR A CODEC WHOSE IncrementalEncoder IS A CORRECT INCREMENTAL ENCODER
            (LAWFUL), the concatenation of all outputs up to and including the final call decodes to what the
            encoding of the concatenation of all inputs decodes to.  Known false for: punycode."""
            enc, x = args[0], args[1]
            final = args[2] if len(args) > 2 else kwargs.get("final", False)
            if not isinstance(final, bool):
                raise Unsupported("incremental encode with a symbolic `final`", node)
            s1 = st.fork()
            ex = Exc(UnicodeEncodeError, (), tag="encode", origin=getattr(node, "lineno", None))
            h = st.get(enc)
            if h.fields["final"]:
                raise Unsupported("incremental encoder used after its final call", node)
            w = fresh("encout", "obj")
            L = st.get(h.fields["log"])
            L.arr, L.n = z3.Store(L.arr, L.n, w.t), L.n + 1
            fed = I_.concat_strs([h.fields["fed"], x])
            h.fields["fed"] = fed
            if final:
                h.fields["final"] = True
                e_t, r_t = to_term(h.fields["e"], "obj"), to_term(h.fields["r"], "obj")
                st.assume(z3.Implies(LAWFUL(e_t), BTEXT(L.arr, z3.IntVal(0), L.n, e_t) == RT(to_term(fed, "str"), e_t, r_t)))
            return [(s1, Raised(ex)), (st, w)]

        I.specs["_IncEnc.encode"] = inc_encode

        def unknown_call(I_, st, fn, args, kwargs, node):
            """dump may delegate to helpers of the package: they are executed from their real source.  A MEMOISED helper
            (functools.lru_cache / cache) may hand out the object created by an earlier call: whatever mutable object it
            returns is then in an arbitrary state (for an encoder: already fed, its earlier outputs written elsewhere)."""
            import types
            inner = getattr(fn, "__wrapped__", None)
            memo = inner is not None and hasattr(fn, "cache_info")
            target_fn = inner if memo else fn
            if not (isinstance(target_fn, types.FunctionType) and I_.is_repo(target_fn)):
                return None
            clo = I_.closure_of_function(target_fn)
            out = []
            for s, v in I_.call_closure(st, clo, list(args), dict(kwargs), node):
                out.append((s, v))
                if memo and isinstance(v, Ref) and isinstance(s.get(v), HObj) and s.get(v).cls is _IncEnc:
                    s2 = s.fork()
                    h = s2.get(v)
                    L = s2.get(h.fields["log"])
                    L.arr, L.n = z3.Const(fresh_name("stale_log"), ArrO), z3.Int(fresh_name("stale_log_n"))
                    s2.assume(L.n >= 0)
                    h.fields["fed"] = fresh("stale_fed", "str")
                    s2.ghost["enc_stale"] = getattr(target_fn, "__qualname__", "?")
                    out.append((s2, v))
            return out

        I.on_unknown_call = unknown_call

        # -- the nested generator encoded(): its yields are collected in a ghost sequence ----------------------------
        def ev_yield(e, st, fr):
            def f(s, v):
                arr, n = s.ghost["out"]
                s.ghost["out"] = (z3.Store(arr, n, to_term(v, "obj")), n + 1)
                s.yields.append(v)
                return [(s, None)]

            return seq(I.ev(e.value, st, fr), f)

        I.ev_Yield = ev_yield
        orig_call_generator = I.call_generator

        def call_generator(st, clo, fr, node):
            st.ghost["out"] = (z3.Const(fresh_name("genout"), ArrO), z3.IntVal(0))
            res = []
            for s, v in orig_call_generator(st, clo, fr, node):
                if not isinstance(v, Raised):
                    arr, n = s.ghost["out"]
                    v = s.alloc(HIter(SSeq(arr, n, "obj"), 0, tag="generator"))
                res.append((s, v))
            return res

        I.call_generator = call_generator

        def gen_inv(ctx):
            """k pieces consumed: k outputs yielded, they are the encoder's outputs so far, the encoder was fed S[0:k]"""
            st = ctx.st
            h = st.get(st.ghost["enc"])
            L = st.get(h.fields["log"])
            oarr, on = st.ghost["out"]
            j = z3.Int(fresh_name("gj"))
            for idx in (ctx.k - 1, ctx.k):  # instances of the definition of JOIN around k
                st.assume(z3.Implies(idx >= 0, z3.And(*join_step(c.S.arr, idx))))
            if h.fields["final"] is not False:
                return [z3.BoolVal(False)]
            return [
                on == ctx.k, L.n == ctx.k,
                z3.ForAll([j], z3.Implies(z3.And(0 <= j, j < ctx.k), z3.Select(oarr, j) == z3.Select(L.arr, j))),
                to_term(h.fields["fed"], "str") == JOIN(c.S.arr, ctx.k),
            ]

        def gen_heap(st, local):
            h = st.get(st.ghost["enc"])
            L = st.get(h.fields["log"])
            L.arr, L.n = z3.Const(fresh_name("enclog"), ArrO), z3.Int(fresh_name("enclog_n"))
            h.fields["fed"] = fresh("fed", "str")
            st.ghost["out"] = (z3.Const(fresh_name("genout"), ArrO), z3.Int(fresh_name("genout_n")))

        # the for loops of generators nested in dump (there is one: encoded)
        import ast as _ast
        from pyvc import extract as _extract
        dnode, _m = _extract.function_ast(_extract.resolve(c.target))
        def register_encode_loop(qualname, fnode):
            if not any(isinstance(x, _ast.For) for x in _ast.walk(fnode)):
                return
            stores = {x.id for lp in _ast.walk(fnode) if isinstance(lp, (_ast.For, _ast.While))
                      for x in _ast.walk(lp) if isinstance(x, _ast.Name) and isinstance(x.ctx, _ast.Store)}
            I.loops[(qualname, 0)] = LoopSpec(gen_inv, havoc={nm: "obj" for nm in sorted(stores)}, heap=gen_heap, name="encode_loop")

        # the loop over the stream that feeds the encoder lives in a generator: a closure nested in dump ...
        for sub in _ast.walk(dnode):
            if isinstance(sub, _ast.FunctionDef) and sub is not dnode:
                register_encode_loop(f"TemplateStream.dump.<locals>.{sub.name}", sub)
        # ... or a private generator method of the stream that dump calls (the engine inlines private helpers)
        import types as _types
        for nm, fn in vars(E.TemplateStream).items():
            if isinstance(fn, _types.FunctionType) and nm.startswith("_") and not nm.startswith("__") and nm != "_buffered_generator":
                try:
                    fnode, _m2 = _extract.function_ast(fn)
                except LookupError:
                    continue
                if any(isinstance(x, (_ast.Yield, _ast.YieldFrom)) for x in _ast.walk(fnode)):
                    register_encode_loop(f"TemplateStream.{nm}", fnode)

        def inv(ctx):
            st = ctx.st
            f = st.ghost["file"]
            h = c.content(st, f)
            h0 = c.content(ctx.entry, f)
            j = z3.Int(fresh_name("wj"))
            out = [
                h.n == h0.n + ctx.k,
                z3.ForAll([j], z3.Implies(z3.And(0 <= j, j < h0.n), z3.Select(h.arr, j) == z3.Select(h0.arr, j))),
                z3.ForAll([j], z3.Implies(z3.And(0 <= j, j < ctx.k), z3.Select(h.arr, h0.n + j) == seq_obj(ctx.seq, j))),
            ]
            return out

        def heap(st, local):
            h = c.content(st, st.ghost["file"])
            h.arr, h.n = z3.Const(fresh_name("fc"), ArrO), z3.Int(fresh_name("fc_n"))

        I.loops[("TemplateStream.dump", 0)] = LoopSpec(inv, havoc={}, heap=heap, name="write_loop")

    # ---- pre-state -----------------------------------------------------------------------------
    def setup(self, I, st):
        self.S = A.sseq(st, "S", "str")
        self.stream = A.obj(st, E.TemplateStream, "self")
        self.errors = sym("errors", "str")
        self.encoding = sym("encoding", "str") if self.with_encoding else None
        # a str object is not the None object (the engine compares a str term with None through str2obj)
        for v in (self.errors, self.encoding):
            if v is not None:
                st.assume(str2obj(v.t) != host_const(None))
        # the codec the file is to be read back with, and the error mode (None: text-mode target)
        self.r_term = str2obj(self.errors.t)
        if self.with_encoding:
            self.e_term = str2obj(self.encoding.t)
        elif self.kind == "path":
            self.e_term = str2obj(z3.StringVal("utf-8"))
            st.assume(LAWFUL(self.e_term))  # codec table: utf-8's incremental encoder obeys the law (C10.spec.incremental_encoder[utf-8,strict])
        else:
            self.e_term = None
        if self.e_term is not None:
            whole = JOIN(self.S.arr, self.S.n)
            st.assume(*join_base(self.S.arr))
            # a strict encode that succeeds is lossless
            st.assume(z3.Implies(self.errors.t == z3.StringVal("strict"), RT(whole, self.e_term, self.r_term) == whole))
        if self.kind == "path":
            self.fp = sym("path", "str")
            self.file0 = None
        else:
            c0 = A.alist(st, "C0", "obj")
            self.c0 = c0
            h = st.get(c0)
            self.c0_arr, self.c0_n = h.arr, h.n
            self.fp = st.alloc(HObj(_FileWL if self.kind == "wl" else _FileNoWL, fields={"content": c0}), initial=True)
            st.ghost["file"] = self.fp
        return [self.stream, self.fp, self.encoding, self.errors], {}

    # ---- postconditions --------------------------------------------------------------------------
    def opened(self, out):
        ev = A.calls(out, "open")
        return [e.result for e in ev if isinstance(e.result, Ref)]

    def p_open(self, pre, out):
        """a path is opened once, for binary writing; a file object is used as it is"""
        ev = A.calls(out, "open")
        if self.kind != "path":
            return not ev
        if len(ev) != 1:
            return False
        bound = dict(zip(["file", "mode"], ev[0].args))
        if len(ev[0].args) > 2 or set(bound) & set(ev[0].kwargs):
            return False
        bound.update(ev[0].kwargs)
        return bound.keys() == {"file", "mode"} and bound["file"] is self.fp and bound["mode"] == "wb"

    def p_close(self, pre, out):
        """dump closes exactly the file it opened, on every path, after the last write; never a file it was given"""
        cl = A.calls(out, "close")
        op = self.opened(out)
        if not op:
            return not cl
        if len(cl) != 1 or cl[0].args[0] != op[0]:
            return False
        names = [e.name for e in out.st.trace if e.kind == "call" and e.name in ("write", "writelines", "close")]
        return names[-1] == "close"

    def _target(self, out):
        if self.kind == "path":
            op = self.opened(out)
            if len(op) != 1:
                return None
            return op[0], z3.IntVal(0), out.st.ghost["file_arr0"]
        return self.fp, self.c0_n, self.c0_arr

    def p_content(self, pre, out):
        """text-mode target: on return the file holds what it held before followed by the items, in order.
        binary target: what it held before is untouched"""
        if out.raised:
            return None
        tg = self._target(out)
        if tg is None:
            return False
        f, n0, arr0 = tg
        h = self.content(out.st, f)
        j = z3.Int(fresh_name("pj"))
        fs = [z3.ForAll([j], z3.Implies(z3.And(0 <= j, j < n0), z3.Select(h.arr, j) == z3.Select(arr0, j))), h.n >= n0]
        if self.e_term is None:
            fs += [h.n == n0 + self.S.n,
                   z3.ForAll([j], z3.Implies(z3.And(0 <= j, j < self.S.n), z3.Select(h.arr, n0 + j) == str2obj(z3.Select(self.S.arr, j))))]
        return z3.And(*fs)

    def p_text(self, pre, out, lawful_only=False):
        """THE STATEMENT: the bytes dump wrote, decoded with the encoding, are the concatenation of the pieces
        (for a lossy error mode: what encoding the whole text keeps of it) - for EVERY codec.  dump trusts the
        codec's IncrementalEncoder, so this is refuted for a codec whose incremental encoder is not one (punycode)"""
        if out.raised or self.e_term is None:
            return None
        tg = self._target(out)
        enc = out.st.ghost.get("enc")
        if tg is None or enc is None:
            return False  # no incremental encoder on this path: nothing relates the written bytes to the text
        f, n0, arr0 = tg
        h = self.content(out.st, f)
        L = out.st.get(out.st.get(enc).fields["log"])
        e, r = self.e_term, self.r_term
        T = BTEXT(h.arr, n0, h.n, e)
        whole = JOIN(self.S.arr, self.S.n)
        goal = z3.And(T == RT(whole, e, r), z3.Implies(self.errors.t == z3.StringVal("strict"), T == whole))
        g = z3.Implies(btext_ext(h.arr, n0, h.n, L.arr, z3.IntVal(0), L.n, e), goal)
        return z3.Implies(LAWFUL(e), g) if lawful_only else g

    def p_text_lawful(self, pre, out):
        """... proved for every codec whose IncrementalEncoder obeys the codec law (every text codec of the stdlib
        except punycode, see C10.bounded.dump_codec_sweep)"""
        return self.p_text(pre, out, lawful_only=True)

    def p_fresh_encoder(self, pre, out):
        """the encoder of a dump() call is created by that call (`codecs.getincrementalencoder(enc)(errors)` evaluated
        during the call, nothing fed to it before): no encoder state outlives a call"""
        if self.e_term is None:
            return None
        return not out.st.ghost.get("enc_stale")

    def p_exceptions(self, pre, out):
        """dump adds no failure of its own"""
        if out.returned:
            return True
        return out.value.tag in ("open", "write", "writelines", "encode", "codec")

    posts = [("open", p_open), ("close", p_close), ("content", p_content), ("text", p_text),
             ("text_lawful_codec", p_text_lawful), ("fresh_encoder", p_fresh_encoder), ("exceptions", p_exceptions)]


DUMPS = [Dump(k, e) for k in ("path", "wl", "nowl") for e in (False, True)]
# =====================================================================================
# tables, dependency-spec cross-check, bounded stand-ins (REAL code, never counted as proved)
# =====================================================================================

def table_concat(task, tier, seed):
    """every `concat` the entry points use is the builtin "".join (the meaning of JOIN)"""
    rs = []
    for name, fn in (("Environment.concat", jinja2.Environment.__dict__.get("concat")),
                     ("environment.concat", E.__dict__.get("concat")), ("utils.concat", U.__dict__.get("concat"))):
        ok = (type(fn).__name__ == "builtin_function_or_method" and getattr(fn, "__name__", None) == "join"
              and isinstance(getattr(fn, "__self__", None), str) and fn.__self__ == "")
        rs.append(Res(f"C10.tables.concat_is_join[{name}]", "discharged" if ok else "refuted", "table", 0.0,
                      "" if ok else f"{name} is {fn!r}, not ''.join", "table", None if ok else {"entry": "table", "name": name}))
    return rs


def replay_table(w):
    rs = table_concat(None, "quick", 0)
    bad = [r for r in rs if r.status == "refuted"]
    return bool(bad), "; ".join(r.detail for r in bad) or "every concat is ''.join"


def join_facts_crosscheck(task, tier, seed):
    """the join facts assumed of JOIN / the definition of NE, checked on the real "".join"""
    import random
    rnd = random.Random(seed)
    n = 300 if tier == "quick" else 5000
    t0 = time.time()
    alphabet = ["", "", "a", "bc", "é", "<x>", " "]
    for _ in range(n):
        a = [rnd.choice(alphabet) for _ in range(rnd.randrange(0, 9))]
        p = rnd.randrange(0, len(a) + 1)
        m = rnd.randrange(0, len(a) - p + 1)
        b = a[p:p + m]
        J = lambda k: "".join(a[:k])  # noqa: E731
        ok = J(0) == "" and J(p) + "".join(b) == J(p + m) and all(J(k + 1) == J(k) + a[k] for k in range(len(a)))
        ok = ok and E.concat(iter(a)) == J(len(a)) and jinja2.Environment.concat(x for x in a) == J(len(a))
        if not ok:
            return [Res("C10.spec.join_facts", "refuted", "native", time.time() - t0, f"join facts fail on {a!r}", "bounded", {"entry": "join", "a": a})]
    task.bound_text = f"{n} random sequences of up to 8 pieces over {alphabet!r}"
    task.stats = {"cases": n}
    return [Res("C10.spec.join_facts", "bounded-ok", "native", time.time() - t0, f"{n} random sequences", "bounded")]


def bounded_buffered(task, tier, seed):
    """stand-in for C10.buffered on the real code: all inputs of up to L pieces (each empty or
    non-empty), all sizes, through the public API (enable_buffering + iteration) and the generator"""
    L, sizes = (7, range(2, 6)) if tier == "quick" else (11, range(2, 9))
    t0 = time.time()
    rs = []
    cases = 0
    for size in sizes:
        bad = None
        for n in range(0, L + 1):
            for pat in itertools.product("01", repeat=n):
                pattern = "".join(pat)
                pieces = pieces_from_pattern(pattern)
                cases += 1
                s = E.TemplateStream(iter(list(pieces)))
                s.enable_buffering(size)
                chunks = list(itertools.islice(s, len(pieces) + 2))
                d = chunk_oracle(pieces, size, chunks) or (None if chunks == native_buffered(pieces, size) else "public API and generator disagree")
                if d:
                    bad = ({"pattern": pattern, "size": size}, d)
                    break
            if bad:
                break
        if bad:
            rs.append(Res(f"C10.bounded.buffered[size={size}]", "refuted", "native", time.time() - t0, bad[1], "bounded", bad[0]))
        else:
            rs.append(Res(f"C10.bounded.buffered[size={size}]", "bounded-ok", "native", time.time() - t0,
                          f"all {2 ** (L + 1) - 1} inputs of up to {L} pieces", "bounded"))
    task.bound_text = f"all input sequences of up to {L} pieces (each empty or non-empty), sizes {sizes.start}..{sizes.stop - 1}"
    task.stats = {"cases": cases}
    return rs


E2E_TEMPLATES = {
    "base.html": "<h>{% block title %}T{% endblock %}</h>{% block body %}base{{ x }}{% endblock %}",
    "child.html": "{% extends 'base.html' %}{% block body %}child {{ super() }} {% for i in seq %}{{ i }},{% endfor %}{% endblock %}",
    "inc.html": "[{{ x }}|{% if y %}{{ y }}{% endif %}]",
    "lib.html": "{% macro m(a) %}<{{ a }}>{% endmacro %}lib-top",
    "main.html": "{% import 'lib.html' as lib %}{% include 'inc.html' %}{{ lib.m(x) }}{% for i in seq %}{% include 'inc.html' %}{{ '' }}{% endfor %}",
    "empty.html": "",
    "text.html": "just text é€",
    "empties.html": "{{ '' }}{{ '' }}x{{ '' }}{{ y }}{{ '' }}",
    "only_empties.html": "{% for i in seq %}{{ '' }}{% endfor %}",
    "loop.html": "{% for i in seq %}{{ i }}{% if not loop.last %}{{ y }}{% endif %}{% endfor %}",
    "from.html": "{% from 'lib.html' import m %}{{ m(y) }}{{ m(x) }}",
}
E2E_DATA = [
    {"x": "é<", "y": "", "seq": []},
    {"x": 1, "y": "Y", "seq": [1, 2, 3, "", "€", 6, 7]},
]


def e2e_case(name, data, sizes):
    """-> None | description; every entry point on one real template"""
    from jinja2 import DictLoader
    env = jinja2.Environment(loader=DictLoader(E2E_TEMPLATES))
    t = env.get_template(name)
    text = t.render(data)
    if t.render(**data) != text:
        return "render(dict) != render(**kwargs)"
    pieces = list(t.generate(data))
    if "".join(pieces) != text:
        return f"generate: {''.join(pieces)!r} != render {text!r}"
    if list(t.stream(data)) != pieces:
        return "unbuffered stream differs from generate"
    for size in sizes:
        s = t.stream(data)
        s.enable_buffering(size)
        chunks = list(itertools.islice(s, len(pieces) + 2))  # a non-terminating stream is cut (and rejected below)
        d = chunk_oracle(pieces, size, chunks)
        if d:
            return f"stream buffered({size}): {d}"
        if "".join(chunks) != text:
            return f"stream buffered({size}) text differs"
    if str(t.make_module(data)) != text or str(t.make_module(data).__html__()) != text:
        return "str(module) differs from render"
    for size in (None,) + tuple(sizes[:2]):
        for enc in (None, "utf-8"):
            f = _FileWL() if size is None else _FileNoWL()
            s = t.stream(data)
            if size:
                s.enable_buffering(size)
            s.dump(f, enc)
            got = f.items[1:]
            j = b"".join(got).decode("utf-8") if enc else "".join(got)
            if j != text or f.closed:
                return f"dump(file object, encoding={enc}, buffer={size}) wrote {j!r}"
        d = scratch_dir()
        try:
            path = os.path.join(d, "o")
            s = t.stream(data)
            if size:
                s.enable_buffering(size)
            s.dump(path)
            if open(path, "rb").read().decode("utf-8") != text:
                return f"dump(path, buffer={size}) differs"
        finally:
            pass
    return None


def bounded_e2e(task, tier, seed):
    sizes = tuple(range(2, 9))
    t0 = time.time()
    rs = []
    n = 0
    for name in E2E_TEMPLATES:
        for di, data in enumerate(E2E_DATA):
            n += 1
            try:
                d = e2e_case(name, data, sizes)
            except Exception as ex:  # noqa
                d = f"crash {ex!r}"
            nm = f"C10.bounded.entrypoints[{name},data{di}]"
            if d:
                rs.append(Res(nm, "refuted", "native", time.time() - t0, d, "bounded", {"entry": "e2e", "template": name, "data": di}))
            else:
                rs.append(Res(nm, "bounded-ok", "native", time.time() - t0, "render = generate = stream(2..8) = dump = str(module)", "bounded"))
    task.bound_text = (f"{len(E2E_TEMPLATES)} real templates (extends/include/import/from-import/loops/empty pieces) x {len(E2E_DATA)} data sets, "
                       "buffer sizes 2..8, text and utf-8 dump targets, file objects and paths")
    task.stats = {"cases": n}
    return rs


DUMP_CODECS = [("utf-8", "strict"), ("latin-1", "replace"), ("ascii", "replace"), ("ascii", "ignore"),
               ("ascii", "xmlcharrefreplace"), ("ascii", "backslashreplace"), ("utf-16-le", "strict"),
               ("utf-16", "strict"), ("utf-32", "strict"), ("utf-8-sig", "strict")]
DUMP_PIECES = [[], [""], ["a"], ["a", "b"], ["é", "", "日本", "x"], ["", "p", "", "q", "r", ""], ["<", "é€", ">", "1", "2", "3", "4"]]


def dump_codec_case(enc, errors, pieces, size, target, reps=2):
    """-> None | description: the dumped bytes are the rendered text in that encoding (byte-identical where the
    codec table established it, decoding to it otherwise) - for every dump of a sequence of dumps"""
    if reps > 1:
        for i in range(reps):
            d = dump_codec_case(enc, errors, pieces, size, target, reps=1)
            if d:
                return f"dump #{i + 1} in a row: {d}"
        return None
    text = "".join(pieces)
    want = text.encode(enc, errors).decode(enc)
    s = E.TemplateStream(iter(list(pieces)))
    if size:
        s.enable_buffering(size)
    if target == "path":
        d = scratch_dir()
        try:
            path = os.path.join(d, "o")
            s.dump(path, enc, errors)
            data = open(path, "rb").read()
        finally:
            pass
    else:
        f = _FileWL() if target == "wl" else _FileNoWL()
        s.dump(f, enc, errors)
        data = b"".join(f.items[1:])
    try:
        got = data.decode(enc)
    except UnicodeError as ex:
        return f"the dumped bytes {data!r} do not decode as {enc}: {ex}"
    if got != want:
        return f"dump({target}, {enc!r}, {errors!r}) of pieces {pieces!r} (buffer {size}) decodes to {got!r}, the rendered text is {want!r}"
    if enc not in NOT_BYTE_IDENTICAL and data != text.encode(enc, errors):
        return (f"dump({target}, {enc!r}, {errors!r}) of pieces {pieces!r} (buffer {size}) wrote {data!r}, "
                f"the rendered text in that encoding is {text.encode(enc, errors)!r}")
    return None


def bounded_dump_codecs(task, tier, seed):
    """the statement for encoded dump targets on the real code, per codec"""
    t0 = time.time()
    rs = []
    cases = 0
    for enc, errors in DUMP_CODECS:
        bad = None
        for pieces in DUMP_PIECES:
            for size in (None, 2, 3):
                for target in ("path", "wl", "nowl"):
                    cases += 1
                    try:
                        d = dump_codec_case(enc, errors, pieces, size, target)
                    except Exception as ex:  # noqa
                        d = f"crash {ex!r}"
                    if d and bad is None:
                        bad = ({"entry": "dump_codec", "encoding": enc, "errors": errors, "pieces": pieces, "size": size, "target": target}, d)
        nm = f"C10.bounded.dump_codecs[{enc},{errors}]"
        if bad:
            rs.append(Res(nm, "refuted", "native", time.time() - t0, bad[1], "bounded", bad[0]))
        else:
            rs.append(Res(nm, "bounded-ok", "native", time.time() - t0, f"{len(DUMP_PIECES)} piece lists x unbuffered/2/3 x path/file objects", "bounded"))
    task.bound_text = (f"codecs {[c for c, _ in DUMP_CODECS]} (ascii with 4 error modes), {len(DUMP_PIECES)} piece lists, "
                       "unbuffered and buffer sizes 2, 3, path and both file-object targets")
    task.stats = {"cases": cases}
    return rs


def incremental_encoder_table(task, tier, seed):
    """the codec law assumed of codecs.getincrementalencoder, on the real codecs: the concatenation of the
    incremental outputs followed by the final flush DECODES TO THE SAME TEXT AS "".join(pieces).encode(enc, errors)
    (the form the VC assumes).  Byte equality also holds for every listed codec except CPython's utf-7, whose
    incremental encoder closes its base64 run at every call; the detail says which."""
    import codecs
    import random
    t0 = time.time()
    rnd = random.Random(seed)
    extra = [("utf-7", "strict"), ("iso2022_jp", "replace"), ("utf-16-be", "strict"), ("cp1252", "replace")]
    lists = list(DUMP_PIECES)
    alphabet = ["", "a", "é", "日本", "<x>", "€", "\n", "𝄞"]
    for _ in range(20 if tier == "quick" else 300):
        lists.append([rnd.choice(alphabet) for _ in range(rnd.randrange(0, 9))])
    rs = []
    cases = 0
    for enc, errors in DUMP_CODECS + extra:
        bad = None
        bytes_equal = True
        for pieces in lists:
            cases += 1
            try:
                want = "".join(pieces).encode(enc, errors)
            except UnicodeError:
                continue  # the text is not encodable in this mode: the law says nothing
            e = codecs.getincrementalencoder(enc)(errors)
            got = b"".join(e.encode(p) for p in pieces) + e.encode("", final=True)
            bytes_equal = bytes_equal and got == want
            try:
                same_text = got.decode(enc) == want.decode(enc)
            except UnicodeError:
                same_text = False
            if not same_text and bad is None:
                bad = pieces
        nm = f"C10.spec.incremental_encoder[{enc},{errors}]"
        if bad is not None:
            rs.append(Res(nm, "refuted", "native", time.time() - t0, f"codec law fails for pieces {bad!r}", "bounded",
                          {"entry": "inc_law", "encoding": enc, "errors": errors, "pieces": bad}))
        else:
            rs.append(Res(nm, "bounded-ok", "native", time.time() - t0,
                          f"{len(lists)} piece lists; bytes identical to the one-shot encoding: {bytes_equal}", "bounded"))
    task.bound_text = f"{len(DUMP_CODECS) + len(extra)} codec/error-mode pairs x {len(lists)} piece lists (fixed + random)"
    task.stats = {"cases": cases}
    return rs


SWEEP_PIECES = [["ab", "cd"], ["a", "", "b"], [], [""], ["x", "é"], ["bü", "cher"], ["日本", "語x"], ["<0>", "<1>", "", "<3>"]]


def stdlib_text_codecs():
    import codecs
    import encodings
    import pkgutil
    out = []
    for m in sorted(x.name for x in pkgutil.iter_modules(encodings.__path__)):
        if m == "aliases":
            continue
        try:
            info = codecs.lookup(m)
        except Exception:  # noqa: platform specific (mbcs, oem)
            continue
        if getattr(info, "_is_text_encoding", True):
            out.append(m)
    return out


def sweep_case(enc, pieces, target="path"):
    """-> (None | description, law_holds: bool | None).  Only texts the codec itself round-trips are used."""
    import codecs
    text = "".join(pieces)
    try:
        want = text.encode(enc)
        if want.decode(enc) != text:
            return None, None
    except Exception:  # noqa: the codec cannot encode this text at all
        return None, None
    try:
        e = codecs.getincrementalencoder(enc)()
        inc = b"".join(e.encode(p) for p in pieces) + e.encode("", final=True)
        law = inc.decode(enc) == text
    except Exception:  # noqa
        law = False
    datas = []
    for _ in range(2):  # two dumps in a row
        s = E.TemplateStream(iter(list(pieces)))
        if target == "path":
            d = scratch_dir()
            try:
                path = os.path.join(d, "o")
                s.dump(path, enc)
                datas.append(open(path, "rb").read())
            finally:
                pass
        else:
            f = _FileWL()
            s.dump(f, enc)
            datas.append(b"".join(f.items[1:]))
    for i, data in enumerate(datas):
        try:
            got = data.decode(enc)
        except Exception as ex:  # noqa
            got = f"<{type(ex).__name__}: {ex}>"
        if got != text:
            return (f"dump #{i + 1} in a row: dump({target}, {enc!r}) of pieces {pieces!r} wrote {data!r} which decodes to {got!r}; "
                    f"the rendered text is {text!r} (its encoding is {want!r})"), law
    if datas[0] != datas[1]:
        return f"two dumps in a row of pieces {pieces!r} with {enc!r} differ: {datas[0]!r} then {datas[1]!r}", law
    return None, law


def bounded_codec_sweep(task, tier, seed):
    """the dump statement and the incremental-encoder law over EVERY text codec of the standard library"""
    t0 = time.time()
    rs = []
    cases = 0
    unlawful = []
    names = stdlib_text_codecs()
    for enc in names:
        bad = None
        law_ok = True
        used = 0
        for pieces in (SWEEP_PIECES[:4] if tier == "quick" else SWEEP_PIECES):
            for target in (("path",) if tier == "quick" else ("path", "wl")):
                try:
                    d, law = sweep_case(enc, pieces, target)
                except Exception as ex:  # noqa
                    d, law = f"crash {ex!r}", None
                if law is None and d is None:
                    continue
                used += 1
                cases += 1
                if law is False:
                    law_ok = False
                if d and bad is None:
                    bad = ({"entry": "dump_codec", "encoding": enc, "errors": "strict", "pieces": pieces, "size": None, "target": target, "sweep": True}, d)
        if not used:
            continue
        if not law_ok:
            unlawful.append(enc)
        nm = f"C10.bounded.dump_codec_sweep[{enc}]"
        note = "incremental-encoder law holds" if law_ok else "the codec's IncrementalEncoder VIOLATES the incremental-encoder law"
        if bad:
            rs.append(Res(nm, "refuted", "native", time.time() - t0, bad[1] + " [" + note + "]", "bounded", bad[0]))
        else:
            rs.append(Res(nm, "bounded-ok", "native", time.time() - t0, f"{used} cases; {note}", "bounded"))
    task.bound_text = (f"every text codec of the stdlib `encodings` package usable on this platform ({len(rs)} codecs), "
                       f"{4 if tier == 'quick' else len(SWEEP_PIECES)} piece lists, {'path targets' if tier == 'quick' else 'path and file-object targets'}, two dumps in a row; "
                       f"codecs violating the incremental-encoder law: {unlawful or 'none'}")
    task.stats = {"cases": cases, "codecs": len(rs), "law_violated": unlawful}
    return rs


def dump_codec_key(res):
    """known findings are keyed by the codec"""
    return str((res.witness or {}).get("encoding"))


def replay_bounded(w):
    if w.get("entry") == "inc_law":
        import codecs
        e = codecs.getincrementalencoder(w["encoding"])(w["errors"])
        got = b"".join(e.encode(p) for p in w["pieces"]) + e.encode("", final=True)
        want = "".join(w["pieces"]).encode(w["encoding"], w["errors"])
        return got.decode(w["encoding"]) != want.decode(w["encoding"]), f"incremental {got!r} vs whole {want!r}"
    if w.get("entry") == "dump_codec" and w.get("sweep"):
        d, law = sweep_case(w["encoding"], w["pieces"], w["target"])
        return d is not None, d or "the dumped file decodes to the rendered text"
    if w.get("entry") == "dump_codec":
        try:
            d = dump_codec_case(w["encoding"], w["errors"], w["pieces"], w["size"], w["target"])
        except Exception as ex:  # noqa
            d = f"crash {ex!r}"
        return d is not None, d or "the dumped file decodes to the rendered text"
    if w.get("entry") == "e2e":
        try:
            d = e2e_case(w["template"], E2E_DATA[w["data"]], tuple(range(2, 9)))
        except Exception as ex:  # noqa: the real code crashed on a valid template
            d = f"crash {ex!r}"
        return d is not None, d or "all entry points agree"
    if w.get("entry") == "join":
        a = w["a"]
        ok = all("".join(a[:k + 1]) == "".join(a[:k]) + a[k] for k in range(len(a)))
        return (not ok), "join facts"
    pieces = pieces_from_pattern(w["pattern"])
    size = int(w["size"])
    s = E.TemplateStream(iter(list(pieces)))
    s.enable_buffering(size)
    chunks = list(itertools.islice(s, len(pieces) + 2))
    d = chunk_oracle(pieces, size, chunks)
    return (d is not None, f"enable_buffering({size}) over {pieces!r} -> {chunks!r}: {d or 'as specified'}")


TASKS = (
    [BufferedGenerator()]
    + [Render(a, k) for a, k in SHAPES] + [Generate(a, k) for a, k in SHAPES] + [Stream(a, k) for a, k in SHAPES]
    + [NewContext(), MakeModule(), ModuleInitGiven(), ModuleText("__str__"), ModuleText("__html__"),
       StreamInit(), DisableBuffering(), EnableBuffering(), StreamNext()]
    + DUMPS
    + [FnTask("C10", "C10.tables.concat_is_join", table_concat, "table", replay_table),
       FnTask("C10", "C10.spec.join_facts", join_facts_crosscheck, "bounded", replay_bounded),
       FnTask("C10", "C10.bounded.buffered", bounded_buffered, "bounded", replay_bounded),
       FnTask("C10", "C10.bounded.entrypoints", bounded_e2e, "bounded", replay_bounded),
       FnTask("C10", "C10.bounded.dump_codecs", bounded_dump_codecs, "bounded", replay_bounded),
       FnTask("C10", "C10.spec.incremental_encoder", incremental_encoder_table, "bounded", replay_bounded),
       FnTask("C10", "C10.bounded.dump_codec_sweep", bounded_codec_sweep, "bounded", replay_bounded)]
)
TASKS[-3].finding_key = dump_codec_key
TASKS[-1].finding_key = dump_codec_key

META = {
    "level": "proof",
    "explanation": (
        "Every rendering entry point is put under contract on its real source with the root render function as an abstract callee "
        "returning an iterator over a symbolic sequence R of strings of arbitrary length: render returns environment.concat(R(ctx0)), "
        "generate's concatenation is JOIN(R(ctx0)), stream is an unbuffered TemplateStream over generate with identical arguments, "
        "make_module/TemplateModule store list(R(ctx)) and __str__/__html__ concatenate it, with ctx0 = new_context(dict(*args, **kwargs)) "
        "in all of them; TemplateStream.__next__/enable_buffering/disable_buffering/__init__ are proved against the iterator protocol. "
        "C10.buffered is unbounded: _buffered_generator (real source, two nested while loops, try/except StopIteration as control flow, "
        "yield recorded in a ghost chunk table) is proved with loop invariants for every input sequence, every size >= 1: the chunks are "
        "contiguous segments starting at 0, each the join of its segment, all but the last with exactly `size` non-empty pieces, the last "
        "with 1..size, the uncovered tail consists of empty strings, and the concatenation of the chunks is the concatenation of the "
        "input. dump: for text-mode targets the items are written in order after the prior content; for binary targets the "
        "postcondition is about the DECODED bytes dump wrote: they decode to the concatenation of the pieces (for a lossy error mode, "
        "to what encoding the whole text keeps of it), discharged (clause text_lawful_codec) for every codec whose IncrementalEncoder "
        "obeys the incremental-encoder law, stateful or not: the nested generator encoded() runs from the real source (ghost output "
        "sequence, loop invariant). The unconditional clause `text` is REFUTED on the unchanged tree by the stdlib punycode codec, whose "
        "incremental encoder is not incremental (known finding; a sweep over all 110 stdlib text codecs finds no other). (Before /repo "
        "fff2da6 each piece was encoded separately and this clause was refuted for utf-16/utf-32/utf-8-sig: see known_findings.d/c10.json, fixed.) "
        "dump closes exactly the file it opened on every path. Paper lemma: when R is a function of the context (C29/C30) all five texts equal "
        "JOIN(R(ctx0)). Partial correctness only (termination of the buffering loop is not an obligation; the bounded stand-in runs the "
        "real generator). Bounded stand-ins on the real code are reported separately."),
    "assumptions": [
        "A7: generators are modelled by the sequence they yield; an exception of the render function surfaces where the consumer drives it",
        "call shapes of render/generate/stream: 0..1 positional and 0..2 keyword arguments with symbolic values (the code passes *args/**kwargs through verbatim)",
        "the Context returned by new_context belongs to the environment passed to it (contract of runtime.new_context / Context.__init__)",
        "file model of dump: write appends, writelines appends in order (writelines(it) == for x in it: write(x)), both may raise OSError; open gives a new empty file with writelines or raises OSError; str.encode is an uninterpreted function that may raise UnicodeError (raised eagerly in the model)",
        "codec law, assumed ONLY for a codec whose IncrementalEncoder is a correct incremental encoder (predicate LAWFUL; asserted for the utf-8 default): for enc = codecs.getincrementalencoder(e)(r), the concatenation of enc.encode(x_0) ... enc.encode(x_n-1), enc.encode('', final=True) decodes to the same text as ''.join(x).encode(e, r) (byte-identical too, except utf-7). Checked natively for 14 codec/error-mode pairs (C10.spec.incremental_encoder) and for every text codec of the stdlib usable on this platform, 110 codecs (C10.bounded.dump_codec_sweep). KNOWN FALSE for: punycode (its IncrementalEncoder encodes every call as a complete string) - there the unconditional clause dump[...].text is refuted (known finding, hunt f/C10_1); third-party codecs are not checked. A strict encode that succeeds is lossless; getincrementalencoder may raise LookupError, encode may raise UnicodeEncodeError",
        "helpers of the package that dump calls are executed from their real source; a helper memoised with functools.lru_cache/cache may return the object of an earlier call, so a mutable object it returns (an encoder) is in an arbitrary state: clause fresh_encoder requires the encoder to be created by the dump call itself; the native oracle runs every dump twice in a row and compares bytes with text.encode(enc, errors) (all codecs except utf-7)",
        "for file-object targets the decoded-text clause is about the bytes dump wrote (what the object held before is only required to be untouched)",
        "generate()/render() in async mode belong to C09.entry (render's delegation to asyncio.run(render_async(...)) is checked here; generate is checked in sync mode)",
        "partial correctness: termination is not proved",
    ],
    "trusted_base": [
        "z3 / cvc5", "pyvc symbolic executor (del lst[:] == lst.clear())",
        "dependency spec: ''.join as JOIN with join([])='', join(X+[x]) = join(X)+x, join(X+Y) = join(X)+join(Y) (cross-checked natively: C10.spec.join_facts)",
        "dependency spec: functools.partial(f, a)() == f(a)", "dependency spec: next()/StopIteration on iterators, list(iterator), list.append/clear",
        "dependency spec: dict(*args, **kwargs) as an opaque function of its arguments",
        "dependency spec: markupsafe.Markup(s) is a Markup string with the text of s",
        "dependency spec: codecs.getincrementalencoder / IncrementalEncoder.encode with the codec law above, for lawful codecs only (cross-checked natively: C10.spec.incremental_encoder, C10.bounded.dump_codec_sweep; known false for punycode)",
    ],
}
