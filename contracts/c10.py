"""C10  All rendering entry points produce the same text.

Ghost: R(ctx) = the sequence of strings the root render function yields for a context
(`self.root_render_func(ctx)` is an abstract callee returning an iterator over a symbolic
sequence R of strings of arbitrary length).  Spec vocabulary (pure functions of a sequence):

    JOIN(a, k)  = "".join(a[0:k])            (dependency spec of `concat`, see join facts below)
    NE(a, k)    = |{ j < k : a[j] != "" }|   (number of non-empty pieces among the first k)

Join facts used (all are instances of: join([]) = "", join(X + Y) = join(X) + join(Y), join([x]) = x):
    JOIN(a, 0) = ""        JOIN(a, k+1) = JOIN(a, k) + a[k]
    (forall j < m. b[j] = a[p+j])  =>  JOIN(a, p) + JOIN(b, m) = JOIN(a, p+m)

Obligations
    C10.Template.render       = environment.concat(R(ctx0)),   ctx0 = new_context(dict(*args, **kwargs))
    C10.Template.generate     yields exactly R(ctx0), in order
    C10.Template.stream       = TemplateStream(generate(*args, **kwargs)), unbuffered
    C10.Template.make_module / TemplateModule.__init__ / __str__ / __html__
                              _body_stream = list(R(ctx)),  str/html = concat(_body_stream)
    C10.TemplateStream.__next__ / disable_buffering / enable_buffering
    C10.TemplateStream._buffered_generator   (unbounded: two nested loop invariants)
    C10.TemplateStream.dump   writes the (encoded) items in order, closes only what it opened
Lemma (paper): when R is a function of the context (C29/C30) the five texts are JOIN(R, |R|).
"""
from __future__ import annotations

import functools
import io
import itertools
import os
import tempfile
import time

import z3

from pyvc.contract import VC, Res, FnTask
from pyvc.values import (
    State, Sym, Ref, HObj, HList, HDict, HIter, SSeq, Obj, Exc, Event, BoundMethod,
    fresh, fresh_name, sym, sel, fresh_arr, Unsupported,
)
from pyvc.smt import to_term, model_value, host_const
from pyvc.stmts import LoopSpec
from pyvc.interp import Raised, seq
from pyvc import abstract as A
from pyvc import models

import jinja2
import jinja2.environment as E
import jinja2.utils as U
from jinja2.runtime import Context

I_ = z3.IntSort()
S_ = z3.StringSort()
ArrS = z3.ArraySort(I_, S_)
ArrI = z3.ArraySort(I_, I_)

JOIN = z3.Function("join", ArrS, I_, S_)
NE = z3.Function("nonempty_count", ArrS, I_, I_)
EMPTY = z3.StringVal("")


def join_step(a, k):
    """definitional instance at k of JOIN and NE"""
    x = z3.Select(a, k)
    return [JOIN(a, k + 1) == z3.Concat(JOIN(a, k), x),
            NE(a, k + 1) == NE(a, k) + z3.If(z3.Length(x) > 0, 1, 0)]


def join_base(a):
    return [JOIN(a, 0) == EMPTY, NE(a, 0) == 0]


def join_segment(a, p, b, m):
    """b[0:m] == a[p:p+m]  =>  JOIN(a,p) + JOIN(b,m) == JOIN(a,p+m)   (join is a monoid homomorphism)"""
    j = z3.Int(fresh_name("sg"))
    same = z3.ForAll([j], z3.Implies(z3.And(0 <= j, j < m), z3.Select(b, j) == z3.Select(a, p + j)))
    return z3.Implies(z3.And(same, p >= 0, m >= 0), z3.Concat(JOIN(a, p), JOIN(b, m)) == JOIN(a, p + m))


# =====================================================================================
# native oracle (used by every replay and by the bounded stand-ins): runs the REAL code
# =====================================================================================

def pieces_from_pattern(pattern):
    """'1' = a non-empty piece (pairwise distinct), '0' = the empty string"""
    return [f"<{i}>" if c == "1" else "" for i, c in enumerate(pattern)]


def chunk_oracle(pieces, size, chunks):
    """The statement: chunks are contiguous segments of the input covering it up to a tail of
    empty strings; every chunk but the last combines exactly `size` non-empty pieces, the last 1..size.
    -> None if it holds, else a description."""
    pos = 0
    n = len(pieces)
    for ci, ch in enumerate(chunks):
        # the segment of chunk ci starts at pos; it must end somewhere with join == ch and the right count
        ok = False
        last = ci == len(chunks) - 1
        for end in range(pos, n + 1):
            seg = pieces[pos:end]
            cnt = sum(1 for p in seg if p)
            if "".join(seg) == ch and ((cnt == size) or (last and 1 <= cnt <= size)):
                # pieces are pairwise distinct when non-empty, so the segment is determined up to
                # trailing empties; take the shortest for full chunks, the longest admissible otherwise
                ok = True
                pos = end
                break
        if not ok:
            return f"chunk #{ci} {ch!r} is not a segment starting at piece {pos} with {'1..' if last else ''}{size} non-empty pieces"
    if any(pieces[pos:]):
        return f"pieces {pieces[pos:]!r} after the last chunk are not covered"
    if "".join(chunks) != "".join(pieces):
        return "concatenation of the chunks differs from the concatenation of the pieces"
    return None


def native_buffered(pieces, size):
    s = E.TemplateStream(iter(list(pieces)))
    return list(s._buffered_generator(size))


def search_buffered_counterexample(max_len=7, sizes=(2, 3, 4, 5)):
    for n in range(0, max_len + 1):
        for pat in itertools.product("01", repeat=n):
            pattern = "".join(pat)
            pieces = pieces_from_pattern(pattern)
            for size in sizes:
                try:
                    chunks = native_buffered(pieces, size)
                except Exception as ex:  # noqa
                    return {"pattern": pattern, "size": size}
                if chunk_oracle(pieces, size, chunks) is not None:
                    return {"pattern": pattern, "size": size}
    return None


def replay_buffered(w):
    pieces = pieces_from_pattern(w["pattern"])
    size = int(w["size"])
    try:
        chunks = native_buffered(pieces, size)
    except Exception as ex:  # noqa
        return True, f"_buffered_generator({size}) over {pieces!r} raised {ex!r}"
    d = chunk_oracle(pieces, size, chunks)
    return (d is not None, f"_buffered_generator({size}) over {pieces!r} -> {chunks!r}: {d or 'as specified'}")


# =====================================================================================
# C10.buffered : TemplateStream._buffered_generator, unbounded
# =====================================================================================

class YGhost:
    """Ghost record of the chunks yielded so far: chunk i is the input segment [ys[i], ye[i]) with
    value yv[i]; `text` the concatenation of all yields; `pos` the input index where the next chunk starts."""

    __slots__ = ("ny", "ys", "ye", "yv", "text", "pos")

    def __init__(self, ny, ys, ye, yv, text, pos):
        self.ny, self.ys, self.ye, self.yv, self.text, self.pos = ny, ys, ye, yv, text, pos

    @staticmethod
    def initial():
        return YGhost(z3.IntVal(0), z3.K(I_, z3.IntVal(0)), z3.K(I_, z3.IntVal(0)), z3.K(I_, EMPTY), EMPTY, z3.IntVal(0))

    @staticmethod
    def havoc():
        f = fresh_name
        return YGhost(z3.Int(f("ny")), z3.Const(f("ys"), ArrI), z3.Const(f("ye"), ArrI), z3.Const(f("yv"), ArrS),
                      z3.Const(f("ytext"), S_), z3.Int(f("ypos")))


class BufferedGenerator(VC):
    prop = "C10"
    target = "jinja2.environment:TemplateStream._buffered_generator"
    timeout_quick = 30000
    expect_paths_min = 1

    def __init__(self):
        super().__init__("C10", "C10.TemplateStream._buffered_generator")

    # ---- state access ---------------------------------------------------------------
    def cur(self, st):
        return to_term(st.get(self.gen).cursor, "int")

    def J(self, k):
        return JOIN(self.R.arr, k)

    def N(self, k):
        return NE(self.R.arr, k)

    def cnt(self, Y, i):
        return self.N(z3.Select(Y.ye, i)) - self.N(z3.Select(Y.ys, i))

    def chunk_facts(self, Y, cur, final):
        """facts about the chunks recorded in Y (quantified over the chunk index)"""
        i = z3.Int(fresh_name("ci"))
        n = self.R.n
        ys, ye, yv = (lambda t: z3.Select(Y.ys, t)), (lambda t: z3.Select(Y.ye, t)), (lambda t: z3.Select(Y.yv, t))
        rng = z3.And(0 <= i, i < Y.ny)
        size = self.size.t
        segments = z3.ForAll([i], z3.Implies(rng, z3.And(
            ys(i) == z3.If(i == 0, z3.IntVal(0), ye(i - 1)), ys(i) <= ye(i), 0 <= ys(i), ye(i) <= n)))
        values = z3.ForAll([i], z3.Implies(rng, z3.Concat(self.J(ys(i)), yv(i)) == self.J(ye(i))))
        if final:
            counts = z3.And(
                z3.ForAll([i], z3.Implies(z3.And(0 <= i, i < Y.ny - 1), self.cnt(Y, i) == size)),
                z3.Implies(Y.ny > 0, z3.And(1 <= self.cnt(Y, Y.ny - 1), self.cnt(Y, Y.ny - 1) <= size)))
        else:
            counts = z3.ForAll([i], z3.Implies(rng, z3.Or(
                self.cnt(Y, i) == size,
                z3.And(i == Y.ny - 1, cur == n, 1 <= self.cnt(Y, i), self.cnt(Y, i) <= size))))
        return segments, values, counts

    # ---- engine configuration ---------------------------------------------------------
    def configure(self, I):
        c = self

        def ev_yield(e, st, fr):
            def f(s, v):
                Y = s.ghost["Y"]
                cur = c.cur(s)
                vt = to_term(v, "str")
                s.ghost["Y"] = YGhost(Y.ny + 1, z3.Store(Y.ys, Y.ny, Y.pos), z3.Store(Y.ye, Y.ny, cur),
                                      z3.Store(Y.yv, Y.ny, vt), z3.Concat(Y.text, vt), cur)
                s.yields.append(v)
                s.trace.append(Event("yield", "yield", [v], lineno=e.lineno))
                return [(s, None)]

            return seq(I.ev(e.value, st, fr), f)

        I.ev_Yield = ev_yield

        def next_spec(I_, st, args, kwargs, node):
            it = args[0]
            if not (isinstance(it, Ref) and it == c.gen):
                return models.builtin_next(I_, st, args, kwargs, node)
            before = c.cur(st)
            out = []
            for s, v in models.builtin_next(I_, st, args, kwargs, node):
                if not isinstance(v, Raised):
                    s.assume(*join_step(c.R.arr, before))  # definitions of JOIN / NE at this index
                out.append((s, v))
            return out

        I.specs[("fn", id(next))] = next_spec

        def concat_spec(I_, st, args, kwargs, node):
            arr, n, kind = A.list_terms(st, args[0])
            if kind != "str":
                if isinstance(n, z3.ExprRef) and z3.is_int_value(n) and n.as_long() == 0:
                    arr = z3.K(I_sort, EMPTY)
                else:
                    raise Unsupported("concat of a non-string sequence", node)
            v = Sym(JOIN(arr, n), "str")
            Y = st.ghost["Y"]
            st.assume(join_segment(c.R.arr, Y.pos, arr, n), JOIN(arr, 0) == EMPTY)
            A.call_event(st, "concat", args, kwargs, v, node)
            return [(st, v)]

        I_sort = I_
        I.specs[("fn", id(E.concat))] = concat_spec

        def outer_inv(ctx):
            st = ctx.st
            Y = st.ghost["Y"]
            cur = c.cur(st)
            barr, bn, _ = A.list_terms(st, ctx.local("buf"))
            seg, val, cnts = c.chunk_facts(Y, cur, final=False)
            return [
                bn == 0, to_term(ctx.local("c_size"), "int") == 0, Y.pos == cur, 0 <= cur, cur <= c.R.n,
                Y.ny >= 0, z3.If(Y.ny > 0, z3.Select(Y.ye, Y.ny - 1) == Y.pos, Y.pos == 0),
                seg, val, cnts,
                Y.text == c.J(Y.pos),
            ]

        def outer_heap(st, local):
            c.havoc_buf(st, local)
            st.ghost["Y"] = YGhost.havoc()

        def inner_inv(ctx):
            st = ctx.st
            Y = st.ghost["Y"]
            cur = c.cur(st)
            h = st.get(ctx.local("buf"))
            barr, bn, bk = A.list_terms(st, ctx.local("buf"))
            cs = to_term(ctx.local("c_size"), "int")
            j = z3.Int(fresh_name("bj"))
            out = [
                0 <= Y.pos, Y.pos <= cur, cur <= c.R.n,
                bn == cur - Y.pos,
                cs == c.N(cur) - c.N(Y.pos), 0 <= cs, cs <= c.size.t,
                z3.Implies(cs == 0, c.J(cur) == c.J(Y.pos)),
                z3.ForAll([j], z3.Implies(z3.And(cs == 0, Y.pos <= j, j < cur), z3.Select(c.R.arr, j) == EMPTY)),
            ]
            if bk == "str":
                out.append(z3.ForAll([j], z3.Implies(z3.And(0 <= j, j < bn), z3.Select(barr, j) == z3.Select(c.R.arr, Y.pos + j))))
            return out

        def inner_heap(st, local):
            c.havoc_buf(st, local)

        qn = "TemplateStream._buffered_generator"
        I.loops[(qn, 0)] = LoopSpec(outer_inv, havoc={"c": "str", "c_size": "int"}, heap=outer_heap, name="chunk_loop")
        I.loops[(qn, 1)] = LoopSpec(inner_inv, havoc={"c": "str", "c_size": "int"}, heap=inner_heap, name="fill_loop")

    def havoc_buf(self, st, local):
        h = st.get(local["buf"])
        h.items = None
        h.arr = z3.Const(fresh_name("buf_arr"), ArrS)
        h.n = z3.Int(fresh_name("buf_n"))
        h.k = "str"
        st.assume(h.n >= 0)
        st.get(self.gen).cursor = Sym(z3.Int(fresh_name("cursor")), "int")

    # ---- pre-state ---------------------------------------------------------------------
    def setup(self, I, st):
        self.R = A.sseq(st, "R", "str")
        self.gen = st.alloc(HIter(self.R, 0, tag="generator"), initial=True)
        self.size = sym("size", "int")
        st.assume(self.size.t >= 1)
        st.assume(*join_base(self.R.arr))
        self.stream = A.obj(st, E.TemplateStream, "self", fields={"_gen": self.gen, "buffered": True})
        st.ghost["Y"] = YGhost.initial()
        return [self.stream, self.size], {}

    # ---- postconditions (from the statement) ---------------------------------------------
    def p_no_exception(self, pre, out):
        return out.returned

    def _final(self, out):
        st = out.st
        Y = st.ghost["Y"]
        return st, Y, self.cur(st)

    def p_segments(self, pre, out):
        """the chunks are contiguous segments of the input, starting at its beginning"""
        if out.raised:
            return None
        st, Y, cur = self._final(out)
        return z3.And(self.chunk_facts(Y, cur, final=True)[0], Y.ny >= 0)

    def p_values(self, pre, out):
        """each chunk is the join of its segment"""
        if out.raised:
            return None
        st, Y, cur = self._final(out)
        return self.chunk_facts(Y, cur, final=True)[1]

    def p_counts(self, pre, out):
        """every chunk but the last combines exactly `size` non-empty pieces; the last 1..size"""
        if out.raised:
            return None
        st, Y, cur = self._final(out)
        return self.chunk_facts(Y, cur, final=True)[2]

    def p_coverage(self, pre, out):
        """the input is consumed entirely and everything after the last chunk is the empty string"""
        if out.raised:
            return None
        st, Y, cur = self._final(out)
        j = z3.Int(fresh_name("cj"))
        end = z3.If(Y.ny > 0, z3.Select(Y.ye, Y.ny - 1), z3.IntVal(0))
        return z3.And(cur == self.R.n,
                      z3.ForAll([j], z3.Implies(z3.And(end <= j, j < self.R.n), z3.Select(self.R.arr, j) == EMPTY)))

    def p_text(self, pre, out):
        """the concatenation of all chunks is the concatenation of the input"""
        if out.raised:
            return None
        st, Y, cur = self._final(out)
        return Y.text == self.J(self.R.n)

    posts = [("no_exception", p_no_exception), ("segments", p_segments), ("values", p_values),
             ("counts", p_counts), ("coverage", p_coverage), ("text", p_text)]

    # ---- witnesses: a refuted loop obligation lives in an arbitrary-iteration state, so the
    # failing *input* is searched on the real code with the statement's oracle ----------------
    def run(self, tier, seed):
        rs = super().run(tier, seed)
        if any(r.status == "refuted" for r in rs):
            w = search_buffered_counterexample()
            for r in rs:
                if r.status == "refuted":
                    r.witness = w
        return rs

    def replay(self, w):
        return replay_buffered(w)


TASKS = [BufferedGenerator()]

META = {
    "level": "proof",
    "explanation": "",
    "assumptions": [],
    "trusted_base": [],
}
