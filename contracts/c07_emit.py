"""C07 compiler side: what CodeGenerator.visit_For emits, and the name analysis that decides `extended_loop`.

Functions under contract (real source): CodeGenerator.visit_For (emission schemas of every path), visit_Break /
visit_Continue, compiler.find_undeclared, UndeclaredNameVisitor.visit_Name / visit_Block,
DependencyFinderVisitor.visit_Block, and (bounded stand-in) the whole NodeVisitor walk they rely on.

  C07.emit.else          an `else` branch runs iff no iteration entered the body: the indicator is set right before the loop,
                         cleared on EVERY path through the body (the clearing assignment dominates every exit of the body,
                         i.e. precedes every child statement, which may be `continue` / `break`), tested right after the loop,
                         and the else body is compiled in its own frame (branch "else")
  C07.emit.filter        the loop filter function is  def f(fiter): for <target> in fiter: if <test>: yield <target>  -- it
                         yields exactly the targets for which the test holds, in order; target compiled in the loop frame, test
                         in the test frame (both analysed with the loop's target stored); the loop (and its LoopContext, so
                         that loop.index / length count the filtered items) iterates over f(<iterable>)
  C07.emit.extended_loop the loop runs over (Async)LoopContext(<iterable>, undefined[, loop_render_func, depth]) binding the
                         special `loop` parameter of the loop frame whenever the loop is recursive, the body subtree reads
                         `loop` (find_undeclared over the children in `body`, names ('loop',)), or a scoped block occurs
                         inside; assigning to `loop` in the loop is rejected
  C07.emit.recursive     recursive loops are compiled to  def loop(reciter, loop_render_func, depth=0)  iterating
                         LoopContext(reciter, undefined, loop_render_func, depth)  and started by  loop(<iterable>, loop)
  C07.find_undeclared.*  find_undeclared(nodes, names) reports every name of `names` that occurs as a load-context Name anywhere
                         in the given subtrees except inside nested Block nodes, a nested macro / call block being a scope of its
                         own (what it declares, e.g. a parameter named `loop`, is declared only inside of it: nested_scope[...] VCs on
                         the real walk, scope_handler[...] VCs, bounded differential[nested_scopes]; hunt report C07_1):
                         VCs on visit_Name / visit_Block / the driver,
                         a table obligation on the visitor classes' visit_* methods and NodeVisitor's dispatch, and a bounded
                         differential stand-in over all small node trees (nested loops whose else / filter read the outer `loop`)
"""
from __future__ import annotations

import ast
import inspect
import itertools
import re
import time
import types
import z3

from pyvc.contract import Res, FnTask, Task, VC
from pyvc.emitcheck import EmitTask
from pyvc import emit
from pyvc.values import HList, HObj, HSet, Unsupported, Sym, Ref, Event, Exc, State, fresh, fresh_name, sym
from pyvc.interp import Raised
from pyvc.smt import to_term, model_value, check_sat
from pyvc import abstract as A

import jinja2.nodes as N
import jinja2.compiler as C
import jinja2.runtime as R
import jinja2.visitor as V
from jinja2.exceptions import TemplateAssertionError

PROP = "C07"


# =========================================================================================== native oracles

def _render(env, src, **ctx):
    try:
        return env.from_string(src).render(**ctx)
    except Exception as ex:  # noqa
        return f"{type(ex).__name__}: {ex}"


LOOP_CASES = [
    # (source, context, documented output, needs loopcontrols)
    # else runs iff no iteration took place
    ("{% for x in s %}{{ x }}{% else %}E{% endfor %}", {"s": []}, "E", False),
    ("{% for x in s %}{{ x }}{% else %}E{% endfor %}", {"s": [1, 2]}, "12", False),
    ("{% for x in s if x > 5 %}{{ x }}{% else %}E{% endfor %}", {"s": [1, 2]}, "E", False),
    ("{% for x in s if x > 1 %}{{ x }}{% else %}E{% endfor %}", {"s": [1, 2]}, "2", False),
    ("{% for x in s %}{% continue %}{% else %}E{% endfor %}", {"s": [1]}, "", True),
    ("{% for x in s %}{% break %}{% else %}E{% endfor %}", {"s": [1]}, "", True),
    ("{% for x in s %}{% if x %}{% continue %}{% endif %}{{ x }}{% else %}E{% endfor %}", {"s": [1, 2]}, "", True),
    ("{% for x in s %}{{ x }}{% if x == 2 %}{% break %}{% endif %}{% else %}E{% endfor %}", {"s": [1, 2, 3]}, "12", True),
    ("{% for x in s recursive %}{% continue %}{% else %}E{% endfor %}", {"s": [1]}, "", True),
    ("{% for x in s if x %}{% continue %}{% else %}E{% endfor %}", {"s": [0, 1]}, "", True),
    ("{% for x in s %}{% continue %}{% else %}E{% endfor %}", {"s": []}, "E", True),
    # filter: exactly the items for which the test holds, in order; loop counts the filtered items
    ("{% for x in s if x % 2 %}{{ loop.index }}/{{ loop.length }}:{{ x }} {% endfor %}", {"s": [1, 2, 3, 4, 5]}, "1/3:1 2/3:3 3/3:5 ", False),
    ("{% for x, y in s if y %}{{ x }}{{ loop.first }}{{ loop.last }}{% endfor %}", {"s": [(1, 0), (2, 1), (3, 1)]}, "2TrueFalse3FalseTrue", False),
    ("{% for x in s if x != t %}{{ x }}{% endfor %}", {"s": [1, 2, 3], "t": 2}, "13", False),
    # nested loops: the inner else / filter / iterable are evaluated in the enclosing loop's scope
    ("{% for x in s %}{% for y in [] %}{% else %}{{ loop.index }}{% endfor %}{% endfor %}", {"s": "ab"}, "12", False),
    ("{% for x in s %}{% for y in [1, 2, 3] if y == loop.index %}{{ y }}{% endfor %}{% endfor %}", {"s": "ab"}, "12", False),
    ("{% for x in s %}{% for y in [loop.index] %}{{ y }}{% endfor %}{% endfor %}", {"s": "ab"}, "12", False),
    ("{% for x in s %}{% for y in 'pq' %}{{ loop.index }}{% endfor %}{% endfor %}", {"s": "ab"}, "1212", False),
    ("{% for x in s %}{% if true %}{% for y in [] %}{% else %}{{ loop.length }}{% endfor %}{% endif %}{% endfor %}", {"s": "ab"}, "22", False),
    ("{% for x in s %}{% for y in [] %}{% else %}{% for z in [] %}{% else %}{{ loop.index0 }}{% endfor %}{% endfor %}{% endfor %}", {"s": "ab"}, "01", False),
    ("{% for x in s %}{{ loop.index }}{% endfor %}", {"s": "abc"}, "123", False),
    ("{% for x in s %}{% set l = loop %}{{ l.last }}{% endfor %}", {"s": "ab"}, "FalseTrue", False),
    ("{% for x in s %}{% macro m() %}{{ loop.index }}{% endmacro %}{{ m() }}{% endfor %}", {"s": "ab"}, "12", False),
    ("{% for x in s %}{% call(u) w() %}{{ loop.index }}{% endcall %}{% endfor %}", {"s": "ab", "w": None}, None, False),
    # recursive loops report the right depth
    ("{% for n in t recursive %}{{ loop.depth }}{{ loop.depth0 }}:{{ n.v }}[{{ loop(n.c) }}]{% endfor %}",
     {"t": [{"v": 1, "c": [{"v": 2, "c": [{"v": 3, "c": []}]}, {"v": 4, "c": []}]}]}, "10:1[21:2[32:3[]]21:4[]]", False),
    ("{% for n in t recursive %}{{ n.v }}({{ loop(n.c) }}){% else %}-{% endfor %}",
     {"t": [{"v": 1, "c": [{"v": 2, "c": []}]}]}, "1(2(-))", False),
    ("{% for n in t if n.v recursive %}{{ loop.index }}.{{ n.v }}({{ loop(n.c) }}){% endfor %}",
     {"t": [{"v": 0, "c": []}, {"v": 1, "c": [{"v": 0, "c": []}, {"v": 2, "c": []}]}]}, "1.1(1.2())", False),
]


def native_loops(w=None):
    """Native oracle: the documented rendering of a family of real templates with else / filter / nested loops whose
    inner else and filter use the outer `loop` / recursive loops / break and continue; sync and async."""
    import jinja2
    problems = []
    for is_async in (False, True):
        for ext in (False, True):
            env = jinja2.Environment(enable_async=is_async, extensions=["jinja2.ext.loopcontrols"] if ext else [])
            for src, ctx, want, needs in LOOP_CASES:
                if want is None or (needs and not ext):
                    continue
                if needs and "{% else %}" in src and w and w.get("clause") not in (None, "else"):
                    continue  # break/continue + else is C07.emit.else's business (F11); other clauses are replayed without it
                got = _render(env, src, **ctx)
                if got != want:
                    problems.append(f"{src!r} with {ctx!r} (async={is_async}) renders {got!r}, documented {want!r}")
    # scoped block inside a loop sees `loop`
    env = jinja2.Environment()
    got = _render(env, "{% for x in s %}{% block b scoped %}{{ loop.index }}{{ x }}{% endblock %}{% endfor %}", s="ab")
    if got != "1a2b":
        problems.append(f"scoped block in a loop renders {got!r}, documented '1a2b'")
    got = _render(env, "{% for loop in s %}{% endfor %}", s="ab")
    if "TemplateAssertionError" not in got and "TemplateSyntaxError" not in got:
        problems.append(f"assigning to the special loop variable is accepted: {got!r}")
    seen = []
    uniq = [p for p in problems if not (p in seen or seen.append(p))]
    return (bool(uniq), "; ".join(uniq[:3]) or "for-loop template family (else, filter, nested, recursive, break/continue) renders as documented")


# =========================================================================================== visit_For under emission

BODY_CHILDREN = "children(body)"


def configure_for(I):
    """Tree analyses used by visit_For are abstract callees here (they have their own obligations below):
      node.iter_child_nodes(only=...)  -> an opaque iterable remembering `only`
      find_undeclared(it, names)       -> an unconstrained set (emit.install's spec; records its arguments)
      node.find_all(Block)             -> an opaque iterable; any(b.scoped for b in it) is the flag `scoped_block_inside`
      node.find_all(Name)              -> no offending name, or one arbitrary Name node (its ctx / name symbolic)
    Symbols.analyze_node / declare_parameter record their receiver; every self.visit(child, frame) records the frame."""
    def iter_child_nodes(I_, st, args, kwargs, node):
        only = kwargs.get("only", args[2] if len(args) > 2 else None)
        excl = kwargs.get("exclude", args[1] if len(args) > 1 else None)
        it = emit.AbsIter(BODY_CHILDREN if (only is not None and tuple(only) == ("body",) and excl is None) else f"children(only={only!r}, exclude={excl!r})", ("children", args[0]))
        return [(st, it)]

    I.specs["Node.iter_child_nodes"] = iter_child_nodes

    def find_all(I_, st, args, kwargs, node):
        what = args[1]
        if what is N.Block:
            return [(st, emit.AbsIter("find_all(Block)", ("blocks", args[0])))]
        if what is N.Name:
            # one arbitrary Name node stands for all of them (the check on each is effect-free unless it rejects)
            nm = emit.make_node(st, N.Name, "some_name")
            return [(st, (nm,))]
        # any further search (e.g. for includes / imports `with context`, hunt C05_2 = C07_2): an opaque iterable; any(...) over
        # it is an unconstrained flag, which can only make the loop extended MORE often (pred_extended demands the three
        # conditions it knows, it does not forbid others)
        cl = what if isinstance(what, tuple) else (what,)
        if cl and all(inspect.isclass(c) and issubclass(c, N.Node) for c in cl):
            return [(st, emit.AbsIter("find_all(" + ",".join(c.__name__ for c in cl) + ")", ("found", args[0])))]
        raise Unsupported(f"find_all({what!r})", node)

    I.specs["Node.find_all"] = find_all
    base_any = I.specs[("fn", id(any))]

    def any_spec(I_, st, args, kwargs, node):
        a = args[0]
        if isinstance(a, emit.AbsIter) and isinstance(a.src, tuple) and a.src and a.src[0] == "blocks":
            m = re.match(r"^\(?(\w+)\.scoped for (\w+) in ", a.desc)
            if m and m.group(1) == m.group(2):
                return [(st, sym("scoped_block_inside", "bool"))]
        if isinstance(a, emit.AbsIter) and isinstance(a.src, tuple) and a.src and a.src[0] == "found":
            return [(st, sym("any[" + re.sub(r"\W+", "_", a.desc)[:60] + "]", "bool"))]
        return base_any(I_, st, args, kwargs, node)

    I.specs[("fn", id(any))] = any_spec

    def symbols_recv(name, returns):
        def h(I_, st, args, kwargs, node):
            v = fresh("ident_" + name, "str", tags={"ident", f"symbols.{name}"}) if returns else None
            st.trace.append(Event("call", f"sym.{name}", list(args), dict(kwargs), v, lineno=getattr(node, "lineno", None)))
            return [(st, v)]
        return h

    I.specs["Symbols.analyze_node"] = symbols_recv("analyze_node", False)
    I.specs["Symbols.declare_parameter"] = symbols_recv("declare_parameter", True)
    base_visit = I.specs["CodeGenerator.visit"]

    def visit_spec(I_, st, args, kwargs, node):
        st.trace.append(Event("call", "visit", list(args[1:]), kwargs, None, lineno=getattr(node, "lineno", None)))
        return base_visit(I_, st, args, kwargs, node)

    I.specs["CodeGenerator.visit"] = visit_spec

    def frame_marker(name):
        def h(I_, st, args, kwargs, node):
            st.trace.append(Event("call", name, list(args[1:]), dict(kwargs), None, lineno=getattr(node, "lineno", None)))
            return I_.call_method(st, args[0], "writeline", [f"__{name}__()"], {}, node)
        return h

    for nm in ("enter_frame", "leave_frame"):
        I.specs[f"CodeGenerator.{nm}"] = frame_marker(nm)



def _is_marker(s, name=None):
    if not (isinstance(s, ast.Expr) and isinstance(s.value, ast.Call) and isinstance(s.value.func, ast.Name)):
        return False
    m = re.fullmatch(r"__(\w+?)__", s.value.func.id)
    return bool(m) and (name is None or m.group(1) == name)


def _is_pass(s):
    return isinstance(s, ast.Pass)


def _assign_const(s, value=None):
    """`Name = <int constant>` -> name, else None"""
    if isinstance(s, ast.Assign) and len(s.targets) == 1 and isinstance(s.targets[0], ast.Name) and isinstance(s.value, ast.Constant) \
            and type(s.value.value) is int and (value is None or s.value.value == value):
        return s.targets[0].id
    return None


def _hole_path(n, ph):
    if isinstance(n, ast.Expr):
        n = n.value
    if isinstance(n, ast.Name) and n.id in ph and isinstance(ph[n.id], emit.Hole):
        return ph[n.id].path
    return None


def _ident_term(n, ph):
    if isinstance(n, ast.Name) and n.id in ph and isinstance(ph[n.id], tuple) and ph[n.id][0] == "ident":
        return str(ph[n.id][1])
    return None


class Anatomy:
    """The parts of one emitted for-loop (parsed skeleton + the trace of the run)."""

    def __init__(self, sc, tree, ph, recursive, is_async):
        self.sc, self.tree, self.ph, self.recursive, self.is_async = sc, tree, ph, recursive, is_async
        self.problems = []
        st = sc.st
        self.st = st
        nf = st.get(sc.node).fields
        self.nf = nf
        self.has_test = nf.get("test") is not None
        hl = st.get(nf["else_"]) if isinstance(nf.get("else_"), Ref) else None
        self.has_else = None
        if hl is not None:
            self.has_else = True if sc.holds(hl.n > 0) else (False if sc.holds(hl.n == 0) else None)
        tr = [e for e in st.trace if e.kind == "call"]
        self.trace = tr
        self.inner = [e for e in tr if e.name == "frame.inner"]
        self.visits = [e for e in tr if e.name == "visit"]
        self.analyze = [e for e in tr if e.name == "sym.analyze_node"]
        self.declare = [e for e in tr if e.name == "sym.declare_parameter"]
        self.enter = [e for e in tr if e.name == "enter_frame"]
        self.leave = [e for e in tr if e.name == "leave_frame"]
        self.outer = sc.gen.frame
        top = list(tree.body)
        self.filter_fn = None
        if top and isinstance(top[0], (ast.FunctionDef, ast.AsyncFunctionDef)) and top[0].name != "loop":
            self.filter_fn = top.pop(0)
            while top and _is_marker(top[0], "leave_frame"):
                top.pop(0)  # leave_frame(test_frame) after the filter function
        self.loop_fn = None
        self.start = None
        scope = top
        if top and isinstance(top[0], (ast.FunctionDef, ast.AsyncFunctionDef)) and top[0].name == "loop":
            self.loop_fn = top[0]
            scope = list(self.loop_fn.body)
            self.start = top[1:]
        self.scope = scope
        loops = [s for s in scope if isinstance(s, (ast.For, ast.AsyncFor))]
        self.loop = loops[0] if len(loops) == 1 else None
        if self.loop is None:
            self.problems.append(f"{len(loops)} for statements emitted at the loop's level")

    # ---- frames ---------------------------------------------------------------------------------------
    def frame_of_visits(self, prefix):
        """the set of frames the children whose path starts with prefix were compiled in"""
        out = []
        for e in self.visits:
            ch = e.args[0] if e.args else None
            if isinstance(ch, Ref) and isinstance(self.st.get(ch), HObj) and (self.st.get(ch).path or "").startswith(prefix):
                fr = e.args[1] if len(e.args) > 1 else None
                if fr not in out:
                    out.append(fr)
        return out

    def is_inner_of_outer(self, fr):
        return any(e.result == fr and e.args and e.args[0] == self.outer for e in self.inner)

    def analysed(self, fr, branch):
        """frame.symbols.analyze_node(node, for_branch=branch) was called"""
        if not isinstance(fr, Ref):
            return False
        symbols = self.st.get(fr).fields.get("symbols")
        return any(e.args and e.args[0] == symbols and len(e.args) > 1 and e.args[1] == self.sc.node and
                   (e.kwargs.get("for_branch") == branch or (len(e.args) > 2 and e.args[2] == branch)) for e in self.analyze)

    # ---- the iterable of the main loop --------------------------------------------------------------------
    def loop_iter_parts(self):
        """-> (extended: bool, ctx_call or None, iterable expression inside)"""
        it = self.loop.iter
        nm = emit.call_name(it) if isinstance(it, ast.Call) else None
        if nm in ("LoopContext", "AsyncLoopContext"):
            return True, it, (it.args[0] if it.args else None)
        return False, None, it


def _strip_aiter(n):
    if isinstance(n, ast.Call) and emit.call_name(n) == "auto_aiter" and len(n.args) == 1 and not n.keywords:
        return n.args[0], True
    return n, False


# ---- C07.emit.else ------------------------------------------------------------------------------------

ELSE_AT_END = "the else indicator is cleared only at the END of the loop body: a `continue` / `break` in the body skips the clearing and the else branch runs although an iteration took place"


def pred_else(a):
    if a.loop is None:
        return list(a.problems)
    ph = a.ph
    fails = []
    else_holes = [n for n in ast.walk(a.tree) if (_hole_path(n, ph) or "").startswith("node.else_[") and isinstance(n, ast.Name)]
    if a.has_else is None:
        return ["path does not decide whether the loop has an else branch"]
    if not a.has_else:
        if else_holes:
            fails.append("else body emitted although the loop has none")
        return fails
    scope = a.scope
    k = scope.index(a.loop)
    ind = _assign_const(scope[k - 1], 1) if k >= 1 else None
    if ind is None:
        return ["the iteration indicator is not set to 1 immediately before the loop"]
    if a.loop.orelse:
        fails.append("python for-else used (it also runs after a completed iteration)")
    # all assignments to the indicator
    assigns = [n for n in ast.walk(a.tree) if isinstance(n, ast.Name) and n.id == ind and isinstance(n.ctx, ast.Store)]
    body = a.loop.body
    clears = [j for j, s in enumerate(body) if _assign_const(s, 0) == ind]
    if not clears:
        return fails + ["the else indicator is never cleared at the top level of the loop body"]
    first_child = next((j for j, s in enumerate(body) if not (_is_marker(s) or _is_pass(s) or _assign_const(s) is not None or
                                                               (isinstance(s, ast.Assign) and ast.unparse(s) == "_loop_vars = {}"))), len(body))
    if clears[0] > first_child:
        fails.append(ELSE_AT_END)
    if len(assigns) != 1 + len(clears):
        fails.append("the else indicator is assigned elsewhere")
    # tested right after the loop
    rest = [s for s in scope[k + 1:] if not _is_marker(s, "leave_frame")]
    if not (rest and isinstance(rest[0], ast.If) and isinstance(rest[0].test, ast.Name) and rest[0].test.id == ind and not rest[0].orelse):
        return fails + ["the else branch is not guarded by `if <indicator>:` right after the loop"]
    guard = rest[0]
    inside = [n for s in guard.body for n in ast.walk(s) if isinstance(n, ast.Name) and (_hole_path(n, ph) or "").startswith("node.else_[")]
    if len(inside) != len(else_holes) or not all(_is_marker(s) or _is_pass(s) or (_hole_path(s, ph) or "").startswith("node.else_[") for s in guard.body):
        fails.append("the else body is not exactly the guarded block")
    n_rep = len([s for s in guard.body if (_hole_path(s, ph) or "").startswith("node.else_[")])
    if n_rep < 1:
        fails.append("the guarded block does not contain the else body")
    frs = a.frame_of_visits("node.else_[")
    body_frs = a.frame_of_visits("node.body[")
    if len(frs) != 1 or not a.is_inner_of_outer(frs[0]) or frs[0] in body_frs or not a.analysed(frs[0], "else"):
        fails.append("the else body is not compiled in its own frame (inner frame of the enclosing one, analysed for branch 'else')")
    elif a.recursive and a.loop_frame() is not None and a.st.get(frs[0]).fields.get("buffer") != a.st.get(a.loop_frame()).fields.get("buffer"):
        fails.append("the else branch of a recursive loop does not write to the loop function's buffer")
    return fails


def _loop_frame(a):
    frs = a.frame_of_visits("node.body[")
    if len(frs) == 1:
        return frs[0]
    # empty body: the frame entered inside the for statement
    for e in a.enter:
        fr = e.args[0] if e.args else None
        if isinstance(fr, Ref) and a.st.get(fr).fields.get("loop_frame") is True:
            return fr
    return None


Anatomy.loop_frame = _loop_frame


# ---- C07.emit.filter ----------------------------------------------------------------------------------

def pred_filter(a):
    if a.loop is None:
        return list(a.problems)
    ph = a.ph
    fails = []
    ext, ctx_call, inner = a.loop_iter_parts()
    if inner is None:
        return ["LoopContext() without iterable"]
    L = a.loop_frame()
    # the iterable handed to the loop: [filter(]  <iter> | reciter  [)]
    src = inner
    fcall = None
    if isinstance(src, ast.Call) and isinstance(src.func, ast.Name) and a.filter_fn is not None and src.func.id == a.filter_fn.name:
        fcall = src
        if len(src.args) != 1 or src.keywords:
            return ["the filter function is not applied to exactly the iterable"]
        src = src.args[0]
    src, wrapped = _strip_aiter(src)
    if a.recursive:
        if not (isinstance(src, ast.Name) and src.id == "reciter"):
            fails.append("a recursive loop must iterate over its `reciter` parameter")
    else:
        if _hole_path(src, ph) != "node.iter":
            fails.append(f"the loop does not iterate over the compiled node.iter: {ast.unparse(a.loop.iter)[:80]}")
        if a.is_async and not ext and not wrapped and fcall is None:
            fails.append("async loop over a plain iterable without auto_aiter")
    it_frames = a.frame_of_visits("node.iter")
    if it_frames != [a.outer]:
        fails.append("the iterable is not compiled exactly once in the enclosing frame")
    if not a.has_test:
        if a.filter_fn is not None or fcall is not None:
            fails.append("a filter function is emitted although the loop has no filter")
        return fails
    f = a.filter_fn
    if f is None:
        return fails + ["the loop has a filter but no filter function is emitted"]
    if fcall is None:
        fails.append("the loop does not iterate over <filter function>(<iterable>): the filter is not applied")
    if isinstance(f, ast.AsyncFunctionDef) is not bool(a.is_async):
        fails.append("the filter function is async iff the environment is")
    if [x.arg for x in f.args.args] != ["fiter"] or f.args.vararg or f.args.kwarg or f.args.defaults or f.args.kwonlyargs:
        fails.append("the filter function does not take exactly (fiter)")
    fbody = [s for s in f.body if not (_is_marker(s) or _is_pass(s))]
    if not (len(fbody) == 1 and isinstance(fbody[0], (ast.For, ast.AsyncFor))):
        return fails + ["the filter function is not a single loop over its argument"]
    fl = fbody[0]
    if isinstance(fl, ast.AsyncFor) is not bool(a.is_async):
        fails.append("the filter loop is async iff the environment is")
    fit, fw = _strip_aiter(fl.iter)
    if not (isinstance(fit, ast.Name) and fit.id == "fiter") or (a.is_async and not fw):
        fails.append("the filter function does not iterate over its argument (through auto_aiter in async mode)")
    if _hole_path(fl.target, ph) != "node.target" or fl.orelse:
        fails.append("the filter loop does not bind the loop's target")
    ok = (len(fl.body) == 1 and isinstance(fl.body[0], ast.If) and _hole_path(fl.body[0].test, ph) == "node.test" and not fl.body[0].orelse
          and len(fl.body[0].body) == 1 and isinstance(fl.body[0].body[0], ast.Expr) and isinstance(fl.body[0].body[0].value, ast.Yield)
          and _hole_path(fl.body[0].body[0].value.value, ph) == "node.target")
    if not ok:
        fails.append("the filter loop body is not `if <test>: yield <target>` (it must yield exactly the targets for which the test holds, in order)")
    ys = [n for n in ast.walk(f) if isinstance(n, (ast.Yield, ast.YieldFrom))]
    if len(ys) != 1:
        fails.append("the filter function yields elsewhere")
    # scopes: the target is compiled in the loop frame, the test in a frame analysed for branch 'test' (target stored, then
    # the test's names), entered inside the filter function
    tfr = a.frame_of_visits("node.test")
    if not (len(tfr) == 1 and a.is_inner_of_outer(tfr[0]) and a.analysed(tfr[0], "test")):
        fails.append("the filter test is not compiled in an inner frame analysed for branch 'test' (the loop's scope: target stored)")
    elif not any(e.args and e.args[0] == tfr[0] for e in a.enter):
        fails.append("the test frame is never entered (its variables are not resolved inside the filter function)")
    tg = a.frame_of_visits("node.target")
    if L is None or tg != [L]:
        fails.append("the loop target is not compiled in the loop frame")
    return fails


# ---- C07.emit.extended_loop ---------------------------------------------------------------------------

def pred_extended(a):
    sc = a.sc
    if sc.outcome == "raise":
        # the only rejection: a store to the special loop variable inside the loop
        nmh = [h for h in sc.st.heap.values() if isinstance(h, HObj) and h.path == "some_name"]
        ok = sc.value.cls is TemplateAssertionError and nmh and isinstance(nmh[0].fields.get("name"), Sym) and \
            sc.holds(z3.And(nmh[0].fields["name"].t == z3.StringVal("loop"), nmh[0].fields["ctx"].t == z3.StringVal("store")))
        return [] if ok else [f"visit_For raises {sc.value!r} for a loop that does not assign to `loop`"]
    if a.loop is None:
        return list(a.problems)
    ph = a.ph
    fails = []
    nmh = [h for h in sc.st.heap.values() if isinstance(h, HObj) and h.path == "some_name"]
    if nmh and isinstance(nmh[0].fields.get("name"), Sym) and isinstance(nmh[0].fields.get("ctx"), Sym) and \
            not sc.holds(z3.Not(z3.And(nmh[0].fields["name"].t == z3.StringVal("loop"), nmh[0].fields["ctx"].t == z3.StringVal("store")))):
        fails.append("a store to the special loop variable inside the loop is not rejected")
    if not nmh:
        fails.append("the loop is not searched for assignments to the special loop variable")
    ext, ctx_call, inner = a.loop_iter_parts()
    L = a.loop_frame()
    # when is the plain loop allowed?  only if all three conditions were evaluated and are false
    und = [e for e in a.trace if e.name == "find_undeclared"]
    if not ext:
        why = []
        if a.recursive:
            why.append("the loop is recursive")
        if len(und) != 1:
            why.append("the body was not analysed for reads of `loop`")
        else:
            it, names = und[0].args[0], und[0].args[1]
            if not (isinstance(it, emit.AbsIter) and it.desc == BODY_CHILDREN and it.src == ("children", sc.node)):
                why.append("find_undeclared was not given the child nodes of the loop's body")
            elif tuple(names) != ("loop",):
                why.append(f"find_undeclared was asked for {names!r} instead of ('loop',)")
            elif not sc.holds(z3.Not(z3.Select(sc.st.get(und[0].result).dom, z3.StringVal("loop")))):
                why.append("the body subtree reads `loop`")
        if not sc.holds(z3.Not(z3.Bool("scoped_block_inside"))) or "scoped_block_inside" not in " ".join(str(c) for c in sc.pc):
            why.append("a scoped block may occur inside")
        if why:
            fails.append("plain loop (no LoopContext) emitted although " + " / ".join(why))
        if isinstance(a.loop.target, ast.Tuple) and any(_ident_term(x, ph) for x in a.loop.target.elts):
            fails.append("loop variable bound without LoopContext")
        if _hole_path(a.loop.target, ph) != "node.target":
            fails.append("the loop does not bind the compiled target")
        return fails
    # extended: for <target>, <loop_ref> in [Async]LoopContext(<iterable>, undefined[, loop_render_func, depth])
    want_cls = "AsyncLoopContext" if a.is_async else "LoopContext"
    if emit.call_name(ctx_call) != want_cls:
        fails.append(f"{emit.call_name(ctx_call)} used in {'async' if a.is_async else 'sync'} mode")
    if isinstance(a.loop, ast.AsyncFor) is not bool(a.is_async):
        fails.append("the loop statement is async iff the environment is")
    want_args = ["undefined", "loop_render_func", "depth"] if a.recursive else ["undefined"]
    got_args = [ast.unparse(x) for x in ctx_call.args[1:]]
    if got_args != want_args or ctx_call.keywords:
        fails.append(f"LoopContext(<iterable>, {', '.join(got_args)}) instead of (<iterable>, {', '.join(want_args)})")
    tgt = a.loop.target
    if not (isinstance(tgt, ast.Tuple) and len(tgt.elts) == 2 and _hole_path(tgt.elts[0], ph) == "node.target" and _ident_term(tgt.elts[1], ph)):
        return fails + ["the loop does not bind (<target>, <loop variable>) from the LoopContext"]
    ref = _ident_term(tgt.elts[1], ph)
    decl = [e for e in a.declare if len(e.args) > 1 and e.args[1] == "loop"]
    if L is None or len(decl) != 1 or str(decl[0].result.t) != ref or decl[0].args[0] != sc.st.get(L).fields.get("symbols"):
        fails.append("the loop variable is not the `loop` parameter declared in the loop frame's symbols")
    if L is not None and not a.analysed(L, "body"):
        fails.append("the loop frame is not analysed for branch 'body'")
    if L is not None and decl:
        order = [e for e in a.trace if e is decl[0] or (e.name == "sym.analyze_node" and e.args and e.args[0] == sc.st.get(L).fields.get("symbols"))]
        if order and order[0] is not decl[0]:
            fails.append("`loop` must be declared in the loop frame before the body is analysed (else reads of `loop` resolve to the outer scope)")
    k = a.scope.index(a.loop)
    pre = a.scope[:k]
    init = [s for s in pre if isinstance(s, ast.Assign) and len(s.targets) == 1 and _ident_term(s.targets[0], ph) == ref and ast.unparse(s.value) == "missing"]
    if len(init) != 1:
        fails.append("the loop variable is not initialised to `missing` before the loop")
    return fails


# ---- C07.emit.recursive ---------------------------------------------------------------------------------

def pred_recursive(a):
    if a.loop is None:
        return list(a.problems)
    ph = a.ph
    fails = []
    if not a.recursive:
        if a.loop_fn is not None or any(isinstance(n, ast.Name) and n.id in ("reciter", "loop_render_func") for n in ast.walk(a.tree)):
            fails.append("recursive machinery emitted for a non-recursive loop")
        if isinstance(a.loop, ast.AsyncFor) is not bool(a.is_async):
            fails.append("the loop statement is async iff the environment is")
        return fails
    f = a.loop_fn
    if f is None:
        return ["a recursive loop is not compiled to a function `loop`"]
    if isinstance(f, ast.AsyncFunctionDef) is not bool(a.is_async):
        fails.append("the loop function is async iff the environment is")
    params = [x.arg for x in f.args.args]
    dflt = [ast.unparse(x) for x in f.args.defaults]
    if params != ["reciter", "loop_render_func", "depth"] or dflt != ["0"] or f.args.vararg or f.args.kwarg or f.args.kwonlyargs:
        fails.append(f"loop function signature ({', '.join(params)}; defaults {dflt}) is not (reciter, loop_render_func, depth=0)")
    ext, ctx_call, inner = a.loop_iter_parts()
    if not ext:
        fails.append("a recursive loop does not run over a LoopContext (loop(...) would be unavailable)")
    # buffer: the function collects its output and returns it
    L = a.loop_frame()
    buf = a.st.get(L).fields.get("buffer") if L is not None else None
    if not isinstance(buf, (str, Sym)) or buf == a.sc.buffer:
        fails.append("the loop function does not write to a buffer of its own")
    rets = [s for s in ast.walk(f) if isinstance(s, ast.Return)]
    if not rets or not all(isinstance(r.value, ast.Call) and emit.call_name(emit.unwrap_await(r.value)) in ("concat", "Markup") for r in rets):
        fails.append("the loop function does not return its buffer contents")
    if isinstance(f.body[-1], (ast.Return, ast.If)) is False:
        fails.append("the loop function does not end by returning its buffer")
    # start of the iteration: loop(<iterable>, loop)  -- depth takes its default 0, so the outermost loop has depth0 = 0
    # and LoopContext.__call__ (C07.call) passes depth0 + 1 to loop_render_func
    start = a.start or []
    calls = [n for s in start for n in ast.walk(s) if isinstance(n, ast.Call) and isinstance(n.func, ast.Name) and n.func.id == "loop"]
    if len(calls) != 1 or len(start) != 1:
        return fails + ["the recursive loop is not started by exactly one call loop(...) after the function"]
    c = calls[0]
    if len(c.args) != 2 or c.keywords:
        fails.append("start call is not loop(<iterable>, loop)")
    else:
        it, w = _strip_aiter(c.args[0])
        if _hole_path(it, ph) != "node.iter" or (a.is_async and not w):
            fails.append("start call does not pass the compiled iterable (through auto_aiter in async mode)")
        if not (isinstance(c.args[1], ast.Name) and c.args[1].id == "loop"):
            fails.append("start call does not pass the loop function itself as loop_render_func")
    if a.is_async:
        par = emit.parents(a.tree)
        if not isinstance(par.get(c), ast.Await):
            fails.append("async start call is not awaited")
    # the result is written to the enclosing frame's output
    s0 = start[0]
    if a.sc.buffer is None:
        if not (isinstance(s0, ast.Expr) and isinstance(s0.value, ast.Yield)):
            fails.append("the rendered loop is not yielded to the enclosing output")
    else:
        if not (isinstance(s0, ast.Expr) and isinstance(s0.value, ast.Call) and emit.call_name(s0.value) in (f"{a.sc.buffer}.append", f"{a.sc.buffer}.extend")):
            fails.append("the rendered loop is not appended to the enclosing buffer")
    return fails


CLAUSES = [("else", pred_else), ("filter", pred_filter), ("extended_loop", pred_extended), ("recursive", pred_recursive)]


class ForEmission(Task):
    """visit_For run once per (recursive, is_async); every feasible path is checked against the four clauses."""
    kind = "emission"
    prop = PROP

    def __init__(self, recursive, is_async, idx):
        self.recursive, self.is_async, self.idx = recursive, is_async, idx
        self.name = f"C07.emit.visit_For[{'recursive' if recursive else 'plain'},{'async' if is_async else 'sync'}]"

    def replay(self, w):
        return native_loops(w)

    def finding_key(self, res):
        # the specific site: the failures of this path are exactly "cleared at the end of the body" (anything else, or anything
        # in addition, is a different finding)
        fails = (res.detail or "").rsplit("`: ", 1)[-1]
        if fails == ELSE_AT_END:
            return "else_indicator_cleared_at_end_of_body"
        return fails[:120]

    def run(self, tier, seed):
        t0 = time.time()
        res = []
        n_paths = 0
        # a plain loop writes nothing to the enclosing output itself: the frame's buffer only matters for the start call of a
        # recursive loop
        # (quick tier: one of the two buffer modes per recursive task, crossed with sync/async; thorough tier: both)
        bufs = (None,) if not self.recursive else ((None, "t_buf") if tier != "quick" else (("t_buf",) if self.is_async else (None,)))
        for b, buf in enumerate(bufs):
            try:
                scs, I = emit.run_visitor("jinja2.compiler:CodeGenerator.visit_For", N.For, buffer=buf, configure=configure_for,
                                          node_fields={"recursive": self.recursive}, env_fields={"is_async": self.is_async})
            except Unsupported as ex:
                return [Res(self.name + ".engine", "unknown", "pyvc-emit", time.time() - t0, f"unsupported: {ex}", self.kind)]
            for i, sc in enumerate(scs):
                if check_sat(sc.pc, 2000, 0, use_cvc5=False).status == "unsat":
                    continue
                sc.buffer = buf
                n_paths += 1
                pid = self.idx * 10000 + b * 5000 + i
                if sc.outcome == "raise":
                    a = Anatomy.__new__(Anatomy)
                    a.sc = sc
                    fails = pred_extended(a)
                    res.append(self.result("extended_loop", pid, sc, fails, ""))
                    continue
                per_clause = {c: [] for c, _ in CLAUSES}
                shown = ""
                for txt, ph in sc.texts():
                    shown = shown or txt
                    try:
                        tree = emit.parse_stmts(txt)
                    except SyntaxError as ex:
                        per_clause["extended_loop"].append(f"emitted text is not a Python statement list ({ex.msg})")
                        continue
                    a = Anatomy(sc, tree, ph, self.recursive, self.is_async)
                    for c, fn in CLAUSES:
                        for f_ in fn(a):
                            if f_ not in per_clause[c]:
                                per_clause[c].append(f_)
                for c, _ in CLAUSES:
                    res.append(self.result(c, pid, sc, per_clause[c], shown))
        if n_paths < 8:
            res.append(Res(self.name + ".paths", "error", "pyvc-emit", 0, f"only {n_paths} feasible paths", self.kind))
        return res

    def result(self, clause, pid, sc, fails, txt):
        nm = f"C07.emit.{clause}#p{pid}"
        if fails:
            return Res(nm, "refuted", "pyvc-emit", 0, f"{self.name} buffer={sc.buffer} emits `{txt.strip()[:400]}`: " + "; ".join(fails[:3]), self.kind,
                       witness={"emitted": txt[:800], "path_condition": [str(c)[:80] for c in sc.pc][:14], "buffer": sc.buffer, "recursive": self.recursive,
                                "is_async": self.is_async, "clause": clause})
        return Res(nm, "discharged", "pyvc-emit", 0, "", self.kind)


FOR_TASKS = [ForEmission(r, a_, k) for k, (r, a_) in enumerate(itertools.product((False, True), (False, True)))]

# (TASKS is assembled at the end of the module)


# =========================================================================================== the name analysis

def _set_eq_hook(I):
    """set == set on symbolic sets: extensional equality of the membership arrays"""
    base = I.structural_eq

    def structural_eq(st, a, b, node):
        if isinstance(a, Ref) and isinstance(b, Ref):
            ha, hb = st.heap.get(a.id), st.heap.get(b.id)
            if isinstance(ha, HSet) and isinstance(hb, HSet) and ha.items is None and hb.items is None:
                return Sym(ha.dom == hb.dom, "bool")
        return base(st, a, b, node)

    I.structural_eq = structural_eq


S_ARR = z3.ArraySort(z3.StringSort(), z3.BoolSort())


class VisitName(VC):
    """UndeclaredNameVisitor.visit_Name on an arbitrary visitor state (names N, undeclared U) and an arbitrary Name node:
    a load of a name in N is reported (U' = U + {name}, N' = N); any other occurrence reports nothing and can only
    take the node's own name out of consideration (N' = N - {name}: a store declares it); the only exception is
    VisitorExit, raised only when everything still looked for has been found (N' <= U'), after the report was made."""
    prop = PROP
    target = "jinja2.compiler:UndeclaredNameVisitor.visit_Name"

    def __init__(self):
        super().__init__(PROP, "C07.find_undeclared.visit_Name")

    def configure(self, I):
        _set_eq_hook(I)

    def setup(self, I, st):
        self.N0, self.U0 = z3.Const("names0", S_ARR), z3.Const("undeclared0", S_ARR)
        self.names = st.alloc(HSet(dom=self.N0, size=z3.Int("n_names"), kk="str"), initial=True)
        self.undeclared = st.alloc(HSet(dom=self.U0, size=z3.Int("n_undeclared"), kk="str"), initial=True)
        self.visitor = st.alloc(HObj(C.UndeclaredNameVisitor, fields={"names": self.names, "undeclared": self.undeclared}, path="self"), initial=True)
        self.nm, self.ctx = sym("node.name", "str"), sym("node.ctx", "str")
        self.node = st.alloc(HObj(N.Name, fields={"name": self.nm, "ctx": self.ctx}, path="node"), initial=True)
        return [self.visitor, self.node], {}

    def _sets(self, out):
        f = out.st.get(self.visitor).fields
        if f.get("names") != self.names or f.get("undeclared") != self.undeclared:
            return None
        hn, hu = out.st.get(self.names), out.st.get(self.undeclared)
        if hn.items is not None or hu.items is not None:
            return None
        return hn.dom, hu.dom

    def p_reports(self, pre, out):
        s = self._sets(out)
        if s is None:
            return False
        n1, u1 = s
        hit = z3.And(self.ctx.t == z3.StringVal("load"), z3.Select(self.N0, self.nm.t))
        return z3.And(z3.Implies(hit, z3.And(u1 == z3.Store(self.U0, self.nm.t, True), n1 == self.N0)),
                      z3.Implies(z3.Not(hit), z3.And(u1 == self.U0, n1 == z3.Store(self.N0, self.nm.t, False))))

    def p_exit(self, pre, out):
        if not out.raised:
            return out.value is None
        s = self._sets(out)
        if s is None or out.value.cls is not C.VisitorExit:
            return False
        n1, u1 = s
        x = z3.String(fresh_name("s"))
        return z3.ForAll([x], z3.Implies(z3.Select(n1, x), z3.Select(u1, x)))

    posts = [("load_of_wanted_name_reported_nothing_else_lost", p_reports), ("stops_only_when_all_found", p_exit)]

    def concretize(self, model, pre, out):
        return {"vc": "visit_Name", "name": model_value(model, self.nm.t), "ctx": model_value(model, self.ctx.t)}

    def replay(self, w):
        return replay_visit_name(w)


def replay_visit_name(w=None):
    """Native replay of visit_Name: the real method on small visitor states around the witness's (name, ctx)."""
    w = w or {}
    nm = w.get("name") or "loop"
    problems = []
    for ctx in dict.fromkeys([w.get("ctx") or "load", "load", "store", "param", ""]):
        for names in ({nm}, {nm, "z"}, {"z"}, set()):
            for und in (set(), {"z"} & names, {nm} & names):
                v = C.UndeclaredNameVisitor(names)
                v.undeclared = set(und)
                hit = ctx == "load" and nm in names
                want_n = set(names) if hit else set(names) - {nm}
                want_u = set(und) | {nm} if hit else set(und)
                try:
                    v.visit_Name(N.Name(nm, ctx))
                    stopped = False
                except C.VisitorExit:
                    stopped = True
                except Exception as ex:  # noqa
                    problems.append(f"visit_Name(Name({nm!r}, {ctx!r})) with names={sorted(names)} raised {type(ex).__name__}")
                    continue
                if (v.names, v.undeclared) != (want_n, want_u) or (stopped and not want_n <= want_u):
                    problems.append(f"visit_Name(Name({nm!r}, {ctx!r})) with names={sorted(names)} undeclared={sorted(und)}: names'={sorted(v.names)} "
                                    f"undeclared'={sorted(v.undeclared)} stopped={stopped}; specification names'={sorted(want_n)} undeclared'={sorted(want_u)}")
    return (bool(problems), "; ".join(problems[:3]) or "visit_Name agrees with its specification on the small visitor states")


SCOPE_CALLEE = "scope_lemma_callee"
SCOPE_HANDLERS = {"visit_Macro", "visit_CallBlock"}
ORDER_HANDLERS = {"visit_Assign", "visit_AssignBlock", "visit_FilterBlock", "visit_For", "visit_With"}


class ScopeHandler(VC):
    """UndeclaredNameVisitor.visit_Macro / visit_CallBlock (when the visitor has them): the node's children are all walked
    (exactly one generic_visit of this node: reads inside a nested macro still count, 'it will not stop at closure frames'),
    whatever the walk took out of consideration is looked for again afterwards (names' = names), the report object is kept.
    The walk itself is abstract here: it may report and un-watch arbitrary names."""
    prop = PROP

    def __init__(self, which):
        self.which = which
        self.target = f"jinja2.compiler:UndeclaredNameVisitor.visit_{which}"
        super().__init__(PROP, f"C07.find_undeclared.scope_handler[{which}]")

    def configure(self, I):
        _set_eq_hook(I)
        c = self

        def walk(I_, st, args, kwargs, node):
            # an arbitrary walk: un-watches and reports arbitrary names, in place
            st.trace.append(Event("call", "generic_visit", list(args), dict(kwargs), None, lineno=getattr(node, "lineno", None)))
            hn, hu = st.get(c.names), st.get(c.undeclared)
            hn.dom, hn.size = z3.Const("names_after_walk", S_ARR), z3.Int("n_names_after_walk")
            hu.dom, hu.size = z3.Const("undeclared_after_walk", S_ARR), z3.Int("n_undeclared_after_walk")
            # ... and it may stop early (VisitorExit) because everything still looked for INSIDE was found
            s2 = st.fork()
            e = Exc(C.VisitorExit, (), origin=getattr(node, "lineno", None))
            return [(s2, Raised(e)), (st, None)]

        I.specs["NodeVisitor.generic_visit"] = walk

    def setup(self, I, st):
        self.N0, self.U0 = z3.Const("names0", S_ARR), z3.Const("undeclared0", S_ARR)
        self.names = st.alloc(HSet(dom=self.N0, size=z3.Int("n_names"), kk="str"), initial=True)
        self.undeclared = st.alloc(HSet(dom=self.U0, size=z3.Int("n_undeclared"), kk="str"), initial=True)
        self.visitor = st.alloc(HObj(C.UndeclaredNameVisitor, fields={"names": self.names, "undeclared": self.undeclared}, path="self"), initial=True)
        self.node = emit.make_node(st, getattr(N, self.which), "node")
        return [self.visitor, self.node], {}

    def p_scope(self, pre, out):
        calls = [e for e in out.st.trace if e.kind == "call" and e.name == "generic_visit"]
        if len(calls) != 1 or list(calls[0].args) != [self.visitor, self.node] or calls[0].kwargs:
            return False
        f = out.st.get(self.visitor).fields
        if f.get("undeclared") != self.undeclared or not isinstance(f.get("names"), Ref):
            return False
        hn, hu = out.st.get(f["names"]), out.st.get(self.undeclared)
        if not isinstance(hn, HSet) or hn.items is not None or hu.items is not None:
            return False
        if out.raised:
            # the whole search may only stop when everything looked for OUTSIDE this scope has been found
            x = z3.String(fresh_name("s"))
            return z3.And(out.value.cls is C.VisitorExit, z3.ForAll([x], z3.Implies(z3.Select(self.N0, x), z3.Select(hu.dom, x))))
        return hn.dom == self.N0

    posts = [("children_walked_declarations_restored", p_scope)]

    def concretize(self, model, pre, out):
        return {"vc": "scope_handler", "which": self.which}

    def replay(self, w):
        return replay_nested_scope(w)


class NestedScope(VC):
    """A nested macro / call block is a scope of its own: what it declares (its parameters) is declared only inside of it.
    The REAL walk (NodeVisitor.visit -> get_visitor / generic_visit -> Node.iter_child_nodes -> visit_Name, and the visitor's
    own visit_Macro / visit_CallBlock if it has them) over `{% macro m(p) %}{% endmacro %}` resp. `{% call(p) f() %}{% endcall %}`
    with an arbitrary parameter name p, on an arbitrary visitor state: afterwards exactly the same names are still looked
    for, and nothing was reported.  (Otherwise a later read of p - e.g. `loop.index` after `{% macro m(loop) %}` in a for
    body - is not found, visit_For decides the loop needs no LoopContext, and `loop` is undefined or the OUTER loop's.)"""
    prop = PROP
    target = "jinja2.visitor:NodeVisitor.visit"

    def __init__(self, which, default=False):
        # default=True: the macro also has a default expression that reads an arbitrary name q (a read in a default counts;
        # if it completes what is looked for INSIDE the scope the search must still go on for what the scope's parameter hides)
        self.which, self.default = which, default
        super().__init__(PROP, f"C07.find_undeclared.nested_scope[{which}{',default' if default else ''}]")

    def configure(self, I):
        _set_eq_hook(I)
        I.inline.add("*")

    def setup(self, I, st):
        self.N0, self.U0 = z3.Const("names0", S_ARR), z3.Const("undeclared0", S_ARR)
        self.names = st.alloc(HSet(dom=self.N0, size=z3.Int("n_names"), kk="str"), initial=True)
        self.undeclared = st.alloc(HSet(dom=self.U0, size=z3.Int("n_undeclared"), kk="str"), initial=True)
        self.visitor = st.alloc(HObj(C.UndeclaredNameVisitor, fields={"names": self.names, "undeclared": self.undeclared}, path="self"), initial=True)
        self.p = sym("parameter_name", "str")
        common = {"lineno": 1, "environment": None}
        param = st.alloc(HObj(N.Name, fields=dict(common, name=self.p, ctx="param"), path="param"), initial=True)
        empty = lambda: st.alloc(HList(items=[]), initial=True)  # noqa: E731
        args = st.alloc(HList(items=[param]), initial=True)
        self.q = sym("name_read_in_default", "str")
        if self.which == "Macro":
            dflt = empty()
            if self.default:
                rd = st.alloc(HObj(N.Name, fields=dict(common, name=self.q, ctx="load"), path="default"), initial=True)
                dflt = st.alloc(HList(items=[rd]), initial=True)
            fields = dict(common, name="m", args=args, defaults=dflt, body=empty())
        else:
            # the callee is read in the enclosing scope; it is not one of the names looked for here
            st.assume(z3.Not(z3.Select(self.N0, z3.StringVal(SCOPE_CALLEE))))
            callee = st.alloc(HObj(N.Name, fields=dict(common, name=SCOPE_CALLEE, ctx="load"), path="callee"), initial=True)
            call = st.alloc(HObj(N.Call, fields=dict(common, node=callee, args=empty(), kwargs=empty(), dyn_args=None, dyn_kwargs=None), path="call"), initial=True)
            fields = dict(common, call=call, args=args, defaults=empty(), body=empty())
        self.node = st.alloc(HObj(getattr(N, self.which), fields=fields, path="node"), initial=True)
        return [self.visitor, self.node], {}

    def p_scope(self, pre, out):
        f = out.st.get(self.visitor).fields
        hn, hu = out.st.get(f["names"]) if isinstance(f.get("names"), Ref) else None, out.st.get(f["undeclared"]) if isinstance(f.get("undeclared"), Ref) else None
        if not isinstance(hn, HSet) or not isinstance(hu, HSet) or hn.items is not None or hu.items is not None:
            return False
        # the report: the name read in the default, if it is looked for and not hidden by the parameter before it
        u_exp = self.U0
        if self.default:
            u_exp = z3.If(z3.And(z3.Select(self.N0, self.q.t), self.q.t != self.p.t), z3.Store(self.U0, self.q.t, True), self.U0)
        if out.raised:
            # the search as a whole may only stop when everything looked for OUTSIDE this scope has been found
            x = z3.String(fresh_name("s"))
            return z3.And(out.value.cls is C.VisitorExit, hu.dom == u_exp, z3.ForAll([x], z3.Implies(z3.Select(self.N0, x), z3.Select(u_exp, x))))
        return z3.And(hn.dom == self.N0, hu.dom == u_exp)

    posts = [("declarations_end_with_the_scope", p_scope)]

    def concretize(self, model, pre, out):
        return {"vc": "nested_scope", "which": self.which, "name": model_value(model, self.p.t), "watched": bool(model_value(model, z3.Select(self.N0, self.p.t))),
                "default_reads": model_value(model, self.q.t) if self.default else None}

    def finding_key(self, res):
        w = res.witness or {}
        if isinstance(w, dict) and w.get("vc") == "nested_scope" and w.get("watched"):
            return "parameter_of_nested_scope_stops_the_search_for_its_name"
        return str(w)[:120]

    def replay(self, w):
        return replay_nested_scope(w)


HUNT_C07_1 = [
    ("{% for x in 'ab' %}{% macro m(loop) %}{% endmacro %}{{ loop.index }}{% endfor %}", {}, "12"),
    ("{% macro w() %}{{ caller(0) }}{% endmacro %}{% for x in 'ab' %}{% call(loop) w() %}{% endcall %}{{ loop.index }}/{{ loop.length }} {% endfor %}", {}, "1/2 2/2 "),
    ("{% for a in [1,2,3] %}{{ loop.index }}:{% for b in 'xy' %}{% macro m(loop) %}{% endmacro %}{{ loop.index }}{{ loop.last }}{% endfor %} {% endfor %}",
     {}, "1:1False2True 2:1False2True 3:1False2True "),
    # the parameter still shadows `loop` INSIDE the macro
    ("{% for x in 'ab' %}{% macro m(loop) %}<{{ loop }}>{% endmacro %}{{ m(7) }}{{ loop.index }}{% endfor %}", {}, "<7>1<7>2"),
    # reads inside a nested macro still count for the enclosing loop
    ("{% for x in 'ab' %}{% macro m() %}{{ loop.index }}{% endmacro %}{{ m() }}{% endfor %}", {}, "12"),
]


def replay_nested_scope(w=None):
    """Native replay: find_undeclared over [<macro / call block with parameter p>, <read of p>] must report p; and the
    hunt templates (a parameter named `loop` before `loop.index` in a for body) render the loop's own state."""
    import jinja2
    w = w or {}
    p = w.get("name") or "loop"
    problems = []
    for which in dict.fromkeys([w.get("which") or "Macro", "Macro", "CallBlock"]):
        for nm in dict.fromkeys([p, "loop", "caller"]):
            if which == "Macro":
                scope = N.Macro("m", [N.Name(nm, "param")], [], [])
            else:
                scope = N.CallBlock(N.Call(N.Name(SCOPE_CALLEE, "load"), [], [], None, None), [N.Name(nm, "param")], [], [])
            try:
                got = C.find_undeclared([scope, N.Output([N.Name(nm, "load")])], (nm,))
            except Exception as ex:  # noqa
                problems.append(f"find_undeclared raised {type(ex).__name__}: {ex}")
                continue
            if set(got) != {nm}:
                problems.append(f"find_undeclared([{which}(args=[{nm}]), Output({nm})], ({nm!r},)) reports {sorted(got)}: the read of {nm!r} AFTER the "
                                f"{which.lower()} is not found because its parameter has the same name")
    for is_async in (False, True):
        env = jinja2.Environment(enable_async=is_async)
        for src, ctx, want in HUNT_C07_1:
            got = _render(env, src, **ctx)
            if got != want:
                problems.append(f"{src!r} (async={is_async}) renders {got!r}, expected {want!r}")
    return (bool(problems), "; ".join(problems[:3]) or "a parameter of a nested macro / call block does not hide later reads of the same name")


class VisitBlock(VC):
    """visit_Block of both analysis visitors: a nested Block is a scope of its own: nothing is visited, nothing changes."""
    prop = PROP

    def __init__(self, cls_name):
        self.cls_name = cls_name
        self.target = f"jinja2.compiler:{cls_name}.visit_Block"
        super().__init__(PROP, f"C07.find_undeclared.{cls_name}.visit_Block")

    def configure(self, I):
        I.specs["NodeVisitor.visit"] = A.abstract_fn("visit", returns=None)
        I.specs["NodeVisitor.generic_visit"] = A.abstract_fn("generic_visit", returns=None)

    def setup(self, I, st):
        cls = getattr(C, self.cls_name)
        self.visitor = st.alloc(HObj(cls, fields={"names": sym("names", "obj"), "undeclared": sym("undeclared", "obj"), "filters": sym("filters", "obj"),
                                                  "tests": sym("tests", "obj")}, path="self"), initial=True)
        self.node = emit.make_node(st, N.Block, "node")
        return [self.visitor, self.node], {}

    def p_stops(self, pre, out):
        return out.returned and out.value is None and not out.st.written and not [e for e in out.st.trace if e.kind == "call"]

    posts = [("nothing_visited_nothing_changed", p_stops)]

    def concretize(self, model, pre, out):
        return {"vc": "visit_Block", "cls": self.cls_name}

    def replay(self, w):
        return differential(w)


class FindUndeclaredDriver(VC):
    """find_undeclared(nodes, names): a fresh UndeclaredNameVisitor over set(names) with nothing reported yet visits
    the given nodes in order; VisitorExit (and only it) ends the walk early; the visitor's report is returned."""
    prop = PROP
    target = "jinja2.compiler:find_undeclared"

    def __init__(self):
        super().__init__(PROP, "C07.find_undeclared.driver")

    def configure(self, I):
        I.inline.add("jinja2.compiler:UndeclaredNameVisitor.__init__")
        # the walk may stop with VisitorExit, or fail with a foreign exception (two concrete classes: VisitorExit's own base
        # RuntimeError, and an unrelated one) which must propagate
        I.specs["NodeVisitor.visit"] = A.abstract_fn("visit", returns=None, raises=[C.VisitorExit, RuntimeError, KeyError])

    def setup(self, I, st):
        self.nodes = (sym("node0", "obj"), sym("node1", "obj"), sym("node2", "obj"))
        self.names = ("loop", "caller")
        return [self.nodes, self.names], {}

    def p_walk(self, pre, out):
        calls = [e for e in out.st.trace if e.kind == "call" and e.name == "visit"]
        if not calls:
            return False
        recv = calls[0].args[0]
        if not (isinstance(recv, Ref) and isinstance(out.st.get(recv), HObj) and out.st.get(recv).cls is C.UndeclaredNameVisitor):
            return False
        if any(e.args[0] != recv or e.kwargs or len(e.args) != 2 for e in calls):
            return False
        seen = [e.args[1] for e in calls]
        if any(a is not b for a, b in zip(seen, self.nodes)) or len(seen) > len(self.nodes):
            return False
        raised = [isinstance(e.result, Exc) for e in calls]
        if any(raised[:-1]):
            return False  # walked on after an exception
        f = out.st.get(recv).fields
        hn, hu = out.st.get(f["names"]), out.st.get(f["undeclared"])
        if hn.items is None or sorted(hn.items) != sorted(self.names) or hu.items != []:
            return False
        if out.raised:
            # only a foreign exception of the walk propagates
            return raised[-1] and getattr(calls[-1].result, "tag", 0) == getattr(out.value, "tag", 1) and out.value.cls is not C.VisitorExit
        if raised[-1]:
            if calls[-1].result.cls is not C.VisitorExit:
                return False  # a foreign exception of the walk was swallowed
        elif len(seen) != len(self.nodes):
            return False
        return out.value == f["undeclared"]

    posts = [("visits_all_nodes_in_order_returns_the_report", p_walk)]

    def concretize(self, model, pre, out):
        return {"vc": "driver"}

    def replay(self, w):
        return replay_driver(w)


def replay_driver(w=None):
    """Native replay of find_undeclared's driver loop: all nodes are visited in order, VisitorExit ends the walk, any other
    exception of the walk propagates."""
    problems = []

    class Boom:
        def __init__(self, exc):
            self.exc = exc

        def iter_child_nodes(self, *a, **k):
            raise self.exc("walk failed")

    out = lambda n: N.Output([_name(n)])  # noqa: E731
    for nodes, names, want in (([out("other"), out("loop")], ("loop",), {"loop"}), ([out("loop"), out("other"), out("x")], ("loop", "other"), {"loop", "other"}),
                               ([out("a"), out("b"), out("c")], ("c", "zz"), {"c"}), ([], ("loop",), set())):
        try:
            got = C.find_undeclared(nodes, names)
        except Exception as ex:  # noqa
            problems.append(f"find_undeclared over {len(nodes)} outputs raised {type(ex).__name__}")
            continue
        if set(got) != want:
            problems.append(f"find_undeclared({[x.nodes[0].name for x in nodes]}, {names}) reports {sorted(got)}, specification {sorted(want)}")
    for exc in (RuntimeError, KeyError):
        try:
            got = C.find_undeclared([out("other"), Boom(exc), out("loop")], ("loop",))
            problems.append(f"a {exc.__name__} raised by the walk was swallowed (report {sorted(got)})")
        except exc:
            pass
        except Exception as ex:  # noqa
            problems.append(f"{exc.__name__} of the walk surfaced as {type(ex).__name__}")
    return (bool(problems), "; ".join(problems[:3]) or "find_undeclared visits all nodes in order and lets foreign exceptions through")


class DependencyAdd(VC):
    """DependencyFinderVisitor.visit_Filter / visit_Test: the children are walked and the name is recorded."""
    prop = PROP

    def __init__(self, which):
        self.which = which
        self.target = f"jinja2.compiler:DependencyFinderVisitor.visit_{which}"
        super().__init__(PROP, f"C07.find_undeclared.DependencyFinderVisitor.visit_{which}")

    def configure(self, I):
        I.specs["NodeVisitor.generic_visit"] = A.abstract_fn("generic_visit", returns=None)

    def setup(self, I, st):
        self.F0, self.T0 = z3.Const("filters0", S_ARR), z3.Const("tests0", S_ARR)
        self.filters = st.alloc(HSet(dom=self.F0, size=z3.Int("n_f"), kk="str"), initial=True)
        self.tests = st.alloc(HSet(dom=self.T0, size=z3.Int("n_t"), kk="str"), initial=True)
        self.visitor = st.alloc(HObj(C.DependencyFinderVisitor, fields={"filters": self.filters, "tests": self.tests}, path="self"), initial=True)
        self.nm = sym("node.name", "str")
        self.node = st.alloc(HObj(getattr(N, self.which), fields={"name": self.nm}, path="node"), initial=True)
        return [self.visitor, self.node], {}

    def p_records(self, pre, out):
        if out.raised:
            return False
        calls = [e for e in out.st.trace if e.kind == "call" and e.name == "generic_visit"]
        if len(calls) != 1 or list(calls[0].args) != [self.visitor, self.node]:
            return False
        f, t = out.st.get(self.filters).dom, out.st.get(self.tests).dom
        if self.which == "Filter":
            return z3.And(f == z3.Store(self.F0, self.nm.t, True), t == self.T0)
        return z3.And(t == z3.Store(self.T0, self.nm.t, True), f == self.F0)

    posts = [("children_walked_and_name_recorded", p_records)]

    def concretize(self, model, pre, out):
        return {"vc": "dependency"}

    def replay(self, w):
        return differential(w)


# ---- table obligation: which visit_* methods the analysis visitors define ---------------------------------

EXPECTED_VISITORS = {
    "UndeclaredNameVisitor": {"visit_Name", "visit_Block"},
    "DependencyFinderVisitor": {"visit_Filter", "visit_Test", "visit_Block"},
}
FOR_FIELDS = ("target", "iter", "body", "else_", "test", "recursive")


def visitor_table(task, tier, seed):
    """The generic walk (NodeVisitor.generic_visit over Node.iter_child_nodes) reaches every child of every node; the
    analysis visitors may special-case ONLY the node classes their specification names (Name resp. Filter/Test, and
    Block as scope boundary).  Any further visit_* override (e.g. a visit_For that skips the nested loop's else / test)
    changes which subtrees are searched."""
    rs = []

    def add(name, ok, detail, w=None):
        rs.append(Res(f"C07.find_undeclared.table.{name}", "discharged" if ok else "refuted", "table", 0, detail, "table", None if ok else dict(w or {}, table=name)))

    for cn, want in EXPECTED_VISITORS.items():
        cls = getattr(C, cn, None)
        if cls is None:
            add(f"{cn}.exists", False, f"compiler.{cn} is missing")
            continue
        mro = [k.__name__ for k in cls.__mro__]
        add(f"{cn}.bases", mro == [cn, "NodeVisitor", "object"] and cls.__mro__[1] is V.NodeVisitor, f"mro {mro}")
        own = {k for k, v in vars(cls).items() if isinstance(v, (types.FunctionType, staticmethod, classmethod, property)) or callable(v)}
        visit_methods = {k for k in dir(cls) if k.startswith("visit_")}
        # the name analysis may in addition treat nested macros / call blocks as scopes (both or none); such handlers are under
        # contract themselves (C07.find_undeclared.scope_handler[...]: all children walked, the declarations restored)
        scope = SCOPE_HANDLERS if cn == "UndeclaredNameVisitor" and SCOPE_HANDLERS <= visit_methods else set()
        # ... and (all or none) the statements whose parts are evaluated in a scope / an order of their own: for, with, set,
        # set block, filter block.  Those handlers are under contract in C06.uses_special.handler[...] (every child visited
        # exactly once in evaluation order, declarations of a scoped part restored) and decided by the differentials.
        if cn == "UndeclaredNameVisitor" and ORDER_HANDLERS <= visit_methods:
            scope = scope | ORDER_HANDLERS
        add(f"{cn}.visit_methods", visit_methods - scope == want, f"visit_* methods {sorted(visit_methods)}, specification names {sorted(want)}"
            + (f" and the scope handlers {sorted(scope)}" if scope else ""),
            {"cls": cn, "extra": sorted(visit_methods - want - scope), "missing": sorted(want - visit_methods)})
        walk = {k for k in ("visit", "generic_visit", "get_visitor", "__getattr__", "__getattribute__") if k in own}
        add(f"{cn}.walk_not_overridden", not walk, f"overrides {sorted(walk)}" if walk else "visit / generic_visit / get_visitor inherited from NodeVisitor",
            {"cls": cn, "overrides": sorted(walk)})
    # the generic walk: dispatch by class name, default = all children
    src_ok = True
    try:
        gv = inspect.getsource(V.NodeVisitor.generic_visit)
        tree = ast.parse(inspect.cleandoc("\n" + gv) if False else __import__("textwrap").dedent(gv))
        fn = tree.body[0]
        loops = [n for n in ast.walk(fn) if isinstance(n, ast.For)]
        src_ok = (len(loops) == 1 and ast.unparse(loops[0].iter) == "node.iter_child_nodes()" and not loops[0].orelse
                  and len([n for n in ast.walk(fn) if isinstance(n, (ast.If, ast.Break, ast.Continue, ast.Return, ast.Try))]) == 0)
    except Exception as ex:  # noqa
        src_ok = False
    add("NodeVisitor.generic_visit.walks_all_children", src_ok, "generic_visit = for child in node.iter_child_nodes(): self.visit(child, ...) without filter")
    add("For.fields", tuple(N.For.fields) == FOR_FIELDS, f"For.fields = {N.For.fields}")
    for cls_, flds in ((N.If, ("test", "body", "elif_", "else_")), (N.Macro, ("name", "args", "defaults", "body")), (N.CallBlock, ("call", "args", "defaults", "body")),
                       (N.Block, ("name", "body", "scoped", "required")), (N.Output, ("nodes",)), (N.Name, ("name", "ctx"))):
        add(f"{cls_.__name__}.fields", tuple(cls_.fields) == flds, f"{cls_.__name__}.fields = {cls_.fields}")
    # LoopContext(iterable, undefined, recurse, depth0): the positions visit_For fills
    for cls_ in (R.LoopContext, R.AsyncLoopContext):
        sig = list(inspect.signature(cls_.__init__).parameters)
        add(f"{cls_.__name__}.__init__.signature", sig == ["self", "iterable", "undefined", "recurse", "depth0"], f"{cls_.__name__}.__init__{tuple(sig)}")
    return rs


# ---- bounded differential stand-in -------------------------------------------------------------------------

def _name(n, ctx="load"):
    return N.Name(n, ctx)


def _exprs():
    return [lambda: _name("loop"), lambda: _name("other"), lambda: N.Filter(_name("loop"), "f1", [], [], None, None),
            lambda: N.Test(_name("other"), "t1", [], [], None, None), lambda: N.Filter(_name("caller"), "f2", [], [], None, None)]


def _leaves():
    return [("Output(%d)" % i, (lambda e=e: N.Output([e()]))) for i, e in enumerate(_exprs())]


def _compound(children, shallow, depth_tag):
    """all compound statements whose statement children come from `children` (one deep child at most: the other
    statement positions take `shallow` children), expressions from _exprs()"""
    ex = _exprs()
    out = []
    none = [("-", None)]
    for (bn, b) in children:
        for (en, e) in none + shallow:
            for ti in range(-1, 3):
                for ii in (0, 1):
                    out.append((f"For(iter={ii},body=[{bn}],else=[{en}],test={ti})",
                                lambda b=b, e=e, ti=ti, ii=ii: N.For(_name("x", "store"), ex[ii](), [b()], [e()] if e else [], ex[ti]() if ti >= 0 else None, False)))
    for (bn, b) in shallow:
        for (en, e) in children:
            for ti in (-1, 0, 3):
                out.append((f"For(iter=1,body=[{bn}],else=[{en}],test={ti})",
                            lambda b=b, e=e, ti=ti: N.For(_name("x", "store"), ex[1](), [b()], [e()], ex[ti]() if ti >= 0 else None, False)))
    for (bn, b) in children:
        for (en, e) in none + shallow[:2]:
            for ti in (0, 1, 2):
                out.append((f"If(test={ti},body=[{bn}],else=[{en}])", lambda b=b, e=e, ti=ti: N.If(ex[ti](), [b()], [], [e()] if e else [])))
    for (bn, b) in shallow[:2]:
        for (en, e) in children:
            out.append((f"If(test=1,body=[{bn}],else=[{en}])", lambda b=b, e=e: N.If(ex[1](), [b()], [], [e()])))
            out.append((f"If(test=1,body=[{bn}],elif=[If(body=[{en}])])", lambda b=b, e=e: N.If(ex[1](), [b()], [N.If(ex[1](), [e()], [], [])], [])))
    # lists with two statements / two expressions (a walk that only looks at the first or the last element of a list)
    other = lambda: N.Output([_name("other")])  # noqa: E731
    for (bn, b) in children:
        out.append((f"For(iter=1,body=[Output(1),{bn}],else=[-],test=-1)", lambda b=b: N.For(_name("x", "store"), ex[1](), [other(), b()], [], None, False)))
        out.append((f"For(iter=1,body=[{bn},Output(1)],else=[-],test=-1)", lambda b=b: N.For(_name("x", "store"), ex[1](), [b(), other()], [], None, False)))
        out.append((f"For(iter=1,body=[Output(1)],else=[Output(1),{bn}],test=-1)", lambda b=b: N.For(_name("x", "store"), ex[1](), [other()], [other(), b()], None, False)))
        out.append((f"If(test=1,body=[Output(1),{bn}],else=[-])", lambda b=b: N.If(ex[1](), [other(), b()], [], [])))
        out.append((f"If(test=1,body=[Output(1)],elif=[If(body=[Output(1)]),If(body=[{bn}])])",
                    lambda b=b: N.If(ex[1](), [other()], [N.If(ex[1](), [other()], [], []), N.If(ex[1](), [b()], [], [])], [])))
        out.append((f"Macro(body=[Output(1),{bn}])", lambda b=b: N.Macro("m", [_name("a", "param")], [], [other(), b()])))
    if depth_tag == 2:
        for i, e1 in enumerate(ex):
            for j, e2 in enumerate(ex):
                out.append((f"Output({i},{j})", lambda e1=e1, e2=e2: N.Output([e1(), e2()])))
    for (bn, b) in children:
        for scoped in (False, True):
            out.append((f"Block(scoped={scoped},body=[{bn}])", lambda b=b, scoped=scoped: N.Block("blk", [b()], scoped, False)))
        out.append((f"Macro(body=[{bn}])", lambda b=b: N.Macro("m", [_name("a", "param")], [ex[0]()], [b()])))
        out.append((f"CallBlock(body=[{bn}])", lambda b=b: N.CallBlock(N.Call(_name("other"), [ex[0]()], [], None, None), [_name("u", "param")], [], [b()])))
    return out


def reference_report(nodes, names):
    """the specification, executable: names occurring as load-context Name anywhere in the subtrees, except inside
    nested Block nodes; a name stops being looked for once it occurs in a non-load context (declared) - within the scope
    that declares it: a nested Macro / CallBlock is a scope of its own, what it declares (its parameters) is declared
    only inside of it"""
    wanted = set(names)
    found = set()

    def walk(n):
        if found == set(names) and found:
            return
        if isinstance(n, N.Block):
            return
        if isinstance(n, (N.Macro, N.CallBlock)):
            outside = set(wanted)
            for f in n.fields:
                v = getattr(n, f, None)
                for c in (v if isinstance(v, list) else [v]):
                    if isinstance(c, N.Node):
                        walk(c)
            wanted.clear()
            wanted.update(outside)
            return
        if isinstance(n, N.Name):
            if n.ctx == "load":
                if n.name in wanted:
                    found.add(n.name)
            else:
                wanted.discard(n.name)
            return
        for f in n.fields:
            v = getattr(n, f, None)
            for c in (v if isinstance(v, list) else [v]):
                if isinstance(c, N.Node):
                    walk(c)

    for n in nodes:
        walk(n)
    return found


def reference_deps(nodes):
    filters, tests = set(), set()

    def walk(n):
        if isinstance(n, N.Block):
            return
        if isinstance(n, N.Filter):
            filters.add(n.name)
        if isinstance(n, N.Test):
            tests.add(n.name)
        for f in n.fields:
            v = getattr(n, f, None)
            for c in (v if isinstance(v, list) else [v]):
                if isinstance(c, N.Node):
                    walk(c)

    for n in nodes:
        walk(n)
    return filters, tests


QUERIES = [("loop",), ("caller", "kwargs", "varargs"), ("loop", "other")]


def check_tree(label, make):
    """-> failure text or None"""
    node = make()
    for names in QUERIES:
        # as visit_For asks: the children in `body` of a loop around the tree; and as macro_body asks: a body list
        for how, nodes in (("For(body=[T]).iter_child_nodes(only=('body',))", lambda: N.For(_name("x", "store"), _name("s"), [node], [], None, False).iter_child_nodes(only=("body",))),
                           ("[T]", lambda: [node])):
            try:
                got = C.find_undeclared(nodes(), names)
            except Exception as ex:  # noqa
                return f"find_undeclared({how}, {names}) on T={label} raised {type(ex).__name__}: {ex}"
            want = reference_report([node], names)
            if set(got) != want:
                return f"find_undeclared({how}, {names}) on T={label} reports {sorted(got)}, specification {sorted(want)}"
    v = C.DependencyFinderVisitor()
    try:
        v.visit(node)
    except Exception as ex:  # noqa
        return f"DependencyFinderVisitor on T={label} raised {type(ex).__name__}: {ex}"
    wf, wt = reference_deps([node])
    if (v.filters, v.tests) != (wf, wt):
        return f"DependencyFinderVisitor on T={label} collects filters={sorted(v.filters)} tests={sorted(v.tests)}, specification {sorted(wf)} / {sorted(wt)}"
    return None


def all_trees(part=None, parts=1):
    leaves = _leaves()
    d2 = _compound(leaves, leaves, 2)
    k = 0
    for lab, mk in leaves + d2:
        if part is None or k % parts == part:
            yield lab, mk
        k += 1
    for lab, mk in _compound(d2, leaves, 3):
        if part is None or k % parts == part:
            yield lab, mk
        k += 1


def scope_trees():
    """Statement lists in which a nested macro / call block has a parameter named like a name that is looked for (or an
    unrelated one), with reads of that name before, inside and after it; wrapped in a loop body, an if body, a macro body."""
    rd = {"loop": lambda: N.Output([_name("loop")]), "caller": lambda: N.Output([N.Filter(_name("caller"), "f2", [], [], None, None)]),
          "other": lambda: N.Output([_name("other")])}
    mk = {"Macro": lambda p, body: N.Macro("m", [_name("a", "param"), _name(p, "param")], [_name("other")], body),
          "CallBlock": lambda p, body: N.CallBlock(N.Call(_name("other"), [], [], None, None), [_name(p, "param")], [], body)}
    for sname in ("Macro", "CallBlock"):
        for p in ("loop", "caller", "b"):
            for inside, before, after in itertools.product(("-", "loop", "caller", "other"), ("-", "loop"), ("-", "loop", "caller", "other")):
                def stmts(sname=sname, p=p, inside=inside, before=before, after=after):
                    out = [rd[before]()] if before != "-" else []
                    out.append(mk[sname](p, [rd[inside]()] if inside != "-" else []))
                    if after != "-":
                        out.append(rd[after]())
                    return out
                inner = f"[{before},{sname}(args=[{p}],body=[{inside}]),{after}]"
                yield f"For(body={inner})", lambda s=stmts: N.For(_name("x", "store"), _name("other"), s(), [], None, False)
                yield f"If(body={inner})", lambda s=stmts: N.If(_name("other"), s(), [], [])
                yield f"Macro(body={inner})", lambda s=stmts: N.Macro("outer", [_name("a", "param")], [], s())
                yield f"For(body=[For(body={inner},else=[Output(0)])])", lambda s=stmts: N.For(
                    _name("x", "store"), _name("other"), [N.For(_name("y", "store"), _name("other"), s(), [N.Output([_name("loop")])], None, False)], [], None, False)


LOST_AFTER_PARAMETER = "read_after_a_nested_scope_with_a_parameter_of_the_same_name_not_found"


def failure_class(label, text):
    """the known class: the report misses exactly names that are parameters of a nested macro / call block in the tree"""
    m = re.search(r"reports \[(.*?)\], specification \[(.*?)\]$", text or "")
    if m:
        got = set(re.findall(r"'(\w+)'", m.group(1)))
        want = set(re.findall(r"'(\w+)'", m.group(2)))
        if got < want and all(f"(args=[{nm}]" in label for nm in want - got):
            return LOST_AFTER_PARAMETER
    return (text or "")[:80]


class ScopeDifferential(Task):
    """bounded differential over the scope_trees family; every CLASS of disagreement is reported (a known class does not
    hide another one)"""
    kind = "bounded"
    prop = PROP
    name = "C07.find_undeclared.differential[nested_scopes]"
    bound_text = ("all statement lists [read?, Macro|CallBlock(parameter in {loop, caller, b}, body=[read?]), read?] with reads of loop / caller / other, "
                  "as body of a For, an If, a Macro and of a For nested in a For; queried for ('loop',), ('caller','kwargs','varargs'), ('loop','other'); "
                  "compared with the executable specification (a nested macro / call block is a scope of its own)")

    def run(self, tier, seed):
        t0 = time.time()
        n, seen, res = 0, {}, []
        for lab, mk in scope_trees():
            n += 1
            bad = check_tree(lab, mk)
            if bad:
                k = failure_class(lab, bad)
                if k not in seen and len(seen) < 6:
                    seen[k] = True
                    res.append(Res(self.name, "refuted", "bounded", time.time() - t0, bad, self.kind, witness={"tree": lab, "detail": bad, "class": k, "family": "scope"}))
        self.stats = {"trees": n}
        return res or [Res(self.name, "bounded-ok", "bounded", time.time() - t0, f"{n} trees agree with the specification", self.kind)]

    def finding_key(self, res):
        return (res.witness or {}).get("class") or (res.detail or "")[:80]

    def replay(self, w):
        w = w or {}
        for lab, mk in scope_trees():
            if w.get("tree") and w["tree"] != lab:
                continue
            bad = check_tree(lab, mk)
            if bad:
                return (True, bad)
        return replay_nested_scope(w)


class Differential(Task):
    kind = "bounded"
    prop = PROP

    def __init__(self, part, parts):
        self.part, self.parts = part, parts
        self.name = f"C07.find_undeclared.differential[{part + 1}/{parts}]"
        self.bound_text = ("all statement trees up to depth 3 over {For(iter, body, else_, test), If(test, body, elif_, else_), Block(scoped?), Macro, CallBlock, "
                           "Output(expr)} with expressions from {Name loop, Name other, Filter(Name loop), Test(Name other), Filter(Name caller)}, at most one "
                           "depth-2 child per node, queried for ('loop',), ('caller','kwargs','varargs'), ('loop','other'); compared with the executable specification")

    def run(self, tier, seed):
        t0 = time.time()
        n = 0
        for lab, mk in all_trees(self.part, self.parts):
            n += 1
            bad = check_tree(lab, mk)
            if bad:
                return [Res(self.name, "refuted", "bounded", time.time() - t0, bad, self.kind, witness={"tree": lab, "detail": bad})]
        self.stats = {"trees": n}
        return [Res(self.name, "bounded-ok", "bounded", time.time() - t0, f"{n} trees agree with the specification", self.kind)]

    def finding_key(self, res):
        return (res.detail or "")[:80]

    def replay(self, w):
        return differential(w)


def differential(w=None):
    """Native replay: the small-tree differential restricted to the nested-loop shapes, plus the rendering oracle."""
    for lab, mk in all_trees():
        if w and w.get("tree") and w["tree"] != lab:
            continue
        bad = check_tree(lab, mk)
        if bad:
            return (True, bad)
        if not (w and w.get("tree")) and lab.count("(") > 6:
            break
    v, d = native_loops(w)
    # F11 (else indicator) is a different obligation's business: only loop-variable problems count here
    import jinja2
    env = jinja2.Environment()
    probs = []
    for src, ctx, want, needs in LOOP_CASES:
        if needs or want is None:
            continue
        got = _render(env, src, **ctx)
        if got != want:
            probs.append(f"{src!r} renders {got!r}, documented {want!r}")
    return (bool(probs), "; ".join(probs[:3]) or "name analysis agrees with the specification on the small trees; nested-loop templates render as documented")


def native_else(w=None):
    return native_loops(w)


def loopcontrol_pred(word):
    def pred(sc, tree, ph, txt):
        if sc.outcome == "raise":
            return [f"raises {sc.value!r}"]
        lines = [ln.strip() for ln in txt.splitlines() if ln.strip()]
        return [] if lines == [word] else [f"{{% {word} %}} is compiled to {txt!r} instead of the python statement `{word}` (which leaves the loop body "
                                           "at that point: what the else / iteration obligations assume)"]
    return pred


TASKS = FOR_TASKS + [
    EmitTask(PROP, "C07.emit.visit_Continue", "jinja2.compiler:CodeGenerator.visit_Continue", N.Continue, loopcontrol_pred("continue"), mode="raw",
             buffers=(None, "t_buf"), replay_fn=native_loops),
    EmitTask(PROP, "C07.emit.visit_Break", "jinja2.compiler:CodeGenerator.visit_Break", N.Break, loopcontrol_pred("break"), mode="raw",
             buffers=(None, "t_buf"), replay_fn=native_loops),

    VisitName(), VisitBlock("UndeclaredNameVisitor"), VisitBlock("DependencyFinderVisitor"), FindUndeclaredDriver(),
    DependencyAdd("Filter"), DependencyAdd("Test"),
    NestedScope("Macro"), NestedScope("CallBlock"), NestedScope("Macro", default=True),
] + [ScopeHandler(w) for w in ("Macro", "CallBlock") if f"visit_{w}" in vars(C.UndeclaredNameVisitor)] + [
    FnTask(PROP, "C07.find_undeclared.table", visitor_table, "table", differential),
] + [Differential(i, 4) for i in range(4)] + [ScopeDifferential()]
