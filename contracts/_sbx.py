"""Helpers shared by the sandbox contracts C17 / C18 / C19 (not a property module).

Everything here is registered per Interp instance from ``configure(I)``; no engine file is edited.
"""
from __future__ import annotations

import ast
import inspect

import z3

from pyvc.values import Sym, Ref, SSeq, HObj, HDict, HList, Closure, Exc, Event, Obj, fresh, fresh_name, Unsupported
from pyvc.interp import Raised
from pyvc.smt import to_term, host_const
from pyvc.ops import isinst_fn


# ---------------------------------------------------------------- isinstance on the live classes
def exact_types(I, table):
    """``table``: {z3 Obj term (as string) -> live class}.  isinstance(v, C) for an opaque value whose exact
    type is known is resolved with issubclass on the live classes (ABC registrations included)."""

    def isinstance_obj(I_, st, args, kwargs, node):
        v, classes = args
        T = table.get(str(v.t))
        if T is None:
            return None
        return [(st, any(issubclass(T, c) for c in classes))]

    I.specs["isinstance_obj"] = isinstance_obj
    prev_type = I.specs.get(("fn", id(type)))

    def builtin_type(I_, st, args, kwargs, node):
        if len(args) == 1 and isinstance(args[0], Sym) and str(args[0].t) in table:
            return [(st, table[str(args[0].t)])]
        if prev_type is not None:
            return prev_type(I_, st, args, kwargs, node)
        from pyvc import models
        r = models.instantiate(I_, st, type, args, kwargs, node)
        if r is None:
            raise Unsupported("type(...)", node)
        return r

    I.specs[("fn", id(type))] = builtin_type


# ---------------------------------------------------------------- zero-argument super()
class _SuperProxy:
    """Host stand-in for ``super()`` inside a method of ``owner`` executed on ``self_ref``: attribute access gives the
    next definition along the MRO of the receiver's class, as a Closure over the real source bound to the receiver."""

    def __init__(self, I, owner, recv_cls, self_ref):
        object.__setattr__(self, "_d", (I, owner, recv_cls, self_ref))

    def __getattribute__(self, name):
        if name in ("_d", "__class__", "__dict__"):
            return object.__getattribute__(self, name)
        I, owner, recv_cls, self_ref = object.__getattribute__(self, "_d")
        mro = recv_cls.__mro__
        for k in mro[mro.index(owner) + 1:]:
            if name in k.__dict__:
                fn = k.__dict__[name]
                if not inspect.isfunction(fn) or not I.is_repo(fn):
                    # a library method (string.Formatter.__init__ ...): abstract callee, recorded as `super().<name>`
                    from pyvc import abstract as A

                    def stub(*a, **k):
                        raise RuntimeError("abstract")

                    I.__dict__.setdefault("_super_stubs", []).append(stub)
                    I.specs[("fn", id(stub))] = A.abstract_fn(f"super().{name}", returns=None)
                    return stub
                clo = I.closure_of_function(fn)
                clo.self_val = self_ref
                return clo
        raise AttributeError(name)


def install_super(I, owner, get_self):
    """super() without arguments, for a VC whose target is a method of ``owner``; get_self() -> (Ref, live class)."""

    def h(I_, st, args, kwargs, node):
        if args:
            raise Unsupported("super() with arguments", node)
        ref, cls = get_self()
        return [(st, _SuperProxy(I_, owner, cls, ref))]

    I.specs[("fn", id(super))] = h


# ---------------------------------------------------------------- f(*args, **kwargs) with symbolic args / kwargs
class StarSeq:
    """marker in an argument list: the elements of a sequence of symbolic length, spliced at this position"""

    def __init__(self, seq):
        self.seq = seq

    def __repr__(self):
        return f"*{self.seq!r}"


STARKW = "**"


def install_star_calls(I):
    """``f(*a, **k)`` with a symbolic tuple / abstract dict: the callee receives a StarSeq marker resp. the dict
    under the key '**' (only abstract callees can take them).  Also tuple + SSeq concatenation."""
    base_iter, base_dict, base_seq_binop = I.iter_concrete, I.dict_concrete, I.seq_binop

    def iter_concrete(st, v, node=None, allow_abstract=False):
        if isinstance(node, ast.Starred):
            if isinstance(v, SSeq):
                return [StarSeq(v)]
            if isinstance(v, Ref) and isinstance(st.get(v), HList) and not st.get(v).concrete:
                h = st.get(v)
                return [StarSeq(SSeq(h.arr, h.n, h.k))]
        return base_iter(st, v, node, allow_abstract)

    def dict_concrete(st, v, node=None):
        if isinstance(v, Ref) and isinstance(st.get(v), HDict) and not st.get(v).concrete and isinstance(node, ast.Call):
            return {STARKW: v}
        return base_dict(st, v, node)

    def seq_binop(st, op, a, b, node):
        if op is ast.Add and isinstance(a, tuple) and isinstance(b, SSeq) and b.k == "obj":
            # (x1..xm) + s : fresh sequence r, |r| = m + |s|, r[i] = x_i, r[m+j] = s[j]
            m = len(a)
            arr = z3.Const(fresh_name("cat"), z3.ArraySort(z3.IntSort(), Obj))
            for i, x in enumerate(a):
                st.assume(z3.Select(arr, i) == to_term(x, "obj"))
            j = z3.Int(fresh_name("j"))
            st.assume(z3.ForAll([j], z3.Implies(z3.And(0 <= j, j < b.n), z3.Select(arr, m + j) == z3.Select(b.arr, j))))
            r = SSeq(arr, b.n + m, "obj")
            st.ghost = dict(st.ghost)
            st.ghost.setdefault("concat", [])
            st.ghost["concat"] = st.ghost["concat"] + [(r, tuple(a), b)]
            return [(st, r)]
        return base_seq_binop(st, op, a, b, node)

    I.iter_concrete, I.dict_concrete, I.seq_binop = iter_concrete, dict_concrete, seq_binop


# ---------------------------------------------------------------- misc
def ret_term(v):
    """return value of a predicate as a z3 Bool (host bools included)"""
    return to_term(v, "bool")


def is_none(v):
    if v is None:
        return True
    if isinstance(v, Sym) and v.k == "obj":
        return v.t == host_const(None)
    return False


def same(a, b):
    """structural identity of two interpreter values"""
    if isinstance(a, Sym) and isinstance(b, Sym):
        return a.k == b.k and a.t.eq(b.t)
    if isinstance(a, Ref) and isinstance(b, Ref):
        return a.id == b.id
    return a is b or (type(a) is type(b) and isinstance(a, (str, int, bool, type(None))) and a == b)


def model_str(model, term, default=""):
    v = model.eval(term, model_completion=True)
    try:
        return v.as_string() if z3.is_string_value(v) else default
    except Exception:
        return default


def unescape_z3(s):
    """z3 prints non-printable characters as \\u{..}"""
    import re
    return re.sub(r"\\u\{([0-9a-fA-F]+)\}", lambda m: chr(int(m.group(1), 16)), s)


# ---------------------------------------------------------------- frame watch
def install_frame_watch(I, log):
    """Every heap write performed anywhere during the symbolic run - also inside loop bodies that are cut at an invariant,
    whose states never reach a postcondition - is checked when it happens: a write to an object that the function under
    contract did not allocate is recorded as (description, path condition at that moment)."""

    def wrap(name, pos):
        base = getattr(I, name)

        def w(st, *args, **kw):
            before = {id(s): None for s in ()}
            pre_written = set(st.written)
            rs = base(st, *args, **kw)
            for s, _v in rs:
                for (rid, field) in s.written - pre_written:
                    if rid not in s.allocated:
                        node = args[-1] if args and hasattr(args[-1], "lineno") else kw.get("node")
                        log.append((f"{name} on object #{rid} (line {getattr(node, 'lineno', '?')})", list(s.pc)))
            return rs

        setattr(I, name, w)

    for nm in ("setitem", "delitem", "setattr", "call_method"):
        wrap(nm, 0)
