"""Helpers shared by the lexer contracts C11 / C12 / C39 (not a property module).

* segments of the REAL `Lexer.tokeniter` located by AST structure (never by line number or by local names), run as
  straight-line programs by the symbolic executor (`SegmentVC`);
* dependency specs registered per Interp from `configure(I)` (no engine file is edited): `str.rstrip()` and
  `Pattern.fullmatch` over the full Unicode whitespace class, abstract match objects whose `groups()/group()/
  groupdict()/end()` obey the regex facts of the rule's real pattern;
* the whitespace-control reference model written from docs/templates.rst "Whitespace Control" (DESIGN Appendix A.3)
  and the bounded skeleton corpus shared by C12.bounded.trim and C39.bounded.lex.
"""
from __future__ import annotations

import ast
import itertools
import random

import z3

from pyvc import extract
from pyvc import regexfacts as RF
from pyvc.contract import VC, Outcome, Res, short_model
from pyvc.interp import Frame, Raised
from pyvc.smt import to_term, host_const, str2obj
from pyvc.values import State, Sym, Ref, HObj, HList, HDict, Exc, Unsupported, fresh, fresh_name
from pyvc import models

import jinja2
import jinja2.lexer as L

NL = z3.StringVal("\n")
# the uninterpreted `str.count("\n")` of the engine's str model.  The engine names it `str.count['\n']`, a symbol cvc5
# cannot parse (backslash in a quoted symbol); in the processes of the lexer contracts it is created under a clean name.
models._count_fns.setdefault("\n", z3.Function("str_count_newline", z3.StringSort(), z3.IntSort()))
nl_count = models.str_count_fn("\n")


# ================================================================== locating the real code


class Roles:
    """Names of the locals of tokeniter by ROLE, derived from the AST (a renamed local keeps its role)."""


def _is_call_to_attr(node, attr):
    return isinstance(node, ast.Call) and isinstance(node.func, ast.Attribute) and node.func.attr == attr


def tokeniter_parts():
    """-> dict with the FunctionDef of the real Lexer.tokeniter, its live module, and the structural parts:
    pre (statements before the `while`), loop (`while`), rule_for (the `for ... in statetokens` inside it),
    lstrip_if (the `if isinstance(tokens, OptionalLStrip)` statement), tuple_if, at_end (for-else body), roles."""
    fn = extract.resolve("jinja2.lexer:Lexer.tokeniter")
    node, module = extract.function_ast(fn)
    body = [s for s in node.body if not (isinstance(s, ast.Expr) and isinstance(s.value, ast.Constant))]
    loops = [i for i, s in enumerate(body) if isinstance(s, ast.While)]
    if len(loops) != 1:
        raise Unsupported("tokeniter: expected exactly one top-level while loop")
    loop = body[loops[0]]
    fors = [s for s in loop.body if isinstance(s, ast.For)]
    if len(fors) != 1 or not isinstance(fors[0].target, ast.Tuple) or len(fors[0].target.elts) != 3:
        raise Unsupported("tokeniter: expected one `for regex, tokens, new_state in ...` in the while body")
    rule_for = fors[0]
    lstrip_ifs = [n for n in ast.walk(rule_for) if isinstance(n, ast.If) and isinstance(n.test, ast.Call)
                  and getattr(n.test.func, "id", None) == "isinstance" and len(n.test.args) == 2
                  and getattr(n.test.args[1], "id", None) == "OptionalLStrip"]
    tuple_ifs = [n for n in rule_for.body if isinstance(n, ast.If) and isinstance(n.test, ast.Call)
                 and getattr(n.test.func, "id", None) == "isinstance" and len(n.test.args) == 2
                 and getattr(n.test.args[1], "id", None) == "tuple"]
    if len(lstrip_ifs) != 1 or len(tuple_ifs) != 1:
        raise Unsupported("tokeniter: OptionalLStrip / tuple tests not found")
    r = Roles()
    a = node.args.args
    r.self, r.source, r.name, r.filename, r.state = [x.arg for x in a[:5]]
    r.regex, r.tokens, r.new_state = [e.id for e in rule_for.target.elts]
    r.statetokens = rule_for.iter.id if isinstance(rule_for.iter, ast.Name) else None
    first = rule_for.body[0]
    if not (isinstance(first, ast.Assign) and _is_call_to_attr(first.value, "match") and len(first.value.args) == 2):
        raise Unsupported("tokeniter: the rule loop does not start with `m = regex.match(source, pos)`")
    r.m = first.targets[0].id
    r.pos = first.value.args[1].id
    r.groups = r.text = None
    for n in ast.walk(rule_for):
        if isinstance(n, ast.Assign) and _is_call_to_attr(n.value, "groups") and isinstance(n.targets[0], ast.Name):
            r.groups = n.targets[0].id
        if isinstance(n, ast.AnnAssign) and n.value is not None and _is_call_to_attr(n.value, "groups"):
            r.groups = n.target.id
    s0 = lstrip_ifs[0].body[0]
    if isinstance(s0, ast.Assign) and isinstance(s0.value, ast.Subscript):
        r.text = s0.targets[0].id
    ys = [n for n in ast.walk(rule_for) if isinstance(n, ast.Yield) and isinstance(n.value, ast.Tuple)]
    r.lineno = ys[0].value.elts[0].id if ys else None
    # initialisations before the loop, by the constant they store
    consts = {}
    r.balancing_stack = r.stack = r.source_length = None
    for s in body[: loops[0]]:
        tgt, val = None, None
        if isinstance(s, ast.Assign) and len(s.targets) == 1 and isinstance(s.targets[0], ast.Name):
            tgt, val = s.targets[0].id, s.value
        elif isinstance(s, ast.AnnAssign) and isinstance(s.target, ast.Name):
            tgt, val = s.target.id, s.value
        if tgt is None:
            continue
        if isinstance(val, ast.Constant):
            consts[tgt] = val.value
        elif isinstance(val, ast.List) and not val.elts:
            r.balancing_stack = tgt
        elif isinstance(val, ast.List):
            r.stack = tgt
        elif isinstance(val, ast.Call) and getattr(val.func, "id", None) == "len":
            r.source_length = tgt
    others0 = [k for k, v in consts.items() if v == 0 and v is not False and k not in (r.pos,)]
    trues = [k for k, v in consts.items() if v is True]
    r.newlines_stripped = others0[0] if len(others0) == 1 else None
    r.line_starting = trues[0] if len(trues) == 1 else None
    missing = [k for k, v in vars(r).items() if v is None]
    if missing:
        raise Unsupported(f"tokeniter: could not identify the locals playing the roles {missing}")
    return {"fn": node, "module": module, "pre": body[: loops[0]], "loop": loop, "rule_for": rule_for,
            "lstrip_if": lstrip_ifs[0], "tuple_if": tuple_ifs[0], "at_end": rule_for.orelse, "roles": r}


def mstr(model, term):
    """python str of a string term in a z3 model (z3 prints non-ASCII characters as \\u{..} escapes)"""
    import re as _re
    v = model.eval(term, model_completion=True)
    txt = v.as_string() if z3.is_string_value(v) else str(v)
    return _re.sub(r"\\u\{([0-9a-fA-F]+)\}", lambda m: chr(int(m.group(1), 16)), txt)


def check_sat_fresh(formulas, timeout_ms=10000, seed=0, cvc5_first=False, cvc5_only=False):
    """z3 briefly, then /usr/bin/cvc5 --strings-exp on the formulas AS GENERATED (smt2 text taken before any z3 check),
    then z3 with the full budget.  'sat' is only ever taken from z3 (it carries the model for the witness)."""
    import os
    import subprocess
    import tempfile
    import time
    from pyvc.smt import Result, _solver, host_distinct_axiom, CVC5
    t0 = time.time()

    def mk(budget):
        s = _solver(budget, seed)
        s.add(host_distinct_axiom())
        for f in formulas:
            s.add(f)
        return s

    text = "(set-logic ALL)\n" + mk(1000).to_smt2()
    reason = ""
    plan = (None,) if cvc5_only else (min(timeout_ms, 250 if cvc5_first else 1500), None, timeout_ms // 2, timeout_ms)
    for attempt, budget in enumerate(plan):
        if budget is None:
            if not os.path.exists(CVC5):
                continue
            with tempfile.NamedTemporaryFile("w", suffix=".smt2", delete=False, dir=os.environ.get("PYVC_TMP", None)) as f:
                f.write(text)
                path = f.name
            try:
                p = subprocess.run([CVC5, "--strings-exp", f"--tlimit={int(timeout_ms)}", path], capture_output=True, text=True,
                                   timeout=timeout_ms / 1000 + 5)
                out = p.stdout.strip().splitlines()
                if out and out[0] == "unsat":
                    return Result("unsat", None, time.time() - t0, "cvc5")
            except Exception:
                pass
            finally:
                try:
                    os.unlink(path)
                except OSError:
                    pass
            continue
        s = mk(budget)
        if attempt:
            s.set("random_seed", (int(seed) + 7919 * attempt) % (2 ** 31))  # z3's sequence solver is seed-sensitive
        r = s.check()
        if r == z3.unsat:
            return Result("unsat", None, time.time() - t0, "z3")
        if r == z3.sat:
            return Result("sat", s.model(), time.time() - t0, "z3")
        reason = s.reason_unknown()
    return Result("unknown", None, time.time() - t0, "z3", reason)


def _heavy(f):
    """does the formula contain a quantifier or a regular-language membership"""
    seen = set()
    todo = [f]
    while todo:
        e = todo.pop()
        if e.get_id() in seen:
            continue
        seen.add(e.get_id())
        if z3.is_quantifier(e):
            return True
        if z3.is_app(e) and e.decl().kind() == z3.Z3_OP_SEQ_IN_RE:
            return True
        todo.extend(e.children())
    return False


class SegmentVC(VC):
    """Contract on a straight-line SEGMENT of a real function: `segment(self)` returns
    (list of real ast statements, FunctionDef node, live module, frame qualname); `setup` returns the dict of
    locals the segment starts with.  Outcomes carry the completion kind (ok/break/continue/return/raise)."""

    def segment(self):
        raise NotImplementedError

    def paths(self, I):
        st = State()
        self.configure(I)
        stmts, fn_node, module, qualname = self.segment()
        local = self.setup(I, st)
        pre = st.fork()
        fid = st.new_frame(dict(local))
        self.fid = fid
        fr = Frame(fid, [], module, qualname, set(), fn_node=fn_node)
        I.depth = getattr(I, "depth", 0) + 1
        try:
            outs = I.exec_block(stmts, st, fr)
        finally:
            I.depth -= 1
        res = []
        for i, (s, c) in enumerate(outs):
            res.append(Outcome(s, c.kind, c.value, i))
        return pre, res

    def discharge(self, name, pc, cond, timeout, seed, pre, out):
        """as VC.discharge, but cvc5 is given the formulas as generated (the shared back end hands it z3's
        preprocessed assertion stack, on which cvc5 1.0.3 times out for several of the string VCs here)"""
        if cond is True or cond is False:
            return super().discharge(name, pc, cond, timeout, seed, pre, out)
        clause = name.rsplit("#", 1)[0]
        pref = self.__dict__.setdefault("_backend_pref", {})
        r = check_sat_fresh(list(pc) + [z3.Not(cond)], min(timeout, 4000), seed, cvc5_first=pref.get(clause) == "cvc5")
        if r.status == "unsat" and r.seconds > 0.5:
            pref[clause] = r.backend
        if r.status == "unknown":
            # helper lemmas (each proved first) are only brought in when the direct attempt is undecided
            t_first = r.seconds
            pc = list(pc) + self.proved_lemmas(pc, out, timeout, seed)
            r = check_sat_fresh(list(pc) + [z3.Not(cond)], timeout, seed)
            r.seconds += t_first
        if r.status == "unsat":
            return Res(name, "discharged", r.backend, r.seconds, "", self.kind)
        if r.status == "sat":
            wit = None
            if pre is not None:
                try:
                    wit = self.concretize(r.model, pre, out)
                except Exception as ex:  # noqa
                    wit = {"concretize_error": repr(ex)}
            return Res(name, "refuted", r.backend, r.seconds, self.describe(out) + " model: " + short_model(r.model), self.kind, wit)
        return Res(name, "unknown", r.backend, r.seconds, f"solver: {r.reason}", self.kind)

    def lemmas(self, out):
        """candidate helper lemmas for this path (z3 Bools); each is used only after it has been PROVED from the path
        condition alone (a cut), so a wrong candidate can never make an obligation pass"""
        return []

    def proved_lemmas(self, pc, out, timeout, seed):
        """each candidate is tried from no assumptions (tautologies of the term structure), then from the 'light' part of the
        path condition (no quantifiers / regular-language memberships), then from the whole path condition"""
        if out is None:
            return []
        cache = self.__dict__.setdefault("_lemma_cache", {})
        if out.idx not in cache:
            ok = []
            light = [f for f in pc if not _heavy(f)]
            for lem in self.lemmas(out):
                for base, budget in (([], 1500), (light, 2500), (list(pc), min(timeout, 5000))):
                    r = check_sat_fresh(base + ok + [z3.Not(lem)], budget, seed)
                    if r.status == "unsat":
                        ok.append(lem)
                        break
                    if r.status == "sat" and base is not light and not base == []:
                        break
            cache[out.idx] = ok
        return cache[out.idx]

    def local(self, out, name):
        return out.st.frames[self.fid].get(name)

    def describe(self, out):
        if out is None:
            return ""
        return f"path#{out.idx} completes with {out.kind}" + (f" {out.value!r}" if out.kind == "raise" else "")


# ================================================================== dependency specs (full Unicode whitespace)

WS = RF.z3_space()  # the class `\s` / str.isspace / what str.rstrip() strips (table obligation C12.ws.same_class)
WS_STAR = z3.Star(WS)
WS_PLUS = z3.Plus(WS)


def all_ws(x):
    """x consists of whitespace characters only (possibly empty); phrased so that it matches both the `\\s+` fact of
    Pattern.fullmatch and the empty case syntactically"""
    return z3.Or(x == z3.StringVal(""), z3.InRe(x, WS_PLUS))


def is_ws_char(c):
    """c is a one-character string in the whitespace class"""
    return z3.InRe(c, WS)


def char_at(s, i):
    return z3.SubString(s, i, 1)


def suffix_from(s, k):
    return z3.SubString(s, k, z3.Length(s) - k)


class HostStub:
    """a host callable standing for a library method; its spec is registered under ('fn', id(stub))"""

    def __init__(self, name):
        self.__name__ = name

    def __call__(self, *a, **k):  # never run
        raise RuntimeError("stub")


MATCH = HostStub("<match object>")  # truthy result of fullmatch


def not_none(st, v):
    """a str value is not None (the engine compares kinds through str2obj; make the fact explicit)"""
    if isinstance(v, Sym) and v.k == "str":
        st.assume(str2obj(v.t) != host_const(None))
    return v


def install_string_specs(I, patterns=()):
    """attr_hook for: <symbolic str>.rstrip (dependency spec, position-wise AND as a regular language),
    <real Pattern>.fullmatch / .match for the patterns listed (language of the REAL pattern via regexfacts.to_z3)."""
    keep = I.__dict__.setdefault("_lex_keep", [])
    prev = I.attr_hook
    pat_re = {id(p): RF.to_z3(p) for p in patterns}

    def rstrip_spec(recv):
        def h(I_, st, args, kwargs, node):
            if args or kwargs:
                raise Unsupported("str.rstrip(chars)", node)
            models.used("str.rstrip [Unicode whitespace, position-wise]")
            s = to_term(recv, "str")
            r = fresh("rstrip", "str")
            k = z3.Length(r.t)
            i = z3.Int(fresh_name("ri"))
            st.assume(
                z3.PrefixOf(r.t, s), r.t == z3.SubString(s, 0, k), k <= z3.Length(s),
                z3.ForAll([i], z3.Implies(z3.And(k <= i, i < z3.Length(s)), is_ws_char(char_at(s, i)))),
                z3.Or(k == 0, z3.Not(is_ws_char(char_at(s, k - 1)))),
                z3.InRe(suffix_from(s, k), WS_STAR), all_ws(suffix_from(s, k)),
                s == z3.Concat(r.t, suffix_from(s, k)),
            )
            not_none(st, r)
            return [(st, Sym(r.t, "str", getattr(recv, "tags", frozenset())))]
        return h

    def fullmatch_spec(p):
        def h(I_, st, args, kwargs, node):
            models.used(f"re.Pattern.fullmatch [{p.pattern!r}: truthy iff string[pos:] is in the language of the parsed pattern]")
            s = to_term(args[0], "str")
            pos = to_term(args[1], "int") if len(args) > 1 else z3.IntVal(0)
            if len(args) > 2:
                raise Unsupported("fullmatch endpos", node)
            cond = z3.And(0 <= pos, pos <= z3.Length(s), z3.InRe(suffix_from(s, pos), pat_re[id(p)]))
            out = []
            for s1, b in I_.fork_bool(st, cond):
                out.append((s1, MATCH if b else None))
            return out
        return h

    def rfind_spec(recv):
        def h(I_, st, args, kwargs, node):
            if len(args) != 1 or kwargs or not (isinstance(args[0], str) and len(args[0]) == 1):
                raise Unsupported("str.rfind: only a one-character literal needle is specified", node)
            models.used("str.rfind [one-character needle: highest index, else -1; without seq.last_indexof]")
            s = to_term(recv, "str")
            c = z3.StringVal(args[0])
            r = fresh("rfind", "int")
            i = z3.Int(fresh_name("fi"))
            st.assume(z3.Or(
                z3.And(r.t == -1, z3.Not(z3.Contains(s, c))),
                z3.And(0 <= r.t, r.t < z3.Length(s), char_at(s, r.t) == c, z3.Not(z3.Contains(suffix_from(s, r.t + 1), c)),
                       z3.Contains(s, c))),
                # the same fact position-wise: no occurrence at any higher index
                z3.ForAll([i], z3.Implies(z3.And(r.t < i, i < z3.Length(s)), char_at(s, i) != c)))
            st.ghost = dict(st.ghost)
            st.ghost["rfind"] = tuple(st.ghost.get("rfind", ())) + ((s, args[0], r.t),)
            return [(st, r)]
        return h

    def hook(I_, st, obj, name, node):
        if isinstance(obj, Sym) and obj.k == "str" and name == "rstrip":
            stub = HostStub("str.rstrip")
            keep.append(stub)
            I_.specs[("fn", id(stub))] = rstrip_spec(obj)
            return [(st, stub)]
        if isinstance(obj, Sym) and obj.k == "str" and name == "rfind":
            stub = HostStub("str.rfind")
            keep.append(stub)
            I_.specs[("fn", id(stub))] = rfind_spec(obj)
            return [(st, stub)]
        if id(obj) in pat_re and name == "fullmatch":
            stub = HostStub("Pattern.fullmatch")
            keep.append(stub)
            I_.specs[("fn", id(stub))] = fullmatch_spec(obj)
            return [(st, stub)]
        if prev is not None:
            return prev(I_, st, obj, name, node)
        return None

    I.attr_hook = hook

    def next_obj(I_, st, args, kwargs, node):
        # next(<generator expression>) : the engine evaluates a generator expression over a concrete iterable eagerly
        it = args[0]
        if isinstance(it, tuple):
            if it:
                return [(st, it[0])]
            if len(args) > 1:
                return [(st, args[1])]
            return [(st, Raised(Exc(StopIteration, (), origin=getattr(node, "lineno", None))))]
        return None

    I.specs["next_obj"] = next_obj

    if ("fn", id(enumerate)) not in I.specs:
        def enumerate_h(I_, st, args, kwargs, node):
            items = I_.iter_concrete(st, args[0], node)
            start = args[1] if len(args) > 1 else kwargs.get("start", 0)
            if not isinstance(start, int):
                raise Unsupported("enumerate with symbolic start", node)
            return [(st, [(start + i, x) for i, x in enumerate(items)])]

        I.specs[("fn", id(enumerate))] = enumerate_h


# ================================================================== abstract match objects (regex facts as assumptions)


class FakeMatch:
    """class of the abstract match objects (methods are specs)"""


def make_match(I, st, groups, whole, groupdict, pos):
    """An abstract `re.Match`: groups() = `groups` (host tuple of Sym/None), group() = `whole`, groupdict() = the given
    name->value mapping (insertion order = group order), start() = pos, end() = pos + len(whole)."""
    ref = st.alloc(HObj(FakeMatch, path="m"), initial=True)

    def groups_h(I_, s, args, kwargs, node):
        return [(s, tuple(groups))]

    def group_h(I_, s, args, kwargs, node):
        if len(args) == 1:
            return [(s, whole)]
        if len(args) == 2 and isinstance(args[1], int):
            return [(s, whole if args[1] == 0 else groups[args[1] - 1])]
        raise Unsupported("match.group with symbolic / multiple arguments", node)

    def groupdict_h(I_, s, args, kwargs, node):
        return [(s, s.alloc(HDict(items=dict(groupdict))))]

    def end_h(I_, s, args, kwargs, node):
        return [(s, Sym(to_term(pos, "int") + z3.Length(to_term(whole, "str")), "int"))]

    def start_h(I_, s, args, kwargs, node):
        return [(s, pos)]

    I.specs["FakeMatch.groups"] = groups_h
    I.specs["FakeMatch.group"] = group_h
    I.specs["FakeMatch.groupdict"] = groupdict_h
    I.specs["FakeMatch.end"] = end_h
    I.specs["FakeMatch.start"] = start_h
    return ref


def after_last_break(st, t, name="K!after_last_break"):
    """Definitional extension (spec vocabulary): K = the position right after the last line break of t, 0 if there is none.
    It exists uniquely for every string, so assuming its defining property restricts nothing.  Stated twice (with
    `contains` and position-wise) so that either solver can use it."""
    K = z3.Int(name)
    i = z3.Int(fresh_name("ki"))
    st.assume(0 <= K, K <= z3.Length(t), z3.Or(K == 0, char_at(t, K - 1) == NL),
              z3.Not(z3.Contains(suffix_from(t, K), NL)),
              z3.ForAll([i], z3.Implies(z3.And(K <= i, i < z3.Length(t)), char_at(t, i) != NL)),
              z3.Contains(t, NL) == (K > 0))
    return K


def sign_value(st, name="sign"):
    """a symbolic whitespace-control sign: '-' | '+' | '' (regex fact sign_groups)"""
    s = not_none(st, fresh(name, "str"))
    st.assume(z3.Or(s.t == z3.StringVal("-"), s.t == z3.StringVal("+"), s.t == z3.StringVal("")))
    return s


# ================================================================== reference model (docs: Whitespace Control)

WS_PY = "".join(chr(i) for a, b in RF.space_ranges() for i in range(a, b + 1))


def spec_working_source(source, keep_trailing_newline):
    """C11 preamble spec: lines cut at \\r\\n | \\r | \\n, at most one trailing line break removed (none when
    keep_trailing_newline), joined by \\n."""
    lines = split_lines(source)
    if not keep_trailing_newline and lines[-1] == "":
        lines = lines[:-1]
    return "\n".join(lines)


def split_lines(s):
    """the lines of s: cut at each leftmost line break, \\r\\n being ONE break (written without `re`)"""
    out, cur, i = [], "", 0
    while i < len(s):
        if s[i] == "\r":
            out.append(cur)
            cur = ""
            i += 2 if s[i + 1: i + 2] == "\n" else 1
        elif s[i] == "\n":
            out.append(cur)
            cur = ""
            i += 1
        else:
            cur += s[i]
            i += 1
    out.append(cur)
    return out


class Tag:
    """one tag of a skeleton: kind in block/comment/variable/rawbegin/rawend, left/right modifier in '', '-', '+',
    `src` its source text, `out` what it renders to."""

    def __init__(self, kind, left, right, src, out=""):
        self.kind, self.left, self.right, self.src, self.out = kind, left, right, src, out

    @property
    def automatic(self):
        """is subject to trim_blocks / lstrip_blocks: block and comment tags (never variable tags)"""
        return self.kind != "variable"


def spec_left(text, sign, lstrip_blocks, automatic, at_line_start):
    """What the documented rules leave of the text on the LEFT of a tag (rules 1-3, 7 of DESIGN A.3):
    '-' removes all trailing whitespace; '+' or a variable tag (automatic=False) or lstrip_blocks off: nothing;
    otherwise the whitespace between the start of the line and the tag is removed when nothing else precedes the tag on
    that line (`at_line_start`: the text itself begins at the start of a line)."""
    if sign == "-":
        return text.rstrip(WS_PY)
    if sign == "+" or not lstrip_blocks or not automatic:
        return text
    k = text.rfind("\n") + 1
    tail = text[k:]
    if tail and all(c in WS_PY for c in tail) and (k > 0 or at_line_start):
        return text[:k]
    return text


def reference_pieces(parts, trim_blocks, lstrip_blocks):
    """The documented rules (docs/templates.rst "Whitespace Control"; DESIGN A.3 rules 1-7) applied to a template given as
    [text0, Tag1, text1, Tag2, ..., textN] (already the working source).  -> list of (kept text, removed-left part,
    removed-right part) per text, where `removed-left` is what the tag FOLLOWING the text strips from the text's end and
    `removed-right` what the tag BEFORE it strips from its beginning."""
    texts = parts[0::2]
    tags = parts[1::2]
    res = []
    for i, text in enumerate(texts):
        before = tags[i - 1] if i > 0 else None  # tag on the left of this text
        after = tags[i] if i < len(tags) else None  # tag on the right
        n = len(text)
        cut_front = 0  # characters removed from the beginning (right-hand rules of `before`)
        if before is not None:
            if before.right == "-":
                cut_front = n - len(text.lstrip(WS_PY))  # rule 4
            elif before.right == "" and trim_blocks and before.kind in ("block", "comment", "rawend"):
                if text.startswith("\n"):  # rule 6: one line break directly after the tag (the raw BODY stays verbatim)
                    cut_front = 1
        cut_back = n  # characters removed from `cut_back` on (left-hand rules of `after`)
        if after is not None:
            # "starts a line": a line break in the text, or the start of the source
            cut_back = len(spec_left(text, after.left, lstrip_blocks, after.automatic, before is None))
        a, b = cut_front, max(cut_front, cut_back)
        res.append((text[a:b], text[b:] if cut_back < n else "", text[:a]))
    return res


def reference_render(parts, trim_blocks, lstrip_blocks, newline_sequence="\n"):
    texts = reference_pieces(parts, trim_blocks, lstrip_blocks)
    tags = parts[1::2]
    out = []
    for i, (kept, _, _) in enumerate(texts):
        out.append(newline_sequence.join(kept.split("\n")))
        if i < len(tags):
            out.append(tags[i].out)
    return "".join(out)


# ---------------------------------------------------------------- the skeleton corpus

SEPS = ["", " ", "\t", "\n", " \n ", "x", "x \n"]
MODS = ["", "-", "+"]
RAW_BODY = "\n r \n "


DEFAULT_DELIMS = ("{%", "%}", "{{", "}}", "{#", "#}")


def tag_variants(delims=DEFAULT_DELIMS, extended=False):
    """[(label, [Tag, (text, Tag)...])]: block/comment/raw x left x right modifier, variable x left x {'', '-'}
    (`+}}` is not a delimiter: it lexes as an operator).  extended: additionally the same tags spanning two lines
    (multi-line expression / comment), raw blocks whose INNER sides carry '-' and raw blocks with a whitespace-only body (51 more variants)."""
    bs, be, vs, ve, cs, ce = delims
    out = []
    for l, r in itertools.product(MODS, MODS):
        out.append((f"block[{l}|{r}]", [Tag("block", l, r, bs + l + " set q = 1 " + r + be)]))
        out.append((f"comment[{l}|{r}]", [Tag("comment", l, r, cs + l + " c " + r + ce)]))
        out.append((f"raw[{l}|{r}]", [Tag("rawbegin", l, "", bs + l + " raw " + be), RAW_BODY, Tag("rawend", "", r, bs + " endraw " + r + be)]))
        if r != "+":
            out.append((f"variable[{l}|{r}]", [Tag("variable", l, r, vs + l + " v " + r + ve, "V")]))
    if extended:
        for l, r in itertools.product(MODS, MODS):
            out.append((f"block2[{l}|{r}]", [Tag("block", l, r, bs + l + " set q =\n 1 " + r + be)]))
            out.append((f"comment2[{l}|{r}]", [Tag("comment", l, r, cs + l + " c\n d " + r + ce)]))
            out.append((f"raw-[{l}|{r}]", [Tag("rawbegin", l, "-", bs + l + " raw -" + be), RAW_BODY, Tag("rawend", "-", r, bs + "- endraw\n" + r + be)]))
            # raw blocks whose body is whitespace only / starts with whitespace: the body follows `{% raw %}` on its line, so
            # lstrip_blocks must not touch it whatever precedes the raw tag
            out.append((f"rawws[{l}|{r}]", [Tag("rawbegin", l, "", bs + l + " raw " + be), " \t ", Tag("rawend", "", r, bs + " endraw " + r + be)]))
            out.append((f"rawws2[{l}|{r}]", [Tag("rawbegin", l, "", bs + l + " raw " + be), "  \n  ", Tag("rawend", "", r, bs + " endraw " + r + be)]))
            if r != "+":
                out.append((f"variable2[{l}|{r}]", [Tag("variable", l, r, vs + l + " [v,\n v]|join " + r + ve, "VV")]))
    return out


def raw_plus_variants(delims=DEFAULT_DELIMS):
    """raw blocks whose OPENING tag carries '+' on its right side (`{% raw +%}`): by the stated rules '+' only disables
    automatic trimming, of which there is none after an opening raw tag, so it must be accepted and change nothing"""
    bs, be, vs, ve, cs, ce = delims
    return [(f"raw+[{l}|{r}]", [Tag("rawbegin", l, "+", bs + l + " raw +" + be), RAW_BODY, Tag("rawend", "", r, bs + " endraw " + r + be)])
            for l, r in itertools.product(MODS, MODS)]


def delims_of(kwargs):
    e = jinja2.Environment(**kwargs)
    return (e.block_start_string, e.block_end_string, e.variable_start_string, e.variable_end_string, e.comment_start_string, e.comment_end_string)


TAGS = tag_variants()
TAGS_EXT = tag_variants(extended=True)
SETTINGS = [(t, l) for t in (False, True) for l in (False, True)]


def skeleton(tag_idx, sep_idx, tags=None):
    """parts list [text, Tag, text, ...] of the skeleton with the given tag variants and separators"""
    tags = TAGS if tags is None else tags
    parts = [SEPS[sep_idx[0]]]
    for t, s in zip(tag_idx, sep_idx[1:]):
        parts += tags[t][1]
        parts.append(SEPS[s])
    return parts


def source_of(parts):
    return "".join(p if isinstance(p, str) else p.src for p in parts)


def working_parts(parts):
    """the skeleton after the preamble (only the last text can lose a trailing line break)"""
    parts = list(parts)
    src = source_of(parts)
    w = spec_working_source(src, False)
    if w != src:
        assert src.endswith("\n") and parts[-1].endswith("\n") and w == src[:-1]
        parts[-1] = parts[-1][:-1]
    return parts


def corpus_ids(ntags):
    """all (tag indices, separator indices) with exactly ntags tags"""
    for tags in itertools.product(range(len(TAGS)), repeat=ntags):
        for seps in itertools.product(range(len(SEPS)), repeat=ntags + 1):
            yield tags, seps


def corpus_size(ntags):
    return len(TAGS) ** ntags * len(SEPS) ** (ntags + 1)


def corpus_sample(tier, seed, shard, nshards):
    """The skeletons of one shard.  thorough: every skeleton with <= 2 tags plus a seeded sample of 200000 three-tag
    skeletons; quick: all with <= 1 tag, a seeded ~5 % sample of the 2-tag skeletons plus 8000 three-tag skeletons.  Shards partition
    the list by index."""
    rnd = random.Random(f"lex-corpus-{seed}")
    k = 0
    for n in (0, 1, 2):
        for ids in corpus_ids(n):
            take = True if (tier != "quick" or n < 2) else rnd.random() < 0.05
            if take:
                if k % nshards == shard:
                    yield ids
                k += 1
    n3 = 200000 if tier != "quick" else 8000
    for _ in range(n3):
        tags = tuple(rnd.randrange(len(TAGS)) for _ in range(3))
        seps = tuple(rnd.randrange(len(SEPS)) for _ in range(4))
        if k % nshards == shard:
            yield tags, seps
        k += 1


CORPUS_BOUND = ("skeletons sep0 tag1 sep1 ... tagN sepN, tags from {block `{% set q = 1 %}`, comment, variable `{{ v }}` (right modifier "
                "'' or '-'), raw block with body " + repr(RAW_BODY) + "} x left modifier x right modifier in {'', '-', '+'} (33 tag variants), "
                "separators from " + repr(SEPS) + ", default delimiters: thorough = ALL skeletons with N <= 2 ("
                + str(sum(corpus_size(n) for n in (0, 1, 2))) + ") plus a seeded sample of 200000 skeletons with N = 3; quick = all with "
                "N <= 1, a seeded 5% sample (VERIF_SEED) of N = 2 and 8000 seeded skeletons with N = 3; each under the four "
                "trim_blocks/lstrip_blocks settings")


# ================================================================== rule shapes of a real lexer (for the loop-body VCs)


class RuleShape:
    """What the loop body needs to know about one real rule: its tokens / new_state (the real objects of the rule) and the
    regex facts of its real pattern that shape a match (`kind`): 'named' (root rule: text + exactly one named group),
    'partition' (top-level groups 1..k concatenate to the match), 'plain' (only m.group() is used)."""

    def __init__(self, state, index, rule):
        self.state, self.index, self.rule = state, index, rule
        self.tokens, self.new_state = rule.tokens, rule.command
        p = rule.pattern
        self.min_width = RF.width(p)[0]
        self.lstrip = isinstance(rule.tokens, L.OptionalLStrip)
        on = RF.one_named(p)
        part = RF.partition(p)
        self.names = None
        self.ngroups = RF.tree(p).state.groups - 1
        self.branch_min = None
        if isinstance(rule.tokens, tuple):
            if on is not None and RF.sign_groups(p) is not None:
                self.kind = "named"
                self.names = [b[0] for b in on["branches"]]
                self.branch_min = [RF.P.SubPattern(RF.tree(p).state, b[2]).getwidth()[0] for b in on["branches"]]
            elif part is not None:
                self.kind = "partition"
                self.k = len(part)
                self.sign_nested = RF.sign_groups(p) == [(None, 3)]
            else:
                self.kind = None  # facts not established: the VC is undecided
        else:
            self.kind = "plain"

    def key(self):
        t = self.tokens
        tok = tuple("<Failure>" if isinstance(x, L.Failure) else x for x in t) if isinstance(t, tuple) else t
        if not isinstance(t, tuple) and t != L.TOKEN_OPERATOR and self.new_state is None:
            tok = "<tag token>"  # whitespace / float / integer / name / string: the body treats them alike
        return (self.kind, type(t).__name__, tok, self.new_state, tuple(self.names or ()), getattr(self, "k", None),
                getattr(self, "sign_nested", None), self.min_width >= 1)

    def label(self):
        return f"{self.state}[{self.index}]"


def rule_shapes():
    """distinct rule shapes over the delimiter families of A9 (real lexers): [(family, RuleShape)]"""
    seen, out = set(), []
    for fam, kw in RF.delimiter_families().items():
        lx = RF.lexer_for(kw)
        for state, rules in lx.rules.items():
            for i, r in enumerate(rules):
                sh = RuleShape(state, i, r)
                if sh.key() in seen:
                    continue
                seen.add(sh.key())
                out.append((fam.split("/")[0], sh))
    return out


def left_spec(text, sign, lstrip, is_var, line_starting, K, o):
    """z3 Bool: `o` is what the documented LEFT-hand rules (DESIGN A.3 rules 1-3) leave of `text`; K = position after the
    last line break of text (after_last_break)."""
    t = text
    n, k = z3.Length(t), z3.Length(o)
    i = z3.Int(fresh_name("i!spec"))
    # rule 1: '-' removes ALL trailing whitespace: o is the prefix of text ending at its last non-whitespace character
    minus = z3.And(
        o == z3.SubString(t, 0, k), k <= n,
        z3.ForAll([i], z3.Implies(z3.And(k <= i, i < n), is_ws_char(char_at(t, i)))),
        z3.Or(k == 0, z3.Not(is_ws_char(char_at(t, k - 1)))))
    # rule 3: the part after the last line break is removed iff it is non-empty, all whitespace and starts a line
    tail = suffix_from(t, K)
    starts_line = z3.Or(z3.Contains(t, NL), line_starting)
    removable = z3.And(z3.Length(tail) > 0, all_ws(tail), starts_line)
    auto = o == z3.If(removable, z3.SubString(t, 0, K), t)
    automatic_applies = z3.And(lstrip, z3.BoolVal(not is_var))
    return z3.If(sign == z3.StringVal("-"), minus,
                 z3.If(sign == z3.StringVal("+"), o == t,  # rule 2: '+' disables the automatic trimming
                       z3.If(automatic_applies, auto, o == t)))  # variable tags / option off: unchanged


def family_sample(seed, n2=1500, ntags=None):
    """skeleton ids used for the non-default delimiter families / the extended tag set: all with <= 1 tag plus n2 seeded
    two-tag skeletons, over `ntags` tag variants"""
    ntags = len(TAGS_EXT) if ntags is None else ntags
    rnd = random.Random(f"lex-families-{seed}")
    ids = [((), (s,)) for s in range(len(SEPS))]
    ids += [((t,), (a, b)) for t in range(ntags) for a in range(len(SEPS)) for b in range(len(SEPS))]
    for _ in range(n2):
        ids.append((tuple(rnd.randrange(ntags) for _ in range(2)), tuple(rnd.randrange(len(SEPS)) for _ in range(3))))
    return ids


FAMILY_BOUND = ("the EXTENDED tag set (the 33 variants plus 51 more: the same tags spanning two lines, raw blocks with '-' on their inner sides, raw blocks whose body is whitespace only) "
                "written with the delimiter sets default, asp (<% %> <%= %> <!-- -->), dollar (<? ?> ${ } <!-- -->) and shared ({%% %%} {%%= =%%} "
                "{%%# #%%}): all skeletons with N <= 1 plus 1500 seeded skeletons with N = 2, under the four trim/lstrip settings")


def expected_stream(parts, trim_blocks, lstrip_blocks):
    """C39 oracle on a skeleton (working parts): -> (concatenation of the raw token values, [(stream offset, removed text)])
    = the working source minus exactly the whitespace the LEFT-hand rules remove (whitespace consumed on the right of a
    tag stays inside the end-tag token)."""
    pieces = reference_pieces(parts, trim_blocks, lstrip_blocks)
    tags = parts[1::2]
    out, gaps = "", []
    for i, (kept, removed_left, removed_right) in enumerate(pieces):
        out += removed_right + kept
        if removed_left:
            gaps.append((len(out), removed_left))
        if i < len(tags):
            out += tags[i].src
    return out, gaps


def check_token_stream(toks, work, stream, gaps):
    """-> None or a description: the token values concatenate to `stream` and every token carries 1 + the number of line
    breaks of the working source `work` before its first character"""
    got = "".join(v for _, _, v in toks)
    if got != stream:
        return f"token values concatenate to {got!r}, expected {stream!r} (working source {work!r})"
    off = 0
    for ln, tok, val in toks:
        start = off + sum(len(g) for p, g in gaps if p <= off)
        want = 1 + work[:start].count("\n")
        if ln != want:
            return f"token {tok}={val!r} starts at offset {start} of the working source {work!r}: lineno {ln}, direct count {want}"
        off += len(val)
    return None


# ================================================================== hard wall-clock limits for solver-heavy tasks


class HardTask:
    """Runs a task in a forked child that is KILLED after `seconds` (z3 does not always honour its own timeout on goals
    mixing quantified axioms with strings) and retried with shifted fresh-name counters and another seed (a different search
    order).  If every attempt is killed, the task's obligations are undecided - never discharged, never a violation."""

    def __init__(self, inner, seconds=120, attempts=3):
        self.inner, self.seconds, self.attempts = inner, seconds, attempts
        self.prop, self.name, self.kind = inner.prop, inner.name, inner.kind
        fk = getattr(inner, "finding_key", None)
        if fk:
            self.finding_key = fk

    def replay(self, witness):
        self.inner.prop = self.prop
        return self.inner.replay(witness)

    def run(self, tier, seed):
        import json
        import os
        import select
        import signal
        import time
        from pyvc import values
        last = ""
        for k in range(self.attempts):
            r, w = os.pipe()
            pid = os.fork()
            if pid == 0:  # child
                try:
                    os.close(r)
                    for _ in range(k * 211):
                        values.fresh_name("shift")
                    self.inner.prop = self.prop
                    rs = self.inner.run(tier, seed + 7919 * k)
                    payload = json.dumps({"results": [x.to_json() for x in rs], "extracted": list(extract.EXTRACTED.values()),
                                          "used": sorted(models.USED)}, default=str).encode()
                    with os.fdopen(w, "wb") as f:
                        f.write(payload)
                finally:
                    os._exit(0)
            os.close(w)
            t0 = time.time()
            chunks = []
            killed = False
            with os.fdopen(r, "rb") as f:
                while True:
                    left = self.seconds - (time.time() - t0)
                    if left <= 0:
                        killed = True
                        break
                    ready, _, _ = select.select([f], [], [], min(left, 1.0))
                    if ready:
                        b = os.read(f.fileno(), 1 << 16)
                        if not b:
                            break
                        chunks.append(b)
            if killed:
                try:
                    os.kill(pid, signal.SIGKILL)
                except OSError:
                    pass
            os.waitpid(pid, 0)
            if killed or not chunks:
                last = f"attempt {k + 1}: the solver did not return within {self.seconds} s (child killed)" if killed else f"attempt {k + 1}: child died without a result"
                continue
            data = json.loads(b"".join(chunks).decode())
            for e in data["extracted"]:
                extract.EXTRACTED.setdefault(e["qualname"], e)
            models.USED.update(data["used"])
            return [Res(j["name"], j["status"], j.get("backend", ""), j.get("seconds", 0.0), j.get("detail", ""), j.get("kind", "vc"),
                        j.get("witness")) for j in data["results"]]
        return [Res(self.name + ".solver", "unknown", "z3", 0.0, last, self.kind)]
