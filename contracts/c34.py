"""C34  Native rendering returns native values as documented.

Functions under contract (real source of jinja2/nativetypes.py):

  native_concat            against the three documented cases (docs/nativetypes.rst, docstring):
                             no value            -> None
                             exactly one value   -> the value itself if it is not a str, else lit(value)
                             two or more values  -> lit("".join(str(v) for v in values)), every value used
                                                    once and in order (also for generators: islice/chain)
                           where lit(text) = literal_eval(parse(text, mode="eval")) when that succeeds and
                           `text` otherwise.  ast.parse / ast.literal_eval are abstract callees with the
                           documented raise set of ast.literal_eval ("may raise ValueError, TypeError,
                           SyntaxError, MemoryError and RecursionError depending on the malformed input").
  NativeTemplate.render    applies native_concat to the root stream; in an async-enabled environment the
                           synchronous render has to drive the asynchronous generator (never hand it to the
                           synchronous consumer).
  NativeTemplate.render_async   RuntimeError unless is_async; native_concat over the collected async stream.
  NativeCodeGenerator._default_finalize/_output_const_repr/_output_child_to_const/_output_child_pre/_post
                           small emission obligations (no str()/escape() wrapper, has_safe_repr gate, one
                           literal per constant group).  The schema of visit_Output itself is left to the
                           compiler-side modules (C08/C15).
  class attributes         table obligation (NativeEnvironment.concat is native_concat, ...).

Bounded stand-in (never reported as proved): every template of <= 3 nodes over a small fragment alphabet with
values from a pool (non-literal objects included) is rendered by the real NativeEnvironment with render,
render_async and render-in-an-async-environment and compared with the reference `ref_native`.
"""
from __future__ import annotations

import ast as pyast
import itertools
import types

import z3

from pyvc.contract import VC, Res, FnTask
from pyvc.values import (
    State, Sym, Ref, HObj, HList, HDict, HIter, SSeq, Obj, Exc, Event, Unsupported, fresh, fresh_name, sym, sel, fresh_arr,
)
from pyvc.smt import to_term, model_value, host_const
from pyvc import abstract as A
from pyvc.interp import Raised
from pyvc.ops import isinst_fn
from pyvc.models import py_str_obj, sseq_slice

import jinja2.nativetypes as N

I_ = z3.IntSort()

# documented raise set of ast.literal_eval (library reference, ast.literal_eval); parse is the first half of it
PARSE_RAISES = (SyntaxError, ValueError, MemoryError, RecursionError)
LITERAL_EVAL_RAISES = (ValueError, TypeError, SyntaxError, MemoryError, RecursionError)


# ------------------------------------------------------------------------------------------------
# reference (the documented behaviour, executable) and native replay helpers
# ------------------------------------------------------------------------------------------------

def ref_native(values):
    """docs/nativetypes.rst + docstring of native_concat, executable.  `values` is a list."""
    values = list(values)
    if not values:
        return None
    if len(values) == 1 and not isinstance(values[0], str):
        return values[0]
    text = values[0] if len(values) == 1 else "".join(str(v) for v in values)
    try:
        return pyast.literal_eval(pyast.parse(text, mode="eval"))
    except Exception:  # "Otherwise, the string is returned."
        return text


def same(a, b):
    if a is b:
        return True
    try:
        return type(a) is type(b) and a == b and repr(a) == repr(b)
    except Exception:
        return False


class _Opaque:
    """a value that is no literal and whose str() is no literal either"""

    def __repr__(self):
        return "<opaque>"

    __str__ = __repr__


TEXT_FOR = {
    "ok": "[1, 2]", "TypeError": "{[]: 1}", "RecursionError": "-" * 3000 + "1", "ValueError": "foo(1)", "SyntaxError": "[1, 2",
    "MemoryError": None,
}


def split_text(text, n):
    if n <= 1:
        return [text]
    cut = [max(0, min(len(text), (len(text) * i) // n)) for i in range(n + 1)]
    return [text[cut[i]:cut[i + 1]] for i in range(n)]


def run_concat(values, shape):
    from jinja2.nativetypes import native_concat
    arg = list(values) if shape == "list" else (v for v in list(values))
    try:
        return ("ok", native_concat(arg))
    except BaseException as ex:  # noqa
        return ("raise", ex)


def check_concat(values, shape):
    """-> None if the real native_concat agrees with the reference on this input, else a description"""
    want = ref_native(values)
    kind, got = run_concat(values, shape)
    short = [v if len(repr(v)) < 40 else repr(v)[:37] + "..." for v in values]
    if kind == "raise":
        return f"native_concat({shape} {short!r}) raises {type(got).__name__}: {str(got)[:80]}; documented result {want!r:.60}"
    if not same(got, want):
        return f"native_concat({shape} {short!r}) = {got!r:.60} ({type(got).__name__}); documented result {want!r:.60} ({type(want).__name__})"
    return None


def concat_family(shape):
    op = _Opaque()
    fam = [[], [op], [1], ["1"], ["a b"], [" 1"], ["[1, 2]"], ["[1, ", "2]"], [1, 2], ["[", 1, ", ", op, "]"], ["[", 1, ",", 2, ",", 3, "]"],
           ["'", "a", "'"], [None], [None, None], ["1", ""], ["", ""], ["(", "1", ",", ")"], [1.5], ["x", 1], [op, op]]
    # every way a literal can start (also: no leading digit, continuation dots, leading newline / comment / line continuation,
    # string prefixes, signs, keywords) and end
    starts = [".5", ".5e3", "...", "\n5", "\n\n[1]", "#c\n5", "# c\n\n(1, 2)", "\\\n5", "\t\n5", "\f5", "-1", "+1", "- 1", "~1", "None", "True", "False", "b'a'", "B'a'", "r'a'", "R'a'",
              "u'a'", "U'a'", "rb'a'", "Rb'a'", "bR'a'", '"a"', "\'\'\'a\'\'\'", "(1)", "{1}", "{}", "[]", "()", "0x1f", "0b1", "0o7", "1j", "1e3", "1_000", "1.", "5 ", "5\n", "5#c", "5 # c\n",
              "[1,\n2]", "1+2j", "-.5", "(.5)", " .5", " 5", "5\x0c", "\ufeff5"]
    for t in starts:
        fam.append([t])
        fam.append([t[:1], t[1:]])
        fam.append(["", t])
    return fam


def replay_concat(w):
    """replay of a native_concat witness on the real function against ref_native"""
    shape = w.get("shape", "list")
    n = int(w.get("n", 2))
    exc = w.get("escaping") or w.get("lit") or "ok"
    if w.get("parse") not in (None, "ok"):
        exc = w["parse"]
    text = TEXT_FOR.get(exc, "[1, 2]")
    if n == 0:
        values = []
    elif n == 1 and not w.get("first_is_str", True):
        values = [_Opaque()]
    elif text is None and w.get("escaping"):
        return (None, f"no native input known that makes ast.literal_eval raise {exc}")
    else:
        text = text or "[1, 2]"
        values = split_text(text, n)
        if n >= 2 and not w.get("first_is_str", True) and text == "[1, 2]":
            values = [1, 2] + ([""] * (n - 2))
    d = check_concat(values, shape)
    if d:
        return (True, d)
    for values in concat_family(shape):
        d = check_concat(values, shape)
        if d:
            return (True, d + "  (witness input itself agreed with the reference)")
    return (False, f"native_concat agrees with the reference on the witness input ({shape}, n={n}) and on the replay family")


# ------------------------------------------------------------------------------------------------
# shared spec handlers
# ------------------------------------------------------------------------------------------------

class Renamed:
    """Several tasks (case split over the input shape) share obligation names: `<oname>.<clause>#p<off+idx>`."""
    oname = ""
    poff = 0

    def run(self, tier, seed):
        rs = VC.run(self, tier, seed)
        for r in rs:
            if r.name.startswith(self.name):
                rest = r.name[len(self.name):]
                if "#p" in rest:
                    head, _, idx = rest.rpartition("#p")
                    rest = f"{head}#p{self.poff + int(idx)}"
                else:
                    rest = f"{rest}[{self.poff}]"
                r.name = self.oname + rest
        return rs


def stream_of(st, v, node=None):
    """(SSeq, cursor term, HIter|None) of an abstract list / iterator value"""
    if isinstance(v, Ref):
        h = st.get(v)
        if isinstance(h, HList) and not h.concrete:
            return SSeq(h.arr, h.n, h.k), z3.IntVal(0), None
        if isinstance(h, HIter) and isinstance(h.items, SSeq):
            return h.items, to_term(h.cursor, "int"), h
    raise Unsupported(f"stream_of({v!r})", node)


def install_iter_specs(I):
    """Dependency specs: itertools.islice / itertools.chain / str.join / isinstance on generators, iteration of a
    partially consumed iterator."""
    orig_isinstance = I.specs[("fn", id(isinstance))]

    def h_isinstance(I_, st, args, kwargs, node):
        v, classes = args
        if isinstance(v, Ref) and isinstance(st.get(v), HIter):
            cl = classes if isinstance(classes, tuple) else (classes,)
            t = {"generator": types.GeneratorType, "async_generator": types.AsyncGeneratorType}.get(st.get(v).tag)
            if t is not None:
                return [(st, any(issubclass(t, c) for c in cl))]
        return orig_isinstance(I_, st, args, kwargs, node)

    I.specs[("fn", id(isinstance))] = h_isinstance

    def h_islice(I_, st, args, kwargs, node):
        # list(islice(it, k)): the next min(k, remaining) items, which are consumed from an iterator
        v, k = args
        if not isinstance(k, int) or kwargs:
            raise Unsupported("islice with symbolic bound", node)
        seqv, cur, h = stream_of(st, v, node)
        if h is not None and h.tag == "async_generator":
            e = Exc(TypeError, ("'async_generator' object is not iterable",), origin=getattr(node, "lineno", None))
            return [(st, Raised(e))]
        rem = seqv.n - cur
        out = []
        pending = st
        for m in range(k + 1):
            if pending is None:
                break
            branches = I_.fork_bool(pending, rem == m) if m < k else [(pending, True)]
            nxt = None
            for s, b in branches:
                if b:
                    items = [sel(seqv.arr, seqv.k, z3.simplify(cur + i)) for i in range(m)]
                    if h is not None:
                        s.get(v).cursor = Sym(z3.simplify(cur + m), "int")
                    s.trace.append(Event("call", "islice", [v, k], result=m, lineno=getattr(node, "lineno", None)))
                    out.append((s, s.alloc(HIter(items, 0, tag="islice"))))
                else:
                    nxt = s
            pending = nxt
        return out

    I.specs[("fn", id(itertools.islice))] = h_islice

    def h_chain(I_, st, args, kwargs, node):
        if len(args) != 2:
            raise Unsupported("chain arity", node)
        head, rest = args
        hh = st.get(head) if isinstance(head, Ref) else None
        if not (isinstance(hh, HList) and hh.concrete):
            raise Unsupported("chain head", node)
        seqv, cur, h = stream_of(st, rest, node)
        m = len(hh.items)
        arr = fresh_arr("chain", seqv.k)
        j = z3.Int(fresh_name("cj"))
        for i, x in enumerate(hh.items):
            st.assume(z3.Select(arr, i) == to_term(x, seqv.k))
        st.assume(z3.ForAll([j], z3.Implies(z3.And(j >= m, j < m + seqv.n - cur), z3.Select(arr, j) == z3.Select(seqv.arr, cur + j - m))))
        st.trace.append(Event("call", "chain", [head, rest], lineno=getattr(node, "lineno", None)))
        if h is not None:
            h.cursor = Sym(seqv.n, "int")  # drawn through the chain (the chain object is consumed below)
        return [(st, st.alloc(HIter(SSeq(arr, z3.simplify(m + seqv.n - cur), seqv.k), 0, tag="chain")))]

    I.specs[("fn", id(itertools.chain))] = h_chain

    def h_join(I_, st, args, kwargs, node):
        sep, it = args
        arr, n, k = A.list_terms(st, it)
        r = fresh("joined", "str")
        st.trace.append(Event("call", "str.join", [sep, it], {"arr": arr, "n": n, "k": k}, r, lineno=getattr(node, "lineno", None)))
        return [(st, r)]

    I.specs["str.join"] = h_join

    orig_as_sseq = I.as_sseq

    def as_sseq(st, v, node):
        # iterating an iterator starts at its cursor and exhausts it
        if isinstance(v, Ref):
            h = st.get(v)
            if isinstance(h, HIter) and isinstance(h.items, SSeq):
                cur = h.cursor
                sub = h.items if (isinstance(cur, int) and cur == 0) else sseq_slice(h.items, cur, None, st)
                h.cursor = Sym(h.items.n, "int")
                return sub
        return orig_as_sseq(st, v, node)

    I.as_sseq = as_sseq



# ast.parse(text, mode="eval") / ast.literal_eval(tree) as partial functions of the text: whether they succeed and what they
# return are uninterpreted (nothing about the first character or any other fact about the text implies failure)
P_ok = z3.Function("ast.parse.succeeds", Obj, z3.BoolSort())
F_tree = z3.Function("ast.parse.tree", Obj, Obj)
E_ok = z3.Function("ast.literal_eval.succeeds", Obj, z3.BoolSort())
F_val = z3.Function("ast.literal_eval.value", Obj, Obj)


def lit_ok(r):
    return z3.And(P_ok(r), E_ok(F_tree(r)))


def lit_val(r):
    return F_val(F_tree(r))


def install_literal_specs(I):
    generic_parse = A.abstract_fn("ast.parse", returns="obj", raises=PARSE_RAISES)
    generic_eval = A.abstract_fn("ast.literal_eval", returns="obj", raises=LITERAL_EVAL_RAISES)

    def partial(name, ok, fn, raises, generic, shape_ok):
        def h(I_, st, args, kwargs, node):
            if not shape_ok(args, kwargs):
                return generic(I_, st, args, kwargs, node)  # some other function of the text: results unrelated to lit()
            r = to_term(args[0], "obj")
            out = []
            for cls in raises:
                s2 = st.fork()
                s2.assume(z3.Not(ok(r)))
                e = Exc(cls, (), tag=f"{name}#{len(s2.trace)}", origin=getattr(node, "lineno", None))
                e.from_call = name
                s2.trace.append(Event("call", name, args, kwargs, e, lineno=getattr(node, "lineno", None)))
                out.append((s2, Raised(e)))
            st.assume(ok(r))
            v = Sym(fn(r), "obj")
            st.trace.append(Event("call", name, args, kwargs, v, lineno=getattr(node, "lineno", None)))
            out.append((st, v))
            return out
        return h

    I.specs[("fn", id(N.parse))] = partial("ast.parse", P_ok, F_tree, PARSE_RAISES, generic_parse,
                                           lambda a, k: len(a) == 1 and k == {"mode": "eval"})
    I.specs[("fn", id(N.literal_eval))] = partial("ast.literal_eval", E_ok, F_val, LITERAL_EVAL_RAISES, generic_eval,
                                                  lambda a, k: len(a) == 1 and not k)


def install_text_adapter(I):
    """A value known to be a str on the current path (an opaque atom v with isinstance(v, str)) behaves as the string
    py_str_obj(v) under slicing, indexing, len, `in` and str methods (setup links v == str2obj(py_str_obj(v)))."""
    from pyvc.smt import feasible
    from pyvc.values import BoundMethod
    from pyvc import models as M

    def text_of(st, v):
        if isinstance(v, Sym) and v.k == "obj" and not feasible(st.pc + [z3.Not(isinst_fn(str)(v.t))], 2000):
            return Sym(py_str_obj(v.t), "str", v.tags)
        return None

    orig_getslice, orig_getitem, orig_contains = I.getslice, I.getitem, I.contains

    def getslice(st, obj, sl, node=None):
        return orig_getslice(st, text_of(st, obj) or obj, sl, node)

    def getitem(st, obj, idx, node=None):
        return orig_getitem(st, text_of(st, obj) or obj, idx, node)

    def contains(st, container, item, node=None):
        return orig_contains(st, text_of(st, container) or container, text_of(st, item) or item, node)

    I.getslice, I.getitem, I.contains = getslice, getitem, contains

    def h_len(I_, st, args, kwargs, node):
        t = text_of(st, args[0])
        return None if t is None else [(st, Sym(z3.Length(t.t), "int"))]

    I.specs["len_obj"] = h_len

    def h_getattr(I_, st, args, kwargs, node):
        o, name = args
        return [(st, BoundMethod(o, name))] if text_of(st, o) is not None and hasattr(str, name) else None

    I.specs["getattr_obj"] = h_getattr

    def h_method(I_, st, args, kwargs, node):
        t = text_of(st, args[0])
        if t is None:
            return None
        return M.str_method(I_, st, t, args[1], list(args[2:]), kwargs, node)

    I.specs["method_obj"] = h_method


# ------------------------------------------------------------------------------------------------
# native_concat
# ------------------------------------------------------------------------------------------------

class NativeConcat(Renamed, VC):
    prop = "C34"
    target = "jinja2.nativetypes:native_concat"
    oname = "C34.native_concat"
    timeout_quick = 20000

    def __init__(self, shape):
        self.shape = shape
        self.poff = {"list": 0, "generator": 100}[shape]
        VC.__init__(self, "C34", f"C34.native_concat[{shape}]")

    def configure(self, I):
        install_iter_specs(I)
        install_literal_specs(I)
        install_text_adapter(I)

    def setup(self, I, st):
        if self.shape == "list":
            self.values = A.alist(st, "values", "obj")
            h = st.get(self.values)
            self.arr, self.n = h.arr, h.n
        else:
            s = A.sseq(st, "values", "obj")
            self.arr, self.n = s.arr, s.n
            self.values = st.alloc(HIter(s, 0, tag="generator"), initial=True)
        from pyvc.smt import str2obj
        x = z3.Select(self.arr, 0)
        # a str value is its own text: str(v) is v (instantiated for the one element that can itself be the raw text)
        st.assume(z3.Implies(isinst_fn(str)(x), x == str2obj(py_str_obj(x))))
        return [self.values], {}

    # ---- postconditions --------------------------------------------------------------------
    def p_total(self, pre, out):
        """the documented function is total: a text that does not parse as a literal is returned, never an error"""
        return not out.raised

    def p_value(self, pre, out):
        """whole-view, semantic: for EVERY text, the result is lit(text) when ast.literal_eval(ast.parse(text, mode="eval"))
        succeeds and the text otherwise - whether or not (and how often) the function chose to call the parser"""
        if out.raised:
            return None
        from pyvc.smt import str2obj
        n = self.n
        first = z3.Select(self.arr, 0)
        isstr = isinst_fn(str)(first)
        parses, lits, joins = A.calls(out, "ast.parse"), A.calls(out, "ast.literal_eval"), A.calls(out, "str.join")
        nothing = not parses and not lits and not joins
        B = z3.BoolVal
        v = out.value
        vt = to_term(v, "obj")
        case_empty = B(v is None and nothing)
        case_obj = z3.And(B(nothing), vt == first) if v is not None else B(False)

        def text(r):
            return z3.If(lit_ok(r), vt == lit_val(r), vt == r)

        single = z3.And(B(not joins), text(first))
        if len(joins) == 1 and joins[0].args[0] == "" and joins[0].kwargs["k"] == "str":
            ja, jn = joins[0].kwargs["arr"], joins[0].kwargs["n"]
            j = z3.Int(fresh_name("j"))
            multi = z3.And(jn == n, z3.ForAll([j], z3.Implies(z3.And(0 <= j, j < n), z3.Select(ja, j) == py_str_obj(z3.Select(self.arr, j)))),
                           text(str2obj(joins[0].result.t)))
        else:
            multi = B(False)
        return z3.And(z3.Implies(n == 0, case_empty),
                      z3.Implies(z3.And(n == 1, z3.Not(isstr)), case_obj),
                      z3.Implies(z3.And(n == 1, isstr), single),
                      z3.Implies(n >= 2, multi))

    def p_consumed(self, pre, out):
        """a generator is drawn to its end exactly once (nothing is left behind, nothing is read twice)"""
        if self.shape != "generator" or out.raised:
            return None
        h = out.st.get(self.values)
        return to_term(h.cursor, "int") == self.n

    posts = [("total", p_total), ("value", p_value), ("consumed_once", p_consumed)]

    # ---- witnesses -----------------------------------------------------------------------------
    def concretize(self, model, pre, out):
        n = model_value(model, self.n)
        n = max(0, min(5, n if isinstance(n, int) else 2))
        first_is_str = bool(model_value(model, isinst_fn(str)(z3.Select(self.arr, 0))))
        w = {"shape": self.shape, "n": n, "first_is_str": first_is_str}
        for nm, key in (("ast.parse", "parse"), ("ast.literal_eval", "lit")):
            ev = A.calls(out, nm)
            if ev:
                r = ev[-1].result
                w[key] = r.cls.__name__ if isinstance(r, Exc) else "ok"
        if out.raised:
            w["escaping"] = out.value.cls.__name__ if out.value.cls else out.value.within.__name__
            w["from"] = getattr(out.value, "from_call", "")
        elif n >= 1 and not A.calls(out, "ast.parse") and (first_is_str or n >= 2):
            w["early_return_without_parse"] = True
            try:
                j = A.calls(out, "str.join")
                t = j[0].result.t if j else py_str_obj(z3.Select(self.arr, 0))
                w["model_text_prefix"] = str(model_value(model, t))[:8]
            except Exception:
                pass
        return w

    def finding_key(self, res):
        w = res.witness or {}
        if w.get("escaping"):
            return f"uncaught {w['escaping']}"
        return f"value:{w.get('shape')}:n={w.get('n')}"

    def replay(self, w):
        return replay_concat(w)


# ------------------------------------------------------------------------------------------------
# NativeTemplate.render / render_async
# ------------------------------------------------------------------------------------------------

def install_template_specs(I, owner):
    """abstract callees of render/render_async; `owner.stream` is set to the root stream created"""
    I.specs["NativeTemplate.new_context"] = A.abstract_fn("new_context", returns="obj")

    def h_root(I_, st, args, kwargs, node):
        s = A.sseq(st, "root", "obj")
        tag = "async_generator" if owner.env_async(st) else "generator"
        r = st.alloc(HIter(s, 0, tag=tag))
        owner.streams.append((r, s))
        st.trace.append(Event("call", "root_render_func", args[1:], kwargs, r, lineno=getattr(node, "lineno", None)))
        return [(st, r)]

    I.specs["NativeTemplate.root_render_func"] = h_root

    def h_concat(I_, st, args, kwargs, node):
        (v,) = args
        ln = getattr(node, "lineno", None)
        if isinstance(v, Ref) and isinstance(st.get(v), HIter) and st.get(v).tag == "async_generator":
            # dependency: list(islice(<async generator>, 2)) -> TypeError: 'async_generator' object is not iterable
            e = Exc(TypeError, ("'async_generator' object is not iterable",), tag="native_concat(async_generator)", origin=ln)
            st.trace.append(Event("call", "native_concat", [v], {"async_generator": True}, e, lineno=ln))
            return [(st, Raised(e))]
        seqv, cur, h = stream_of(st, v, node)
        snap = {"arr": seqv.arr, "n": seqv.n, "cur": cur}
        out = []
        s2 = st.fork()
        e = Exc(None, (), tag="template code raised", within=Exception, origin=ln)
        e.from_call = "native_concat"
        s2.trace.append(Event("call", "native_concat", [v], snap, e, lineno=ln))
        out.append((s2, Raised(e)))
        r = fresh("native", "obj")
        st.trace.append(Event("call", "native_concat", [v], snap, r, lineno=ln))
        out.append((st, r))
        return out

    I.specs[("fn", id(N.native_concat))] = h_concat
    I.specs["jinja2.nativetypes:native_concat"] = h_concat

    def h_handle(I_, st, args, kwargs, node):
        cur = st.ghost.get("handling")
        st.trace.append(Event("call", "handle_exception", [], lineno=getattr(node, "lineno", None)))
        if not cur:
            raise Unsupported("handle_exception outside a handler", node)
        return [(st, Raised(cur[-1]))]

    I.specs["NativeEnvironment.handle_exception"] = h_handle
    I.specs["NativeTemplate.render_async"] = A.abstract_fn("render_async", returns="obj", tags=("coroutine",))
    import asyncio
    I.specs[("fn", id(asyncio.run))] = A.abstract_fn("asyncio.run", returns="obj", raises=[("any", Exception)])
    install_iter_specs(I)


def replay_render(w):
    """real NativeEnvironment: sync render / render_async, in a sync or async-enabled environment"""
    import asyncio
    from jinja2.nativetypes import NativeEnvironment
    is_async = bool(w.get("is_async"))
    mode = w.get("mode", "render")
    cases = [("{{ x + 1 }}", {"x": 1}, [2]), ("{{ x }}", {"x": _OPQ}, [_OPQ]), ("[{{ x }}, {{ y }}]", {"x": 1, "y": 2}, ["[", 1, ", ", 2, "]"]),
             ("{{ x }} * {{ y }}", {"x": 4, "y": 2}, [4, " * ", 2]), ("", {}, [])]
    env = NativeEnvironment(enable_async=is_async)
    if not (mode == "render_async" and not is_async):
        try:
            t = env.from_string("{{ 1 // x }}")
            got = asyncio.run(t.render_async(x=0)) if mode == "render_async" else t.render(x=0)
            return (True, f"NativeEnvironment(enable_async={is_async}): {mode} of '{{{{ 1 // x }}}}' with x=0 returns {got!r} instead of raising ZeroDivisionError")
        except ZeroDivisionError:
            pass
        except Exception as ex:
            if not (is_async and mode == "render"):
                return (True, f"{mode} of '{{{{ 1 // x }}}}' with x=0 raises {type(ex).__name__}: {ex}")
    for src, ctx, nodes in cases:
        want = ref_native(nodes)
        try:
            t = env.from_string(src)
            got = asyncio.run(t.render_async(**ctx)) if mode == "render_async" else t.render(**ctx)
        except Exception as ex:
            if mode == "render_async" and not is_async and isinstance(ex, RuntimeError):
                continue
            return (True, f"NativeEnvironment(enable_async={is_async}).from_string({src!r}).{mode}(**{ctx!r}) raises {type(ex).__name__}: {ex}; documented result {want!r}")
        if mode == "render_async" and not is_async:
            return (True, "render_async in a non-async environment did not raise RuntimeError")
        if not same(got, want):
            return (True, f"NativeEnvironment(enable_async={is_async}).from_string({src!r}).{mode}(**{ctx!r}) = {got!r}; documented result {want!r}")
    return (False, f"{mode} agrees with the reference on the replay templates (enable_async={is_async})")


_OPQ = _Opaque()


class NativeRender(VC):
    prop = "C34"
    target = "jinja2.nativetypes:NativeTemplate.render"

    def __init__(self, is_async):
        self.is_async = is_async
        self.streams = []
        VC.__init__(self, "C34", f"C34.NativeTemplate.render[{'async' if is_async else 'sync'}-env]")

    def env_async(self, st):
        return self.is_async

    def configure(self, I):
        install_template_specs(I, self)

    def setup(self, I, st):
        self.env = A.obj(st, N.NativeEnvironment, "environment", fields={"is_async": self.is_async})
        self.tmpl = A.obj(st, N.NativeTemplate, "self", fields={"environment": self.env})
        self.x = sym("ctx_x", "obj")
        self.kw = st.alloc(HDict(items={"x": self.x}), initial=True)
        return "locals", {"self": self.tmpl, "args": (), "kwargs": self.kw}

    def context_ok(self, out):
        """new_context(dict(*args, **kwargs)) once, root_render_func(that context) once"""
        nc, rr = A.calls(out, "new_context"), A.calls(out, "root_render_func")
        if len(nc) != 1 or len(rr) != 1 or len(nc[0].args) != 2 or nc[0].kwargs:
            return False
        d = nc[0].args[1]
        if not (isinstance(d, Ref) and isinstance(out.st.get(d), HDict) and out.st.get(d).concrete and out.st.get(d).items == {"x": self.x}):
            return False
        return len(rr[0].args) == 1 and rr[0].args[0] is nc[0].result and not rr[0].kwargs

    def p_sync(self, pre, out):
        """synchronous environment: native_concat(root_render_func(new_context(dict(*args, **kwargs))))"""
        if self.is_async:
            return None
        cc = A.calls(out, "native_concat")
        if not self.context_ok(out) or len(cc) != 1 or A.calls(out, "asyncio.run") or A.calls(out, "render_async"):
            return False
        stream = A.calls(out, "root_render_func")[0].result
        if cc[0].args[0] != stream or z3.simplify(cc[0].kwargs["cur"] == 0) is not z3.BoolVal(True) and not z3.is_true(z3.simplify(cc[0].kwargs["cur"] == 0)):
            return False
        if out.raised:
            # an error of the template code goes through handle_exception (traceback rewriting) and is not swallowed
            return out.value is cc[0].result and len(A.calls(out, "handle_exception")) == 1
        return out.value is cc[0].result

    def p_async(self, pre, out):
        """async-enabled environment: the synchronous render drives the asynchronous generator: it is the
        value of render_async(*args, **kwargs) run to completion on an event loop; the async generator is never handed
        to the synchronous consumer"""
        if not self.is_async:
            return None
        if any(e.kwargs.get("async_generator") for e in A.calls(out, "native_concat")):
            return False
        ra, run = A.calls(out, "render_async"), A.calls(out, "asyncio.run")
        if len(ra) != 1 or len(run) != 1 or A.calls(out, "native_concat"):
            return False
        if tuple(ra[0].args[1:]) != () or ra[0].kwargs != {"x": self.x}:
            return False
        if len(run[0].args) != 1 or run[0].args[0] is not ra[0].result or run[0].kwargs:
            return False
        return out.value is run[0].result

    posts = [("sync_env_concat_of_root_stream", p_sync), ("async_env_drives_async_generator", p_async)]

    def concretize(self, model, pre, out):
        w = {"is_async": self.is_async, "mode": "render"}
        bad = [e for e in A.calls(out, "native_concat") if e.kwargs.get("async_generator")]
        if bad:
            w["site"] = "native_concat(async_generator)"
        return w

    def finding_key(self, res):
        w = res.witness or {}
        return w.get("site") or f"render:is_async={w.get('is_async')}"

    def replay(self, w):
        return replay_render(w)


class NativeRenderAsync(VC):
    prop = "C34"
    target = "jinja2.nativetypes:NativeTemplate.render_async"

    def __init__(self):
        self.streams = []
        VC.__init__(self, "C34", "C34.NativeTemplate.render_async")

    def env_async(self, st):
        return True  # the stream is only created on the is_async path

    def configure(self, I):
        install_template_specs(I, self)
        del I.specs["NativeTemplate.render_async"]

    def setup(self, I, st):
        self.flag = sym("is_async", "bool")
        self.env = A.obj(st, N.NativeEnvironment, "environment", fields={"is_async": self.flag})
        self.tmpl = A.obj(st, N.NativeTemplate, "self", fields={"environment": self.env})
        self.x = sym("ctx_x", "obj")
        self.kw = st.alloc(HDict(items={"x": self.x}), initial=True)
        return "locals", {"self": self.tmpl, "args": (), "kwargs": self.kw}

    def p_gate(self, pre, out):
        """RuntimeError (and nothing else happens) exactly when the environment is not async"""
        if out.raised and out.value.cls is RuntimeError:
            return z3.And(z3.Not(self.flag.t), z3.BoolVal(not [e for e in out.st.trace if e.kind == "call"]))
        return self.flag.t

    def p_value(self, pre, out):
        if out.raised and out.value.cls is RuntimeError:
            return None
        cc = A.calls(out, "native_concat")
        if not NativeRender.context_ok(self, out) or len(cc) != 1 or cc[0].kwargs.get("async_generator"):
            return False
        s = self.streams[-1][1] if self.streams else None
        rr = A.calls(out, "root_render_func")[0]
        h = out.st.get(rr.result)
        src = h.items
        j = z3.Int(fresh_name("j"))
        a, n, cur = cc[0].kwargs["arr"], cc[0].kwargs["n"], cc[0].kwargs["cur"]
        collected = z3.And(cur == 0, n == src.n, z3.ForAll([j], z3.Implies(z3.And(0 <= j, j < src.n), z3.Select(a, j) == z3.Select(src.arr, j))),
                           to_term(h.cursor, "int") == src.n)
        if out.raised:
            return z3.And(collected, z3.BoolVal(out.value is cc[0].result and len(A.calls(out, "handle_exception")) == 1))
        return z3.And(collected, z3.BoolVal(out.value is cc[0].result))

    posts = [("async_gate", p_gate), ("concat_of_collected_stream", p_value)]

    def concretize(self, model, pre, out):
        return {"is_async": bool(model_value(model, self.flag.t)), "mode": "render_async"}

    def replay(self, w):
        v, d = replay_render(w)
        if not v:
            w2 = dict(w, is_async=not w.get("is_async"))
            v2, d2 = replay_render(w2)
            if v2:
                return v2, d2
        return v, d


# ------------------------------------------------------------------------------------------------
# NativeCodeGenerator hooks (emission details)
# ------------------------------------------------------------------------------------------------

def replay_codegen(w):
    """generated source of native templates: no str()/escape()/Markup wrapper around output nodes, one literal per
    constant group, constants used only through has_safe_repr"""
    from jinja2.nativetypes import NativeEnvironment
    from jinja2.compiler import has_safe_repr
    env = NativeEnvironment()
    probs = []
    for src, ctx, want_nodes in [("{{ x }}", {"x": 7}, [7]), ("a{{ 1 }}b{{ x }}", {"x": 2}, ["a1b", 2]), ("{{ 'a' }}{{ 2 }}", {}, ["a2"]),
                                 ("{{ [1, 2] }}", {}, [[1, 2]]), ("{{ x }}{{ y }}", {"x": 1, "y": 2}, [1, 2])]:
        code = env.compile(src, raw=True)
        body = code.split("def root(")[1]
        for bad in ("str(", "escape(", "Markup("):
            if bad in body.replace("to_string(", "").replace("markup_join", ""):
                probs.append(f"{src!r}: generated code wraps output in {bad}...)")
        got = env.from_string(src).render(**ctx)
        want = ref_native(want_nodes)
        if not same(got, want):
            probs.append(f"{src!r} renders {got!r}, documented {want!r}")
    try:
        r = env.from_string("{{ [1, 2]|reverse }}").render()
        if isinstance(r, str) or list(r) != [2, 1]:
            probs.append(f"'{{{{ [1, 2]|reverse }}}}' (a constant without safe repr) renders {r!r}, documented: the iterator itself")
    except Exception as ex:
        probs.append(f"'{{{{ [1, 2]|reverse }}}}' raises {type(ex).__name__}: {ex}")
    try:
        fenv = NativeEnvironment(finalize=lambda v: "F" if (v == 7 or v == "a") else v)
        for src, ctx, want_nodes in [("a{{ x }}", {"x": 7}, ["a", "F"]), ("{{ x }}", {"x": 7}, ["F"]), ("7{{ 7 }}", {}, ["7F"]), ("{{ x }}{{ y }}", {"x": 1, "y": 7}, [1, "F"])]:
            got = fenv.from_string(src).render(**ctx)
            if not same(got, ref_native(want_nodes)):
                probs.append(f"finalize environment: {src!r} renders {got!r}, documented {ref_native(want_nodes)!r}")
    except Exception as ex:
        probs.append(f"finalize environment: {type(ex).__name__}: {ex}")
    probs += fold_twins()
    return (bool(probs), "; ".join(probs)[:1500] or "generated code of the replay templates has no str()/escape() wrapper and renders as documented")


def fold_twins():
    """compile-time folded constants against their run-time twins (hunt reports C34_1, C34_2)"""
    import asyncio
    from decimal import Decimal
    from fractions import Fraction
    from jinja2.nativetypes import NativeEnvironment

    class Missing:
        def __repr__(self):
            return "MISSING"

    MISSING = Missing()
    cases = [({}, '{{ ["a"|safe] }}', '{{ [x|safe] }}', {"x": "a"}), ({}, '{{ ("a"|safe, 1) }}', '{{ (x|safe, 1) }}', {"x": "a"}),
             ({}, '{{ {"k": "<b>"|e} }}', '{{ {"k": x|e} }}', {"x": "<b>"}), ({}, '{{ [1|tojson] }}', '{{ [x|tojson] }}', {"x": 1}),
             ({}, '{{ [1, "a", (2.5, none)] }}', '{{ [x, "a", (2.5, none)] }}', {"x": 1}), ({}, '{{ 1e999 }}', '{{ x }}', {"x": float("inf")}),
             ({"finalize": lambda v: Decimal(v) if isinstance(v, int) else v}, "{{ 1 }}", "{{ x }}", {"x": 1}),
             ({"finalize": lambda v: MISSING if v is None else v}, "{{ none }}", "{{ x }}", {"x": None}),
             ({"finalize": lambda v: Fraction(v) if isinstance(v, float) else v}, "{{ 0.5 }}", "{{ x }}", {"x": 0.5}),
             ({"finalize": lambda v: [v] if isinstance(v, int) else v}, "{{ 1 }}", "{{ x }}", {"x": 1})]
    probs = []
    for cfg, const_src, twin_src, ctx in cases:
        for is_async, mode in ((False, "render"), (True, "render"), (True, "render_async")):
            env = NativeEnvironment(enable_async=is_async, **cfg)
            try:
                run = (lambda t, c: asyncio.run(t.render_async(**c))) if mode == "render_async" else (lambda t, c: t.render(**c))
                got, want = run(env.from_string(const_src), {}), run(env.from_string(twin_src), ctx)
            except Exception as ex:
                probs.append(f"{const_src!r}: {type(ex).__name__}: {ex}")
                break
            if type(got) is not type(want) or repr(got) != repr(want):
                probs.append(f"{const_src!r}{' with finalize' if cfg else ''} ({'async' if is_async else 'sync'} env, {mode}) returns {type(got).__name__} {got!r}; "
                             f"its run-time twin {twin_src!r} with {ctx!r} returns {type(want).__name__} {want!r}")
                break
    return probs


class GenBase(VC):
    prop = "C34"
    method = ""

    def __init__(self):
        self.target = f"jinja2.nativetypes:NativeCodeGenerator.{self.method}"
        VC.__init__(self, "C34", f"C34.NativeCodeGenerator.{self.method}")

    def concretize(self, model, pre, out):
        return {"method": self.method}

    def replay(self, w):
        return replay_codegen(w)


class Finfo:
    """ghost stand-in of CodeGenerator._FinalizeInfo"""


class GNode:
    """ghost stand-in of an output child node"""


class GFrame:
    pass


class DefaultFinalize(GenBase):
    method = "_default_finalize"

    def setup(self, I, st):
        self.v = sym("value", "obj")
        return [self.v], {}

    def p_id(self, pre, out):
        return out.returned and out.value is self.v

    posts = [("identity_no_str", p_id)]


class ConstRepr(GenBase):
    """a group of constants is emitted as ONE string literal: repr of the concatenation of their str()"""
    method = "_output_const_repr"

    def configure(self, I):
        install_iter_specs(I)

    def setup(self, I, st):
        self.gen = A.obj(st, N.NativeCodeGenerator, "self")
        self.group = A.alist(st, "group", "obj")
        return [self.gen, self.group], {}

    def p_repr(self, pre, out):
        if out.raised:
            return False
        joins = A.calls(out, "str.join")
        if len(joins) != 1 or joins[0].args[0] != "" or joins[0].kwargs["k"] != "str":
            return False
        from pyvc.models import py_repr_str
        h = pre.get(self.group)
        ja, jn = joins[0].kwargs["arr"], joins[0].kwargs["n"]
        j = z3.Int(fresh_name("j"))
        return z3.And(to_term(out.value, "str") == py_repr_str(joins[0].result.t), jn == h.n,
                      z3.ForAll([j], z3.Implies(z3.And(0 <= j, j < h.n), z3.Select(ja, j) == py_str_obj(z3.Select(h.arr, j)))))

    posts = [("one_literal_of_joined_strs", p_repr)]


class ChildToConst(GenBase):
    """constants are used only if has_safe_repr; template data is not finalized; other constants go through
    finalize.const (no str(), no escape())"""
    method = "_output_child_to_const"

    def __init__(self, is_data):
        self.is_data = is_data
        GenBase.__init__(self)
        self.name += "[TemplateData]" if is_data else "[expr]"

    def configure(self, I):
        from jinja2 import nodes
        from jinja2.compiler import has_safe_repr
        self.safe = z3.Function("has_safe_repr", Obj, z3.BoolSort())
        I.specs[("fn", id(has_safe_repr))] = lambda I_, st, args, kwargs, node: [(st, Sym(self.safe(to_term(args[0], "obj")), "bool"))]
        I.specs["jinja2.compiler:has_safe_repr"] = I.specs[("fn", id(has_safe_repr))]
        I.specs["TemplateData.as_const"] = A.abstract_fn("as_const", returns="obj", raises=[nodes.Impossible])
        I.specs["Const.as_const"] = I.specs["TemplateData.as_const"]
        I.specs["Finfo.const"] = A.abstract_fn("finalize.const", returns="obj", raises=[nodes.Impossible])
        install_literal_specs(I)

    def setup(self, I, st):
        from jinja2 import nodes
        self.gen = A.obj(st, N.NativeCodeGenerator, "self")
        self.node = A.obj(st, nodes.TemplateData if self.is_data else nodes.Const, "node")
        self.ectx = sym("eval_ctx", "obj")
        self.frame = A.obj(st, GFrame, "frame", fields={"eval_ctx": self.ectx})
        self.fin = A.obj(st, Finfo, "finalize")
        return [self.gen, self.node, self.frame, self.fin], {}

    def p_gate(self, pre, out):
        from jinja2 import nodes
        ac = A.calls(out, "as_const")
        if len(ac) != 1 or ac[0].args[0] != self.node or len(ac[0].args) != 2 or ac[0].args[1] is not self.ectx:
            return False
        if isinstance(ac[0].result, Exc):
            return out.raised and out.value is ac[0].result
        c = ac[0].result
        safe = self.safe(c.t)
        fc = A.calls(out, "finalize.const")
        if out.raised and out.value.cls is nodes.Impossible and not fc:
            return z3.Not(safe)
        if self.is_data:
            return z3.And(safe, z3.BoolVal(out.returned and out.value is c and not fc))
        if len(fc) != 1 or fc[0].args[1:] != (c,) or fc[0].kwargs:
            return False
        if out.raised and out.value.cls is nodes.Impossible:
            # refusing to fold (the node is then evaluated at run time) is always sound
            return safe
        return z3.And(safe, z3.BoolVal(out.value is fc[0].result))

    def p_roundtrip(self, pre, out):
        """(hunt C34_1 / C34_2) a folded constant reaches native_concat only as its text str(c): it may be kept only if it is
        a str or that text literal-evaluates back to the same value (same repr) - otherwise `{{ [x|safe] }}` with a constant x,
        or a finalize returning a non-literal object, would return text where the run-time path returns the value itself"""
        if self.is_data or out.raised:
            return None
        from pyvc.smt import str2obj
        from pyvc.models import py_repr_obj
        r = to_term(out.value, "obj")
        t = str2obj(py_str_obj(r))
        return z3.Or(isinst_fn(str)(r), z3.And(lit_ok(t), py_repr_obj(lit_val(t)) == py_repr_obj(r)))

    posts = [("safe_repr_gate_and_finalize", p_gate), ("folded_constant_round_trips", p_roundtrip)]

    def concretize(self, model, pre, out):
        return {"method": self.method, "fold": True}

    def finding_key(self, res):
        return "folded-constant-not-checked-to-round-trip" if "round_trips" in res.name else "gate"


class ChildPrePost(GenBase):
    """the only wrapper written around a native output child is the environment's finalize call:
    pre writes finalize.src (if any), post writes the matching ')' - never str( / escape( / Markup("""

    def __init__(self, which, has_src):
        self.method = which
        self.has_src = has_src
        GenBase.__init__(self)
        self.name += "[finalize.src]" if has_src else "[no finalize]"

    def configure(self, I):
        I.specs["NativeCodeGenerator.write"] = A.abstract_fn("write", returns=None)

    def setup(self, I, st):
        from jinja2 import nodes
        self.gen = A.obj(st, N.NativeCodeGenerator, "self")
        self.node = A.obj(st, nodes.Const, "node")
        self.frame = A.obj(st, GFrame, "frame")
        self.src = "environment.finalize(context, " if self.has_src else None
        self.fin = A.obj(st, Finfo, "finalize", fields={"src": self.src})
        return [self.gen, self.node, self.frame, self.fin], {}

    def p_writes(self, pre, out):
        if out.raised:
            return False
        ws = [e.args[1:] for e in A.calls(out, "write")]
        if not self.has_src:
            return ws == []
        if self.method == "_output_child_pre":
            return ws == [(self.src,)]
        return ws == [(")",)]

    posts = [("only_finalize_wrapper", p_writes)]


def table_classes(task, tier, seed):
    import jinja2.nativetypes as NT
    rows = [
        ("NativeEnvironment.code_generator_class", NT.NativeEnvironment.code_generator_class is NT.NativeCodeGenerator),
        ("NativeEnvironment.concat", NT.NativeEnvironment.__dict__.get("concat").__func__ is NT.native_concat
         if isinstance(NT.NativeEnvironment.__dict__.get("concat"), staticmethod) else False),
        ("NativeEnvironment.template_class", NT.NativeEnvironment.template_class is NT.NativeTemplate),
        ("NativeTemplate.environment_class", NT.NativeTemplate.environment_class is NT.NativeEnvironment),
        ("NativeCodeGenerator._default_finalize.static", isinstance(NT.NativeCodeGenerator.__dict__.get("_default_finalize"), staticmethod)),
        ("NativeTemplate.render.overrides", "render" in NT.NativeTemplate.__dict__ and "render_async" in NT.NativeTemplate.__dict__),
    ]
    return [Res(f"C34.table.{nm}", "discharged" if ok else "refuted", "table", 0, "" if ok else f"{nm} is not wired as documented", "table",
                None if ok else {"is_async": False, "mode": "render"}) for nm, ok in rows]


# ------------------------------------------------------------------------------------------------
# bounded stand-in: real NativeEnvironment on small templates
# ------------------------------------------------------------------------------------------------

FRAGS = ["1", "[", "]", ", ", "'a'", " ", ".", "\n", "{{ a }}", "{{ b }}"]
POOL_QUICK = [1, "2", None, [1], _OPQ, "a b"]
POOL_THOROUGH = POOL_QUICK + [1.5, "", (1, 2), True, "]", "{[]: 1}"]


def node_values(frags, ctx):
    out = []
    for f in frags:
        if f.startswith("{{"):
            out.append(ctx[f[3]])
        elif out and isinstance(out[-1], _Data):
            out[-1] = _Data(out[-1] + f)
        else:
            out.append(_Data(f))
    if frags and frags[-1] == "\n":
        # the lexer drops one trailing newline of the template source (keep_trailing_newline is off)
        out[-1] = _Data(out[-1][:-1])
        if not out[-1]:
            out.pop()
    return [str(v) if isinstance(v, _Data) else v for v in out]


class _Data(str):
    pass


def failure_key(mode, ex):
    import traceback
    tb = traceback.extract_tb(ex.__traceback__)
    fr = [f for f in tb if "jinja2" in f.filename.replace("\\", "/")]
    where = fr[-1].name if fr else "?"
    return f"{mode}|{type(ex).__name__}|{where}|{str(ex)[:40]}"


def render_modes(src, ctx, envs, loop):
    """-> {mode: ('ok', value) | ('raise', exc)}"""
    out = {}
    for mode, env, how in (("sync-env.render", envs[0], "render"), ("async-env.render_async", envs[1], "render_async"),
                           ("async-env.render", envs[1], "render")):
        try:
            t = env.from_string(src)
            if how == "render":
                out[mode] = ("ok", t.render(**ctx))
            else:
                out[mode] = ("ok", loop.run_until_complete(t.render_async(**ctx)))
        except Exception as ex:
            out[mode] = ("raise", ex)
    return out


def bounded_render(task, tier, seed):
    import asyncio
    from jinja2.nativetypes import NativeEnvironment
    pool = POOL_QUICK if tier == "quick" else POOL_THOROUGH
    envs = (NativeEnvironment(), NativeEnvironment(enable_async=True))
    loop = asyncio.new_event_loop()
    failures = {}
    n_cases = 0
    try:
        for k in (1, 2, 3):
            for frags in itertools.product(FRAGS, repeat=k):
                src = "".join(frags)
                used = sorted({f[3] for f in frags if f.startswith("{{")})
                combos = itertools.product(range(len(pool)), repeat=len(used))
                tmpls = None
                for combo in combos:
                    ctx = {nm: pool[i] for nm, i in zip(used, combo)}
                    want = ref_native(node_values(frags, ctx))
                    for mode, (kind, got) in render_modes(src, ctx, envs, loop).items():
                        n_cases += 1
                        if kind == "raise":
                            key = failure_key(mode, got)
                            d = f"{mode} of {src!r} with {ctx!r} raises {type(got).__name__}: {str(got)[:80]}; documented result {want!r:.50}"
                        elif not same(got, want):
                            key = f"{mode}|wrong-value"
                            d = f"{mode} of {src!r} with {ctx!r} = {got!r:.50}; documented result {want!r:.50}"
                        else:
                            continue
                        f = failures.setdefault(key, {"count": 0, "detail": d, "witness": {"src": src, "ctx": {nm: i for nm, i in zip(used, combo)}, "mode": mode, "tier": tier}})
                        f["count"] += 1
    finally:
        loop.close()
    task.bound_text = (f"all templates of 1..3 fragments over {FRAGS!r} ({sum(len(FRAGS) ** k for k in (1, 2, 3))} templates), variables a, b ranging over a pool of {len(pool)} values "
                       f"(non-literal object included), each rendered with render, render_async and render in an async-enabled environment: {n_cases} renders")
    task.stats = {"renders": n_cases, "failing_classes": len(failures)}
    rs = [Res("C34.bounded.render", "bounded-ok", "native", 0, f"{n_cases} renders, {n_cases - sum(f['count'] for f in failures.values())} agree with the reference", "bounded")]
    for k, (key, f) in enumerate(sorted(failures.items())):
        w = dict(f["witness"], key=key)
        rs.append(Res(f"C34.bounded.render#p{k}", "refuted", "native", 0, f"{f['count']} renders fail like: {f['detail']}", "bounded", w))
    return rs


def replay_bounded(w):
    import asyncio
    from jinja2.nativetypes import NativeEnvironment
    pool = POOL_QUICK if w.get("tier", "quick") == "quick" else POOL_THOROUGH
    ctx = {nm: pool[i] for nm, i in w["ctx"].items()}
    frags = []
    src = w["src"]
    rest = src
    while rest:
        for f in sorted(FRAGS, key=len, reverse=True):
            if rest.startswith(f):
                frags.append(f)
                rest = rest[len(f):]
                break
        else:
            return (None, f"cannot split {src!r}")
    want = ref_native(node_values(frags, ctx))
    envs = (NativeEnvironment(), NativeEnvironment(enable_async=True))
    loop = asyncio.new_event_loop()
    try:
        kind, got = render_modes(src, ctx, envs, loop)[w["mode"]]
    finally:
        loop.close()
    if kind == "raise":
        return (True, f"{w['mode']} of {src!r} with {ctx!r} raises {type(got).__name__}: {got}; documented result {want!r}")
    if not same(got, want):
        return (True, f"{w['mode']} of {src!r} with {ctx!r} = {got!r}; documented result {want!r}")
    return (False, f"{w['mode']} of {src!r} with {ctx!r} = {got!r} as documented")


class Bounded(FnTask):
    def finding_key(self, res):
        return (res.witness or {}).get("key", "?")


TASKS = [
    NativeConcat("list"), NativeConcat("generator"),
    NativeRender(False), NativeRender(True), NativeRenderAsync(),
    DefaultFinalize(), ConstRepr(), ChildToConst(True), ChildToConst(False),
    ChildPrePost("_output_child_pre", True), ChildPrePost("_output_child_pre", False),
    ChildPrePost("_output_child_post", True), ChildPrePost("_output_child_post", False),
    FnTask("C34", "C34.table.classes", table_classes, "table", replay_render),
    Bounded("C34", "C34.bounded.render", bounded_render, "bounded", replay_bounded),
]

META = {
    "level": "proof",
    "explanation": "native_concat (real source) is symbolically executed over a list and over a generator of arbitrary length with "
                   "arbitrary elements and proved against the three documented cases (whole-view: which callee sees which text, "
                   "every value once and in order, generator drawn to its end); NativeTemplate.render/render_async against "
                   "'native_concat of the root stream', including the async-enabled environment; the NativeCodeGenerator hooks against "
                   "'no str()/escape() wrapper, has_safe_repr gate, one literal per constant group'. ast.parse/ast.literal_eval are "
                   "abstract callees with the documented raise set; a bounded stand-in renders all small templates on the real "
                   "environment in the three modes.",
    "assumptions": [
        "str() of a value does not raise and is deterministic (py_str_obj is a function)",
        "A7 await / async iteration are transparent (the event loop itself is not modelled)",
        "native_concat is only handed lists and generators (the two shapes produced by render, render_async, blocks and macros); "
        "a non-generator iterator with two or more items would lose its first two items",
        "the schema of CodeGenerator.visit_Output that calls the native hooks is covered by the compiler-side properties (C08/C15)",
    ],
    "trusted_base": ["z3 5.1 / cvc5", "pyvc symbolic executor",
                     "dependency specs: itertools.islice, itertools.chain, str.join, list(), isinstance(_, GeneratorType)",
                     "dependency spec: ast.parse / ast.literal_eval return a value or raise one of ValueError, TypeError, SyntaxError, "
                     "MemoryError, RecursionError (library reference)",
                     "dependency spec: synchronous iteration of an async generator raises TypeError"],
}

# obligations added by the main session after the seeded-change round (block references, has_safe_repr)
from contracts import c34_extra as _x  # noqa: E402
TASKS = list(TASKS) + _x.TASKS
