"""C12  Whitespace control follows the documented trimming rules.

Proof of mechanism + bounded stand-in (DESIGN section 5, C12; reference rules Appendix A.3, from docs/templates.rst
"Whitespace Control"):

  C12.lstrip.left     string VC on the straight-line OptionalLStrip segment of the REAL Lexer.tokeniter (located by AST
                      structure), symbolic text / sign / lstrip_blocks / line_starting, one VC per rule shape and matched
                      branch: '-' => text minus its maximal whitespace suffix (position-wise); '+' => unchanged; no sign +
                      lstrip_blocks + block/comment/raw tag => the part after the last line break is removed iff it is
                      non-empty, all whitespace and starts a line; variable tag / lstrip off => unchanged; only whitespace is
                      ever removed; every other group is untouched.
  C12.line_starting   the flag the segment above takes as input: whole loop body of tokeniter (every rule shape), after a match
                      line_starting' <=> the match is non-empty and source[pos'-1] is a line break; invariant
                      line_starting => pos == 0 or source[pos-1] == "\\n" (entry: INIT segment).
  C12.rules.right     regex facts on the parsed end-tag patterns of every configuration of the A9 family.
  C12.rules.left      regex facts the lstrip VC assumes (root-rule shape, sign groups, variable branch).
  C12.ws.same_class   table: `\\s` (re), str.isspace and what str.rstrip() strips are the same class, all code points.
  C12.cache_key       read-set obligation on Lexer.__init__ / compile_rules vs the key tuple of get_lexer.
  C12.bounded.trim    bounded stand-in: skeleton corpus rendered by the real code vs the reference trimming function.
"""
from __future__ import annotations

import ast
import time

import z3

from pyvc import extract
from pyvc import regexfacts as RF
from pyvc.contract import FnTask, Res
from pyvc.smt import to_term, model_value
from pyvc.values import Sym, Ref, HObj, HList, Unsupported, fresh, sym

import jinja2
import jinja2.lexer as L

from contracts import _lex as X

PROP = "C12"


# ====================================================================== C12.lstrip.left


def root_shapes():
    """distinct orders of the named branches of the root rule over the A9 family (real lexers)"""
    shapes = {}
    for name, kw in RF.delimiter_families().items():
        on = RF.one_named(RF.lexer_for(kw).rules["root"][0].pattern)
        if on is None:
            continue
        shapes.setdefault(tuple(b[0] for b in on["branches"]), name)
    return shapes


class LStripLeft(X.SegmentVC):
    """The OptionalLStrip segment of tokeniter for one rule shape: `names` = the named branches of the root rule in
    order with branch `j` matched, or names=None for the raw-end rule (groups = text, end tag, sign)."""
    prop = PROP
    target = "jinja2.lexer:Lexer.tokeniter"
    timeout_quick = 40000

    def __init__(self, names, j, family=""):
        self.names, self.j, self.family = names, j, family
        label = f"root[{family}].{names[j]}" if names else "raw_end"
        super().__init__(PROP, f"C12.lstrip.left[{label}]")

    def segment(self):
        P = X.tokeniter_parts()
        self.R = P["roles"]
        return P["lstrip_if"].body, P["fn"], P["module"], "Lexer.tokeniter"

    def configure(self, I):
        X.install_string_specs(I, patterns=[L.whitespace_re])

    def setup(self, I, st):
        R = X.tokeniter_parts()["roles"]
        self.text = X.not_none(st, sym("text", "str"))
        self.sign = X.sign_value(st, "sign")
        self.tag = X.not_none(st, sym("tagvalue", "str"))
        st.assume(z3.Length(self.tag.t) >= 1)  # regex fact C12.rules.left: every named branch has min width >= 1
        # definitional: K = position right after the last line break of text (0 if there is none); exists uniquely for every text
        self.K = X.after_last_break(st, self.text.t)
        self.lstrip = sym("lstrip_blocks", "bool")
        self.line_starting = sym("line_starting", "bool")
        if self.names:
            groups = [self.text]
            gd = {}
            for i, n in enumerate(self.names):
                groups += [self.tag, self.sign] if i == self.j else [None, None]
                gd[n] = self.tag if i == self.j else None
            self.is_var = self.names[self.j] == L.TOKEN_VARIABLE_BEGIN
        else:
            groups = [self.text, self.tag, self.sign]
            gd = {}
            self.is_var = False
        self.groups0 = tuple(groups)
        whole = Sym(z3.Concat(self.text.t, self.tag.t), "str")
        m = X.make_match(I, st, self.groups0, whole, gd, sym("pos", "int"))
        lexer = st.alloc(HObj(L.Lexer, fields={"lstrip_blocks": self.lstrip}, path="self"), initial=True)
        return {R.self: lexer, R.groups: self.groups0, R.m: m, R.line_starting: self.line_starting,
                R.newlines_stripped: 0}

    def lemmas(self, out):
        # the code finds the last line break with str.rfind; K (spec vocabulary) is the same position
        out_l = []
        for s, needle, r in out.st.ghost.get("rfind", ()):
            if needle == "\n" and s.eq(self.text.t):
                out_l += [self.K == r + 1, z3.Contains(self.text.t, X.NL) == (r >= 0)]
        o = self.out_text(out)
        if o is not None and not o.eq(self.text.t):
            T = self.text.t
            # facts about the kept text that follow from its term structure alone (it is a slice / strip of the text)
            out_l += [z3.PrefixOf(o, T), o == z3.SubString(T, 0, z3.Length(o))]
            for s, needle, r in out.st.ghost.get("rfind", ()):
                if needle == "\n" and s.eq(T):
                    out_l += [z3.Or(z3.Length(o) == r + 1, o == T), z3.Length(o) == r + 1,
                              X.suffix_from(T, z3.Length(o)) == X.suffix_from(T, r + 1)]
        return out_l

    # ---- reading the post state
    def out_groups(self, out):
        g = self.local(out, self.R.groups)
        if isinstance(g, Ref):
            h = out.st.get(g)
            if isinstance(h, HList) and h.concrete:
                return list(h.items)
            return None
        if isinstance(g, tuple):
            return list(g)
        return None

    def out_text(self, out):
        g = self.out_groups(out)
        return None if not g else to_term(g[0], "str")

    # ---- the specification (statement of C12 / Appendix A.3), in its own words
    def spec(self, o):
        """z3 Bool: `o` is what the documented rules leave of `text`"""
        return X.left_spec(self.text.t, self.sign.t, self.lstrip.t, self.is_var, self.line_starting.t, self.K, o)

    def p_no_exception(self, pre, out):
        return out.kind == "ok"

    def p_rules(self, pre, out):
        o = self.out_text(out)
        if out.kind != "ok" or o is None:
            return None
        return self.spec(o)

    def p_only_whitespace(self, pre, out):
        """non-whitespace text is never removed: text = out + removed with removed all whitespace"""
        o = self.out_text(out)
        if out.kind != "ok" or o is None:
            return None
        t = self.text.t
        return z3.And(z3.PrefixOf(o, t), X.all_ws(X.suffix_from(t, z3.Length(o))))

    def p_frame(self, pre, out):
        """every other group (tag text, sign, the groups of the branches that did not match) is handed on untouched"""
        if out.kind != "ok":
            return None
        g = self.out_groups(out)
        if g is None or len(g) != len(self.groups0):
            return False
        return all(a is b for a, b in zip(g[1:], self.groups0[1:]))

    def p_newlines(self, pre, out):
        """newlines_stripped = the number of line breaks in the removed piece when '-' removed it (it is handed to the line
        counter, C39.lineno); unchanged (0) otherwise - the automatic rule never removes a line break"""
        o = self.out_text(out)
        if out.kind != "ok" or o is None:
            return None
        ns = to_term(self.local(out, self.R.newlines_stripped), "int")
        removed = X.suffix_from(self.text.t, z3.Length(o))
        return z3.If(self.sign.t == z3.StringVal("-"), ns == X.nl_count(removed), z3.And(ns == 0, z3.Not(z3.Contains(removed, X.NL))))

    posts = [("no_exception", p_no_exception), ("rules", p_rules), ("only_whitespace_removed", p_only_whitespace),
             ("other_groups_untouched", p_frame), ("newlines_stripped", p_newlines)]

    # ---- witness / replay
    def concretize(self, model, pre, out):
        return {"text": X.mstr(model, self.text.t), "sign": X.mstr(model, self.sign.t),
                "lstrip_blocks": bool(model_value(model, self.lstrip.t)), "line_starting": bool(model_value(model, self.line_starting.t)),
                "kind": (self.names[self.j] if self.names else "raw_end")}

    def replay(self, w):
        return replay_left(w)

    def finding_key(self, res):
        w = res.witness or {}
        return f"{w.get('kind')}:{w.get('sign')!r}:{w.get('text')!r}"


def class_preserving(text):
    """map every character of a solver witness to a representative of its class (line break / other whitespace kept,
    carriage return -> form feed, anything else -> 'x'): the rules and the lexer only look at the class"""
    return "".join("\n" if c == "\n" else ("\x0c" if c == "\r" else c) if c in X.WS_PY else "x" for c in text)


def replay_left(w):
    """Natively: a real template in which a tag of the witness kind is preceded by `text` (at the start of the source iff
    line_starting, else right after a variable tag on the same line); the data the REAL lexer leaves before the tag vs
    the documented rule (X.spec_left)."""
    text, sign, kind = class_preserving(w["text"]), w["sign"], w["kind"]
    kw = dict(lstrip_blocks=w["lstrip_blocks"])
    tags = {"variable_begin": "{{" + sign + " 1 }}", "block_begin": "{%" + sign + " set q = 1 %}", "comment_begin": "{#" + sign + " c #}",
            "raw_begin": "{%" + sign + " raw %}{% endraw %}", "raw_end": "{%" + sign + " endraw %}",
            "linestatement_begin": "#" + sign + " set q = 1\n", "linecomment_begin": "##" + sign + " c\n"}
    if kind in ("linestatement_begin", "linecomment_begin"):
        kw.update(line_statement_prefix="#", line_comment_prefix="##")
    env = jinja2.Environment(**kw)
    prefix = "" if w["line_starting"] else "{{ 0 }}"
    if kind == "raw_end":
        if w["line_starting"]:
            if text[:1] in X.WS_PY and text:
                return (None, "line_starting inside a raw block needs `{% raw -%}` + line break, which would eat the leading whitespace of the text")
            prefix = "{% raw -%}\n"
        else:
            prefix = "{% raw %}"
    src = prefix + text + tags[kind] + "|"
    toks = list(env.lex(src))
    skip = 0 if (not prefix or kind == "raw_end") else 3  # the tokens of `{{ 0 }}`: begin, whitespace.., end
    idx = [i for i, t in enumerate(toks) if t[1] == kind]
    if prefix and kind != "raw_end":
        idx = [i for i in idx if i >= 3]
    if not idx:
        return (None, f"the real lexer did not produce a {kind} token for {src!r}")
    k = idx[0]
    got = toks[k - 1][2] if k > 0 and toks[k - 1][1] == "data" else ""
    want = X.spec_left(text, sign, w["lstrip_blocks"], kind != "variable_begin", w["line_starting"])
    if kind in ("linestatement_begin", "linecomment_begin"):
        # the prefix rules take the horizontal whitespace before the prefix into the tag itself: compare up to that
        want_c, got_c = want.rstrip(" \t\x0b\x0c"), got.rstrip(" \t\x0b\x0c")
        return (got_c != want_c, f"source {src!r}: data before the tag {got!r}, documented rules {want!r}")
    return (got != want, f"source {src!r} lstrip_blocks={w['lstrip_blocks']}: real data before the {kind} tag {got!r}, documented rules {want!r}")


def lstrip_tasks():
    tasks = []
    seen = set()
    for names, fam in root_shapes().items():
        for j in range(len(names)):
            # the segment only distinguishes the number of branches, the position of the matched one and whether it is the
            # variable tag: one VC per such combination over the families
            key = (len(names), j, names[j] == L.TOKEN_VARIABLE_BEGIN)
            if key in seen:
                continue
            seen.add(key)
            tasks.append(LStripLeft(list(names), j, fam.split("/")[0]))
    tasks.append(LStripLeft(None, 0))
    return tasks


# ====================================================================== regex-fact obligations


def res(name, ok, detail="", witness=None, kind="regex", t0=None, undecided=False):
    status = "discharged" if ok else ("unknown" if undecided else "refuted")
    return Res(name, status, "regexfacts", (time.time() - t0) if t0 else 0.0, detail, kind, None if ok else witness)


def block_forms(delim, trim):
    """documented: `+`end, `-`end + all following whitespace, end + one optional line break iff trim_blocks"""
    return {("+", delim, "none"), ("-", delim, "\\s*"), ("", delim, "\\n?" if trim else "none")}


def plain_forms(delim):
    """variable end: `-`end + whitespace, or end; never affected by the automatic options (`+}}` is an operator followed by
    the delimiter, not a modifier)"""
    return {("-", delim, "\\s*"), ("", delim, "none")}


def raw_begin_forms(delim):
    """right side of the opening raw tag: a block tag, so `+`end and `-`end + whitespace are accepted like on every other
    block tag (the statement: "a '+' disables the respective automatic trimming"; its quantifier: raw tags carrying every
    combination of '-', '+' and no modifier on each side) - but NO automatic line-break removal, whatever trim_blocks says:
    "the body of a raw block stays verbatim", so here '+' has nothing to disable and must simply be accepted."""
    return {("+", delim, "none"), ("-", delim, "\\s*"), ("", delim, "none")}


def end_rule_facts(kw):
    """[(rule label, got forms, wanted forms, extra problems)] for one configuration, from the parse trees of the REAL patterns"""
    env = jinja2.Environment(**kw)
    lx = env.lexer
    be, ce, ve, bs = env.block_end_string, env.comment_end_string, env.variable_end_string, env.block_start_string
    trim = env.trim_blocks
    out = []
    p = lx.rules[L.TOKEN_BLOCK_BEGIN][0].pattern
    out.append(("block_end", RF.end_forms(RF.tree(p), be), block_forms(be, trim), []))
    p = lx.rules[L.TOKEN_VARIABLE_BEGIN][0].pattern
    out.append(("variable_end", RF.end_forms(RF.tree(p), ve), plain_forms(ve), []))
    p = lx.rules[L.TOKEN_COMMENT_BEGIN][0].pattern
    probs = [] if RF.partition(p) == [1, 2] and RF.lazy_text(p) else ["comment rule is not (lazy text)(end tag)"]
    g2 = RF.group_content(RF.items(RF.tree(p))[1]) if not probs else []
    out.append(("comment_end", RF.end_forms(g2, ce) if not probs else None, block_forms(ce, trim), probs))
    signs = {bs + s + "<ws*>" for s in ("", "-", "+")}
    p = lx.rules[L.TOKEN_RAW_BEGIN][0].pattern
    probs = [] if RF.partition(p) == [1, 2] and RF.lazy_text(p) else ["raw-end rule is not (lazy text)(end tag)"]
    got = None
    if not probs:
        sp = RF.split_after_literal(RF.group_content(RF.items(RF.tree(p))[1]), "endraw")
        if sp is None:
            probs.append("`endraw` followed by \\s* not found in group 2")
        else:
            head = {RF.render_alt(a) for a in (RF.alternatives(sp[0]) or [])}
            if head != signs:
                probs.append(f"opening of the endraw tag accepts {sorted(head)}, documented {sorted(signs)}")
            got = RF.end_forms(sp[1], be)
    out.append(("raw_end", got, block_forms(be, trim), probs))
    on = RF.one_named(lx.rules["root"][0].pattern)
    probs, got = [], None
    br = [b for b in (on["branches"] if on else []) if b[0] == L.TOKEN_RAW_BEGIN]
    if len(br) != 1:
        probs.append("root rule has no single raw_begin branch")
    else:
        sp = RF.split_after_literal(br[0][2], "raw")
        if sp is None:
            probs.append("`raw` followed by \\s* not found in the raw_begin branch")
        else:
            head = {RF.render_alt(a) for a in (RF.alternatives(sp[0]) or [])}
            if head != signs:
                probs.append(f"opening of the raw tag accepts {sorted(head)}, documented {sorted(signs)}")
            got = RF.end_forms(sp[1], be)
    out.append(("raw_begin_end", got, raw_begin_forms(be), probs))
    return out


def doc_accepts(rule, delim, trim, s):
    """documented acceptance of the string s as the end of a tag (own words, no regex)"""
    automatic = rule in ("block_end", "comment_end", "raw_end")
    if s == "+" + delim:
        return rule != "variable_end"  # every block / comment / raw tag side accepts '+'; `+}}` is an operator
    if s.startswith("-" + delim):
        return all(c in X.WS_PY for c in s[len(delim) + 1:])
    if s == delim:
        return True
    return s == delim + "\n" and automatic and trim


def real_accepts(lx, rule, s, env):
    """does the REAL compiled pattern of the rule match exactly s as the end tag"""
    if rule == "block_end":
        return lx.rules[L.TOKEN_BLOCK_BEGIN][0].pattern.fullmatch(s) is not None
    if rule == "variable_end":
        return lx.rules[L.TOKEN_VARIABLE_BEGIN][0].pattern.fullmatch(s) is not None
    if rule == "comment_end":
        m = lx.rules[L.TOKEN_COMMENT_BEGIN][0].pattern.fullmatch("c" + s)
        return m is not None and m.group(2) == s
    if rule == "raw_end":
        pre = env.block_start_string + " endraw "
        m = lx.rules[L.TOKEN_RAW_BEGIN][0].pattern.fullmatch("c" + pre + s)
        return m is not None and m.group(2) == pre + s
    if rule == "raw_begin_end":
        pre = env.block_start_string + " raw "
        m = lx.rules["root"][0].pattern.fullmatch("c" + pre + s)
        return m is not None and m.group("raw_begin") == pre + s
    raise KeyError(rule)


def replay_rules_right(w):
    kw = w["config"]
    env = jinja2.Environment(**kw)
    lx = env.lexer
    rule = w["rule"]
    delim = {"block_end": env.block_end_string, "variable_end": env.variable_end_string, "comment_end": env.comment_end_string,
             "raw_end": env.block_end_string, "raw_begin_end": env.block_end_string}[rule]
    bad = []
    for sign in ("", "-", "+"):
        for trail in ("", "\n", " ", "\n\n", " \n", "\t", "\r", "x"):
            s = sign + delim + trail
            r, d = real_accepts(lx, rule, s, env), doc_accepts(rule, delim, env.trim_blocks, s)
            if r != d:
                bad.append((s, r, d))
    if rule == "raw_begin_end":
        # end to end (the input of hunt/f/C12_1): '+' on the right of the opening raw tag must be accepted and change nothing
        bs, be = env.block_start_string, env.block_end_string
        src_plus = f"A\n{bs} raw +{be}\n  x \n{bs} endraw {be}\nB"
        try:
            got = env.from_string(src_plus).render()
        except Exception as ex:  # noqa
            got = f"<{type(ex).__name__}: {ex}>"
        want = env.from_string(src_plus.replace(" +" + be, " " + be)).render()
        if got != want:
            bad.append((src_plus, got, want))
    return (bool(bad), f"{rule} of configuration {kw}: (candidate end tag, real pattern accepts, documented) disagree on {bad[:6]}")


def cap_refuted(results, limit=6):
    """report at most `limit` refuted results of one task (each is replayed in a fresh interpreter); the rest are summarised"""
    bad = [r for r in results if r.status == "refuted"]
    if len(bad) <= limit:
        return results
    drop = set(id(r) for r in bad[limit:])
    bad[limit - 1].detail += f" [+{len(bad) - limit} further refuted obligations of this task not listed]"
    return [r for r in results if id(r) not in drop]


def rules_right(task, tier, seed):
    out = []
    for cname, kw in RF.family().items():
        t0 = time.time()
        for rule, got, want, probs in end_rule_facts(kw):
            name = f"C12.rules.right[{cname}].{rule}"
            if probs or got is None:
                # the structure could not be read: undecided, unless the native probe finds a concrete disagreement
                v, d = replay_rules_right({"config": kw, "rule": rule})
                out.append(res(name, False, "; ".join(probs) + " | " + d, {"config": kw, "rule": rule}, t0=t0, undecided=not v))
            else:
                diff = {"missing": sorted((sg, tr) for sg, d, tr in want - got), "extra": sorted((sg, tr) for sg, d, tr in got - want)}
                out.append(res(name, got == want, f"pattern accepts {sorted(got)}, documented {sorted(want)}", dict({"config": kw, "rule": rule}, **diff), t0=t0))
    capped = []
    for rule in ("block_end", "variable_end", "comment_end", "raw_end", "raw_begin_end"):
        capped += cap_refuted([r for r in out if r.name.endswith("." + rule)], limit=4)
    return capped


def rules_right_key(r):
    """class of the disagreement: rule + which (sign, trailing) forms are missing / extra (independent of the delimiters)"""
    w = r.witness or {}
    return f"{w.get('rule')}:missing={w.get('missing')}:extra={w.get('extra')}"


def rules_left(task, tier, seed):
    """the facts C12.lstrip.left (and C39) assume about the two OptionalLStrip rules, per delimiter family"""
    out = []
    for cname, kw in RF.family().items():
        t0 = time.time()
        env = jinja2.Environment(**kw)
        lx = env.lexer
        root = lx.rules["root"][0]
        name = f"C12.rules.left[{cname}]"
        lrules = sorted((st, i) for st, rules in lx.rules.items() for i, r in enumerate(rules) if isinstance(r.tokens, L.OptionalLStrip))
        out.append(res(name + ".lstrip_rules", lrules == [(L.TOKEN_RAW_BEGIN, 0), ("root", 0)], f"OptionalLStrip rules: {lrules}", undecided=True, t0=t0))
        on = RF.one_named(root.pattern)
        sg = RF.sign_groups(root.pattern)
        ok = on is not None and sg is not None and RF.lazy_text(root.pattern)
        out.append(res(name + ".root.shape", ok, "root rule is (lazy text)(?:one named group per branch), each with exactly one mandatory '-'|'+'|'' group "
                       "at m.groups()[2::2]" if ok else "root rule shape not recognised", undecided=True, t0=t0))
        if ok:
            starts = {L.TOKEN_VARIABLE_BEGIN: env.variable_start_string, L.TOKEN_BLOCK_BEGIN: env.block_start_string,
                      L.TOKEN_COMMENT_BEGIN: env.comment_start_string, L.TOKEN_RAW_BEGIN: env.block_start_string,
                      L.TOKEN_LINESTATEMENT_BEGIN: env.line_statement_prefix, L.TOKEN_LINECOMMENT_BEGIN: env.line_comment_prefix}
            bad = []
            for bname, g, content in on["branches"]:
                lo = RF.P.SubPattern(RF.tree(root.pattern).state, content).getwidth()[0]
                if lo < 1:
                    bad.append(f"{bname}: may match the empty string")
                if bname not in starts or not starts[bname] or not RF.contains_literal(content, starts[bname]):
                    bad.append(f"{bname}: does not contain its start string {starts.get(bname)!r} literally")
            want_names = {n for n, v in starts.items() if v}
            if {b[0] for b in on["branches"]} != want_names:
                bad.append(f"branches {[b[0] for b in on['branches']]} != tags of the configuration {sorted(want_names)}")
            out.append(res(name + ".root.branches", not bad, "; ".join(bad) or "every branch is non-empty and contains the start string of its tag kind; "
                           "the variable tag is the branch named variable_begin", {"config": kw}, t0=t0, undecided=True))
        rawend = lx.rules[L.TOKEN_RAW_BEGIN][0]
        ok = RF.partition(rawend.pattern) == [1, 2] and RF.sign_groups(rawend.pattern) == [(None, 3)] and RF.lazy_text(rawend.pattern)
        out.append(res(name + ".raw_end.shape", ok, "raw-end rule is (lazy text)(end tag with one mandatory sign group = m.groups()[2])", undecided=True, t0=t0))
    return out


def ws_same_class(task, tier, seed):
    t0 = time.time()
    bad = RF.regex_space_is_isspace()
    return [Res("C12.ws.same_class", "discharged" if not bad else "refuted", "table", time.time() - t0,
                f"all 0x110000 code points: re `\\s`, str.isspace and str.rstrip() agree; class = {RF.space_ranges()}" if not bad else
                f"disagreement at code points {bad[:10]}", "table", None if not bad else {"codepoints": bad[:10]})]


def replay_ws(w):
    import re
    bad = [i for i in w["codepoints"] if (re.fullmatch(r"\s", chr(i)) is not None) != (("x" + chr(i)).rstrip() == "x")]
    return (bool(bad), f"`\\s` and str.rstrip() disagree on code points {bad}")


# ====================================================================== C12.cache_key


def env_reads(fn, param_index):
    """attributes read as `<environment parameter>.<attr>` in a real function; plus other uses of the parameter"""
    node, _ = extract.function_ast(fn)
    pname = node.args.args[param_index].arg
    reads, escapes = set(), []
    parents = {}
    for n in ast.walk(node):
        for c in ast.iter_child_nodes(n):
            parents[c] = n
    for n in ast.walk(node):
        if isinstance(n, ast.Name) and n.id == pname and isinstance(n.ctx, ast.Load):
            par = parents.get(n)
            if isinstance(par, ast.Attribute) and par.value is n:
                reads.add(par.attr)
            else:
                escapes.append((n.lineno, ast.unparse(par) if par is not None else pname))
    return reads, escapes


def key_attrs():
    node, _ = extract.function_ast(L.get_lexer)
    pname = node.args.args[0].arg
    gets = [n for n in ast.walk(node) if isinstance(n, ast.Call) and isinstance(n.func, ast.Attribute) and n.func.attr == "get"
            and isinstance(n.func.value, ast.Name) and n.func.value.id == "_lexer_cache"]
    if len(gets) != 1 or not isinstance(gets[0].args[0], ast.Name):
        return None, None
    kname = gets[0].args[0].id
    tuples = [n.value for n in ast.walk(node) if isinstance(n, ast.Assign) and isinstance(n.targets[0], ast.Name) and n.targets[0].id == kname]
    stores = [n for n in ast.walk(node) if isinstance(n, ast.Subscript) and isinstance(n.ctx, ast.Store) and getattr(n.value, "id", None) == "_lexer_cache"]
    same_key = all(isinstance(s.slice, ast.Name) and s.slice.id == kname for s in stores) and len(stores) == 1
    if len(tuples) != 1 or not isinstance(tuples[0], ast.Tuple):
        return None, None
    attrs = set()
    for e in tuples[0].elts:
        if isinstance(e, ast.Attribute) and isinstance(e.value, ast.Name) and e.value.id == pname:
            attrs.add(e.attr)
    return attrs, same_key


ALT_VALUES = {"trim_blocks": (False, True), "lstrip_blocks": (False, True), "keep_trailing_newline": (False, True),
              "newline_sequence": ("\n", "\r\n"), "line_statement_prefix": (None, "#"), "line_comment_prefix": (None, "##"),
              "block_start_string": ("{%", "<%"), "block_end_string": ("%}", "%>"), "variable_start_string": ("{{", "${"),
              "variable_end_string": ("}}", "}"), "comment_start_string": ("{#", "<!--"), "comment_end_string": ("#}", "-->")}


def replay_cache_key(w):
    """two environments differing only in the attribute: a shared lexer is the violation"""
    attr = w["attr"]
    if attr not in ALT_VALUES:
        return (None, f"no pair of alternative values known for environment.{attr}")
    a, b = ALT_VALUES[attr]
    e1, e2 = jinja2.Environment(), jinja2.Environment()
    setattr(e1, attr, a)
    setattr(e2, attr, b)
    l1, l2 = L.get_lexer(e1), L.get_lexer(e2)
    return (l1 is l2, f"environments differing only in {attr} ({a!r} / {b!r}) {'share one lexer object' if l1 is l2 else 'get distinct lexers'}")


def cache_key(task, tier, seed):
    t0 = time.time()
    out = []
    attrs, same_key = key_attrs()
    if attrs is None:
        return [res("C12.cache_key.shape", False, "get_lexer: key tuple / _lexer_cache.get(key) not recognised", undecided=True, kind="table", t0=t0)]
    out.append(res("C12.cache_key.lookup_and_store_use_the_key", bool(same_key), "the cache is read and written under the same key variable", undecided=True, kind="table", t0=t0))
    reads = {}
    for fn, idx in ((L.Lexer.__init__, 1), (L.compile_rules, 0)):
        r, esc = env_reads(fn, idx)
        for a in r:
            reads.setdefault(a, []).append(fn.__qualname__)
        for ln, txt in esc:
            callee_ok = txt.startswith("compile_rules(")
            out.append(res(f"C12.cache_key.environment_not_leaked[{fn.__qualname__}@{txt[:40]}]", callee_ok,
                           f"line {ln}: the environment object is passed on as `{txt}`" + (" (a function under this contract)" if callee_ok else ""),
                           undecided=True, kind="table", t0=t0))
    for a, where in sorted(reads.items()):
        out.append(res(f"C12.cache_key.read[{a}]", a in attrs, f"environment.{a} is read by {where}; key components: {sorted(attrs)}",
                       {"attr": a}, kind="table", t0=t0))
    return out


# ====================================================================== C12.bounded.trim

NSHARDS = 16
_envs = {}


def env_for(setting):
    if setting not in _envs:
        _envs[setting] = jinja2.Environment(trim_blocks=setting[0], lstrip_blocks=setting[1], cache_size=0)
    return _envs[setting]


def render_case(ids, setting):
    parts = X.skeleton(*ids)
    src = X.source_of(parts)
    want = X.reference_render(X.working_parts(parts), setting[0], setting[1])
    try:
        got = env_for(setting).from_string(src).render(v="V")
    except Exception as ex:  # noqa
        got = f"<{type(ex).__name__}: {ex}>"
    return src, got, want


def bounded_trim(shard):
    def run(task, tier, seed):
        t0 = time.time()
        n, out = 0, []
        for ids in X.corpus_sample(tier, seed, shard, NSHARDS):
            for setting in X.SETTINGS:
                src, got, want = render_case(ids, setting)
                n += 1
                if got != want and len(out) < 1:
                    out.append(Res(f"C12.bounded.trim[{shard}].case{len(out)}", "refuted", "native", time.time() - t0,
                                   f"{src!r} trim_blocks={setting[0]} lstrip_blocks={setting[1]}: rendered {got!r}, documented rules give {want!r}",
                                   "bounded", {"tags": list(ids[0]), "seps": list(ids[1]), "trim_blocks": setting[0], "lstrip_blocks": setting[1]}))
        task.stats = {"renders": n}
        if not out:
            out.append(Res(f"C12.bounded.trim[{shard}]", "bounded-ok", "native", time.time() - t0,
                           f"{n} renders of the real Environment equal the reference trimming function", "bounded"))
        return out
    return run


_fam_envs = {}


def render_case_family(ids, setting, fam):
    """the extended tag set written with the delimiters of one family"""
    kw = RF.delimiter_families()[fam + "/trim=0,lstrip=0"]
    key = (fam, setting)
    if key not in _fam_envs:
        _fam_envs[key] = (jinja2.Environment(**dict(kw, trim_blocks=setting[0], lstrip_blocks=setting[1], cache_size=0)),
                          X.tag_variants(X.delims_of(kw), extended=True))
    env, tags = _fam_envs[key]
    parts = X.skeleton(*ids, tags=tags)
    src = X.source_of(parts)
    want = X.reference_render(X.working_parts(parts), setting[0], setting[1])
    try:
        got = env.from_string(src).render(v="V")
    except Exception as ex:  # noqa
        got = f"<{type(ex).__name__}: {ex}>"
    return src, got, want


def bounded_trim_family(fam):
    def run(task, tier, seed):
        t0 = time.time()
        n, out = 0, []
        for ids in X.family_sample(seed):
            for setting in X.SETTINGS:
                src, got, want = render_case_family(ids, setting, fam)
                n += 1
                if got != want and not out:
                    out.append(Res(f"C12.bounded.trim[{fam}].case", "refuted", "native", time.time() - t0,
                                   f"{fam} delimiters, {src!r} trim_blocks={setting[0]} lstrip_blocks={setting[1]}: rendered {got!r}, documented rules give {want!r}",
                                   "bounded", {"family": fam, "tags": list(ids[0]), "seps": list(ids[1]), "trim_blocks": setting[0], "lstrip_blocks": setting[1]}))
        task.stats = {"renders": n}
        if not out:
            out.append(Res(f"C12.bounded.trim[{fam}]", "bounded-ok", "native", time.time() - t0,
                           f"{n} renders of the real Environment ({fam} delimiters, extended tag set) equal the reference trimming function", "bounded"))
        return out
    return run


def render_case_rawplus(ids, setting):
    key = ("raw+", setting)
    if key not in _fam_envs:
        _fam_envs[key] = (jinja2.Environment(trim_blocks=setting[0], lstrip_blocks=setting[1], cache_size=0), X.raw_plus_variants())
    env, tags = _fam_envs[key]
    parts = X.skeleton(*ids, tags=tags)
    src = X.source_of(parts)
    want = X.reference_render(X.working_parts(parts), setting[0], setting[1])
    try:
        got = env.from_string(src).render(v="V")
    except Exception as ex:  # noqa
        got = f"<{type(ex).__name__}: {ex}>"
    return src, got, want


def rawplus_class(got):
    """class of a failure on `{% raw +%}`: the exception type, or 'wrong-text'"""
    return "raw+:" + (got[1:].split(":")[0] if got.startswith("<") else "wrong-text")


def bounded_trim_rawplus(task, tier, seed):
    """the quantifier of C12 lists raw tags carrying '+' on each side: every skeleton with one raw block whose opening tag is
    `{% raw +%}` (9 outer modifier combinations x 49 separator pairs x 4 settings); one failure is reported per failure class"""
    t0 = time.time()
    n, out, seen = 0, [], set()
    for t in range(9):
        for a in range(len(X.SEPS)):
            for b in range(len(X.SEPS)):
                ids = ((t,), (a, b))
                for setting in X.SETTINGS:
                    src, got, want = render_case_rawplus(ids, setting)
                    n += 1
                    if got != want and rawplus_class(got) not in seen:
                        seen.add(rawplus_class(got))
                        out.append(Res(f"C12.bounded.trim[raw+].case{len(out)}", "refuted", "native", time.time() - t0,
                                       f"{src!r} trim_blocks={setting[0]} lstrip_blocks={setting[1]}: rendered {got!r}, documented rules give {want!r}",
                                       "bounded", {"rawplus": True, "tags": list(ids[0]), "seps": list(ids[1]), "trim_blocks": setting[0],
                                                   "lstrip_blocks": setting[1], "class": rawplus_class(got)}))
    task.stats = {"renders": n}
    if not out:
        out.append(Res("C12.bounded.trim[raw+]", "bounded-ok", "native", time.time() - t0, f"{n} renders equal the reference trimming function", "bounded"))
    return out


def replay_trim(w):
    if w.get("rawplus"):
        src, got, want = render_case_rawplus((tuple(w["tags"]), tuple(w["seps"])), (w["trim_blocks"], w["lstrip_blocks"]))
        hunt = "A\n{% raw +%}\n  {{ body }}\n{% endraw %}\nB"  # the input of hunt/f/C12_1
        env = jinja2.Environment(trim_blocks=w["trim_blocks"], lstrip_blocks=w["lstrip_blocks"])
        try:
            hgot = env.from_string(hunt).render()
        except Exception as ex:  # noqa
            hgot = f"<{type(ex).__name__}: {ex}>"
        hwant = env.from_string(hunt.replace(" +%}", " %}")).render()
        return (got != want or hgot != hwant, f"{src!r}: rendered {got!r}, documented rules give {want!r}; {hunt!r}: rendered {hgot!r}, "
                                              f"the same template without '+' gives {hwant!r}")
    if w.get("family"):
        src, got, want = render_case_family((tuple(w["tags"]), tuple(w["seps"])), (w["trim_blocks"], w["lstrip_blocks"]), w["family"])
        return (got != want, f"{w['family']} delimiters, {src!r} trim_blocks={w['trim_blocks']} lstrip_blocks={w['lstrip_blocks']}: rendered {got!r}, documented rules give {want!r}")
    src, got, want = render_case((tuple(w["tags"]), tuple(w["seps"])), (w["trim_blocks"], w["lstrip_blocks"]))
    return (got != want, f"{src!r} trim_blocks={w['trim_blocks']} lstrip_blocks={w['lstrip_blocks']}: rendered {got!r}, documented rules give {want!r}")


def bounded_tasks():
    ts = []
    for k in range(NSHARDS):
        t = FnTask(PROP, f"C12.bounded.trim[{k}]", bounded_trim(k), kind="bounded", replay_fn=replay_trim)
        t.bound_text = X.CORPUS_BOUND + f" (shard {k} of {NSHARDS})"
        ts.append(t)
    for fam in ("default", "asp", "dollar", "shared"):
        t = FnTask(PROP, f"C12.bounded.trim[{fam}]", bounded_trim_family(fam), kind="bounded", replay_fn=replay_trim)
        t.bound_text = X.FAMILY_BOUND + f" ({fam} delimiters)"
        ts.append(t)
    t = FnTask(PROP, "C12.bounded.trim[raw+]", bounded_trim_rawplus, kind="bounded", replay_fn=replay_trim)
    t.bound_text = "every skeleton with one raw block whose opening tag is `{% raw +%}`: 9 outer modifier combinations x 49 separator pairs x 4 settings"
    t.finding_key = lambda r: (r.witness or {}).get("class")
    ts.append(t)
    return ts


# ====================================================================== C12.line_starting

from contracts import c39 as _c39  # noqa: E402  (the loop-body segment VC of Lexer.tokeniter lives there)


def replay_line_starting(w):
    """Natively, with C12's own oracle: the extended skeleton corpus (every tag variant incl. raw blocks with whitespace-only
    bodies, all N <= 1 and 2000 seeded N = 2, four trim/lstrip settings) rendered by the REAL Environment against the
    reference trimming function."""
    fams = ["default"] + ([w["family"]] if w.get("family") in ("asp", "dollar", "shared") else [])
    n = 0
    for fam in fams:
        for ids in X.family_sample(0, n2=2000):
            for setting in X.SETTINGS:
                if not setting[1] and n > 20000:
                    continue  # the flag only matters with lstrip_blocks
                src, got, want = render_case_family(ids, setting, fam)
                n += 1
                if got != want:
                    return (True, f"{fam} delimiters, {src!r} trim_blocks={setting[0]} lstrip_blocks={setting[1]}: rendered {got!r}, documented rules give {want!r}")
    return (False, f"{n} renders agree with the reference trimming function")


class LineStarting(_c39.LoopBody):
    """C12.line_starting: the `line_starting` flag that C12.lstrip.left takes as an input is maintained correctly by EVERY
    rule of the tokenizer loop (whole loop body, real source, one VC per rule shape): after a match it is true iff the
    match is non-empty and the consumed text source[:pos'] ends in a line break; hence the invariant
    `line_starting => pos == 0 or source[pos-1] == '\n'` (assumed on entry, proved on exit; established by the INIT segment)."""

    def replay(self, w):
        return replay_line_starting(w)


class LineStartingInit(_c39.LoopInit):
    def replay(self, w):
        return replay_line_starting({"family": "default"})


def line_starting_tasks():
    # the assignment of the flag comes after the per-rule-kind branches of the body and does not depend on WHICH named branch of
    # the root rule matched: one VC per rule kind x (number of branches, variable tag or not); C39 proves the same equation
    # (lossless.line_starting) for every branch position
    return (_c39.loop_tasks(("linestart",), "C12.line_starting", cls=LineStarting, by_position=False)
            + [LineStartingInit(None, prefix="C12.line_starting.init")])


_rules_right = FnTask(PROP, "C12.rules.right", rules_right, kind="regex", replay_fn=replay_rules_right)
_rules_right.finding_key = rules_right_key

TASKS = (lstrip_tasks() + line_starting_tasks()
         + [_rules_right,
            FnTask(PROP, "C12.rules.left", rules_left, kind="regex", replay_fn=lambda w: (None, "structural fact; see C12.bounded.trim")),
            FnTask(PROP, "C12.ws.same_class", ws_same_class, kind="table", replay_fn=replay_ws),
            FnTask(PROP, "C12.cache_key", cache_key, kind="table", replay_fn=replay_cache_key)]
         + bounded_tasks())

META = {
    "level": "other",
    "explanation": (
        "Proof of mechanism plus a bounded stand-in; not an end-to-end proof. (1) The OptionalLStrip segment of the real Lexer.tokeniter "
        "(extracted by AST structure) is executed symbolically for every rule shape of the A9 family and every matched branch, with symbolic "
        "text / sign / lstrip_blocks / line_starting, and proved against the documented left-hand rules ('-' removes the maximal whitespace suffix, "
        "stated position-wise; '+' nothing; lstrip_blocks removes the all-whitespace line start before block/comment/raw tags only; variable tags "
        "never; only whitespace is removed; the other groups are untouched). (2) The right-hand rules are regex facts read off the re._parser "
        "trees of the real end-tag patterns of all 30 configurations. (3) get_lexer's cache key covers every environment attribute read when the "
        "rules are built. The deciding step from 'the pattern accepts these forms' to 'a match consumes exactly this much' is assumption A8 and is "
        "NOT proved: it is carried by the bounded stand-in C12.bounded.trim (real Environment.render vs a reference trimming function written from "
        "docs/templates.rst on a finite skeleton corpus), which is why the level is 'other'."),
    "assumptions": [
        "A8: `re` implements leftmost / ordered-alternation / lazy-greedy semantics and re._parser describes the pattern `re` executes",
        "A9: regex facts are extracted for the finite listed family of 30 lexer configurations (pyvc.regexfacts.family)",
        "definitional extension K = position after the last line break of the text (exists uniquely for every string)",
        "line_starting is a symbolic input of the OptionalLStrip segment; its meaning (line_starting => the text starts a line; set iff the "
        "last match ended in a line break) is proved for every rule of the loop by C12.line_starting (loop-body VCs shared with C39)",
    ],
    "trusted_base": [
        "z3 / cvc5 1.0.3 (--strings-exp)", "pyvc symbolic executor", "pyvc.regexfacts (parse-tree facts, to_z3 translation)",
        "dependency spec str.rstrip(): result is the prefix before the maximal suffix of Py_UNICODE_ISSPACE characters (position-wise and as WS*)",
        "dependency spec str.rfind(one char): highest index or -1", "dependency spec str.count: uninterpreted",
        "dependency spec re.Pattern.fullmatch(s, pos): truthy iff s[pos:] is in the language of the parsed pattern (A8)",
        "reference trimming function contracts/_lex.py: spec_left / reference_pieces (from docs/templates.rst, DESIGN A.3)",
    ],
}
