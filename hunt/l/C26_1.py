"""C26: LRUCache.__contains__ observes the half-done state of a concurrent __setitem__.

__setitem__ on a full cache first evicts the oldest key from _mapping and only two
lines later inserts the new key; __contains__ reads _mapping without taking the lock.
A second thread that runs between those lines sees a cache that contains neither the
evicted key nor the new key -- a state that exists in no atomic ordering of the calls.

The schedule is forced with sys.settrace on the writer thread only (no library code is
changed): the writer is paused at the first line boundary after the eviction line.
"""
import linecache
import sys
import threading

from jinja2.utils import LRUCache

cache = LRUCache(2)
cache["a"] = 1
cache["b"] = 2          # full: a (oldest), b

paused = threading.Event()
resume = threading.Event()
state = {"evict_seen": False, "done": False}


def tracer(frame, event, arg):
    code = frame.f_code
    if code.co_name != "__setitem__" or not code.co_filename.endswith("utils.py"):
        return None

    def local(frame, event, arg):
        if event == "line" and not state["done"]:
            text = linecache.getline(code.co_filename, frame.f_lineno)
            if state["evict_seen"]:
                # first line boundary after the eviction line has executed
                state["done"] = True
                paused.set()
                resume.wait(10)
            elif "_popleft" in text:
                state["evict_seen"] = True
        return local

    return local


def writer():
    sys.settrace(tracer)
    try:
        cache["c"] = 3   # must evict "a" and insert "c" atomically
    finally:
        sys.settrace(None)


t = threading.Thread(target=writer)
t.start()
if not paused.wait(10):
    resume.set()
    t.join()
    print("could not force the schedule (source layout changed?)")
    sys.exit(0)

# two contains calls of the observing thread, both strictly inside the set call
a_in = "a" in cache
c_in = "c" in cache
n = len(cache)
resume.set()
t.join()

print(f"during cache['c']=3 on full cache [a,b]:  'a' in cache={a_in}  'c' in cache={c_in}  len={n}")
print(f"after: keys={list(cache.keys())}")
# atomic orders: observer before the set -> a_in True, c_in False, len 2
#                observer after the set  -> a_in False, c_in True, len 2
ok = (a_in, c_in, n) in {(True, False, 2), (False, True, 2)}
if not ok:
    print("VIOLATION: 'a' already evicted but 'c' not yet present: no atomic ordering of "
          "set('c'), contains('a'), contains('c') gives (False, False); len also dropped below 2")
    sys.exit(1)
print("ok")
