"""C28: ChoiceLoader.get_source does not resolve a name to the first loader that has it (and does not
raise TemplateNotFound when none has it) as soon as a ModuleLoader is a member: the RuntimeError of
ModuleLoader.get_source aborts the search.  ChoiceLoader.load resolves the same names correctly."""
import sys
import tempfile

from jinja2 import ChoiceLoader, DictLoader, Environment, ModuleLoader, PrefixLoader, TemplateNotFound

target = tempfile.mkdtemp()
Environment(loader=DictLoader({"m.html": "compiled"})).compile_templates(target, zip=None)

ml = ModuleLoader(target)
dl = DictLoader({"d.html": "from dict"})
bad = False

for label, loader, names in [
    ("Choice[Module, Dict]", ChoiceLoader([ml, dl]), ["d.html", "missing.html"]),
    ("Choice[Dict, Module]", ChoiceLoader([dl, ml]), ["d.html", "missing.html"]),
    ("Prefix{p: Choice[Module, Dict]}", PrefixLoader({"p": ChoiceLoader([ml, dl])}), ["p/d.html", "p/missing.html"]),
]:
    env = Environment(loader=loader)
    for name in names:
        try:
            via_load = env.get_template(name).render()
        except TemplateNotFound:
            via_load = "TemplateNotFound"
        try:
            via_get_source = loader.get_source(env, name)[0]
        except TemplateNotFound:
            via_get_source = "TemplateNotFound"
        except Exception as e:  # noqa: BLE001
            via_get_source = f"{type(e).__name__}: {e}"
        flag = "" if via_load == via_get_source else "   <-- differs"
        bad |= via_load != via_get_source
        print(f"{label:34} {name:16} load: {via_load:18} get_source: {via_get_source}{flag}")

if bad:
    print("VIOLATION: get_source neither resolves to the first loader that has the name nor raises "
          "TemplateNotFound when none has it")
    sys.exit(1)
print("ok")
