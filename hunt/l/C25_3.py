"""C25: a deleted template's cache entry is kept (and even refreshed in recency by the failed
lookup), so a live, more recently *served* template is evicted instead of the dead entry."""
import sys

from jinja2 import DictLoader, Environment, TemplateNotFound

m = {"a": "A", "b": "B", "c": "C"}
env = Environment(loader=DictLoader(m), cache_size=2, auto_reload=True)
ta = env.get_template("a")          # served: a
tb = env.get_template("b")          # served: b   (cache: a, b)
del m["a"]                          # deletion in the loader
try:
    env.get_template("a")
    print("deleted template still served?!")
    sys.exit(1)
except TemplateNotFound:
    pass
held = [k[1] for k in env.cache.keys()]
print("after failed lookup of deleted 'a', cache holds (MRU first):", held)
tc = env.get_template("c")          # needs a slot: least recently used *template* is the dead 'a'
held2 = [k[1] for k in env.cache.keys()]
print("after loading 'c', cache holds (MRU first):", held2)
b_kept = env.get_template("b") is tb
print("live template 'b' still cached:", b_kept)
if not b_kept or "a" in held2:
    print("VIOLATION: the entry of the deleted template 'a' (which can never be served again) was "
          "kept as most-recently-used and the live template 'b' was evicted and recompiled")
    sys.exit(1)
print("ok")
