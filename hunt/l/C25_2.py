"""C25: ChoiceLoader -- a template added to an earlier loader does not invalidate the cached
template that was resolved from a later loader; auto-reload keeps serving the old one."""
import sys

from jinja2 import ChoiceLoader, DictLoader, Environment, FunctionLoader, PrefixLoader

bad = False

# (a) two DictLoaders
hi, lo = {}, {"t": "from low-priority loader"}
env = Environment(loader=ChoiceLoader([DictLoader(hi), DictLoader(lo)]), auto_reload=True)
r1 = env.get_template("t").render()
hi["t"] = "from high-priority loader"                   # addition in the loader
current = env.loader.get_source(env, "t")[0]
r2 = env.get_template("t").render()
print(f"(a) before: {r1!r}; loader's current source: {current!r}; auto-reload env renders: {r2!r}")
bad |= r2 != current

# (b) the same through select_template and nested in a PrefixLoader
hi, lo = {}, {"t": "low"}
env = Environment(
    loader=PrefixLoader({"p": ChoiceLoader([DictLoader(hi), DictLoader(lo)])}),
    auto_reload=True,
)
env.select_template(["missing", "p/t"]).render()
hi["t"] = "high"
current = env.loader.get_source(env, "p/t")[0]
r2 = env.select_template(["missing", "p/t"]).render()
print(f"(b) loader's current source: {current!r}; auto-reload env renders: {r2!r}")
bad |= r2 != current

if bad:
    print("VIOLATION: the up-to-date check of the loader that produced the cached template is the "
          "only thing consulted; earlier loaders in the chain are never asked again")
    sys.exit(1)
print("ok")
