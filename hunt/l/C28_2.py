"""C28: PrefixLoader raises TemplateNotFound for a template that one of its loaders has (and that its own
list_templates() reports) when the prefix contains the delimiter."""
import sys

from jinja2 import DictLoader, Environment, PrefixLoader, TemplateNotFound

loader = PrefixLoader(
    {
        "shop/admin": DictLoader({"index.html": "admin index"}),
        "shop": DictLoader({"index.html": "shop index"}),
    }
)
env = Environment(loader=loader)
bad = False
for name in loader.list_templates():
    try:
        out = env.get_template(name).render()
    except TemplateNotFound as e:
        out = f"TemplateNotFound({e.name!r})"
        bad = True
    print(f"{name:24} -> {out}")

if bad:
    print("VIOLATION: a name listed by the PrefixLoader, held by the loader bound to prefix "
          "'shop/admin', is reported as not found (the name is split at the FIRST delimiter only)")
    sys.exit(1)
print("ok")
