"""C27: the cache key is sha1(name + "|" + filename) -- the pair (name="a|b", filename=None) and the
pair (name="a", filename="b") get the same key.  With equal sources the entry written for the first is
served for the second, whose compiled code must embed a different template name / file name."""
import sys
import tempfile

from jinja2 import Environment, FileSystemBytecodeCache, FunctionLoader

SRC = "{{ self }}"   # renders <TemplateReference 'NAME'>


def load(name):
    if name == "a|b":
        return SRC, None, None        # no file name
    if name == "a":
        return SRC, "b", None         # file name "b"
    return None


cache_dir = tempfile.mkdtemp()
bcc = FileSystemBytecodeCache(cache_dir)
k1 = bcc.get_cache_key("a|b", None)
k2 = bcc.get_cache_key("a", "b")
print("cache keys equal:", k1 == k2)

ref_env = Environment(loader=FunctionLoader(load), cache_size=0)
ref = ref_env.get_template("a")
expected = (ref.render(), ref.name, ref.filename)

env = Environment(loader=FunctionLoader(load), bytecode_cache=bcc, cache_size=0)
env.get_template("a|b").render()                     # writes the entry
t = env.get_template("a")                            # same key, same source checksum -> cache hit
got = (t.render(), t.name, t.filename)

print("compiling the current source gives :", expected)
print("loading through the bytecode cache :", got)
if got != expected:
    print("VIOLATION: template 'a' is served the code compiled for template 'a|b'")
    sys.exit(1)
print("ok")
