"""C27: with a bytecode cache, templates whose name / file name / source contain characters that
cannot be encoded as strict UTF-8 (e.g. a template directory whose path has a non-UTF-8 byte, which
Python represents with a surrogate escape) cannot be loaded at all; without the cache they render."""
import os
import sys
import tempfile

from jinja2 import DictLoader, Environment, FileSystemBytecodeCache, FileSystemLoader

bad = False
cache_dir = tempfile.mkdtemp()


def attempt(label, make_loader, name):
    global bad
    plain = Environment(loader=make_loader()).get_template(name).render()
    try:
        cached = Environment(
            loader=make_loader(), bytecode_cache=FileSystemBytecodeCache(cache_dir)
        ).get_template(name).render()
    except Exception as e:  # noqa: BLE001
        cached = f"raised {type(e).__name__}: {e}"
    print(f"{label}: without cache {plain!r}; with bytecode cache {cached!r}")
    if cached != plain:
        bad = True


# (a) realistic: search directory whose path contains a byte that is not valid UTF-8
base = tempfile.mkdtemp().encode()
tdir = base + b"/tpl\xff"
os.mkdir(tdir)
with open(tdir + b"/t.html", "w") as f:
    f.write("hello {{ 1 + 1 }}")
searchpath = os.fsdecode(tdir)  # '/tmp/.../tpl\udcff'
attempt("(a) non-UTF-8 directory name", lambda: FileSystemLoader(searchpath), "t.html")

# (b) template *name* with a lone surrogate (e.g. taken from os.listdir / list_templates())
attempt("(b) surrogate in template name", lambda: DictLoader({"n\udcfe.html": "hi"}), "n\udcfe.html")

# (c) template *source* with a lone surrogate
attempt("(c) surrogate in source", lambda: DictLoader({"t": "x\ud800y{{ 1 }}"}), "t")

if bad:
    print("VIOLATION: loading through the bytecode cache raises UnicodeEncodeError where compiling "
          "the current source renders fine")
    sys.exit(1)
print("ok")
