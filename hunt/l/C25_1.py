"""C25: FileSystemLoader with several search paths -- adding a template that shadows a
cached one is never noticed by an auto-reloading environment."""
import os
import sys
import tempfile

from jinja2 import Environment, FileSystemLoader

d = tempfile.mkdtemp()
first = os.path.join(d, "first")
second = os.path.join(d, "second")
os.mkdir(first)
os.mkdir(second)

with open(os.path.join(second, "t.html"), "w") as f:
    f.write("from second")
os.utime(os.path.join(second, "t.html"), (1000, 1000))

env = Environment(loader=FileSystemLoader([first, second]), auto_reload=True)
r1 = env.get_template("t.html").render()

# addition in the loader: the same name now exists in the higher-priority directory
with open(os.path.join(first, "t.html"), "w") as f:
    f.write("from first")
os.utime(os.path.join(first, "t.html"), (2000, 2000))

current = env.loader.get_source(env, "t.html")[0]      # what the loader says the source is now
r2 = env.get_template("t.html").render()                # what the auto-reloading env renders
fresh = Environment(loader=FileSystemLoader([first, second])).get_template("t.html").render()

print(f"before addition: {r1!r}")
print(f"loader's current source: {current!r}; fresh environment renders {fresh!r}; "
      f"auto-reload environment renders {r2!r}")
if r2 != fresh:
    print("VIOLATION: auto_reload=True environment serves the shadowed (no longer current) template")
    sys.exit(1)
print("ok")
