"""C09: attribute look-ups done *inside* the async filter variants
(sum(attribute=), selectattr / rejectattr, join(attribute=)) are not awaited,
although the compiled ``x.attr`` / ``x[attr]`` and ``map(attribute=)`` are."""
import sys

# ---- helper: render in a sync and an async environment and compare ----
import warnings

warnings.simplefilter("ignore")


def outcome(env, src, data):
    try:
        return ("ok", env.from_string(src).render(**data))
    except Exception as e:  # noqa: BLE001
        return ("error", type(e).__name__, str(e))


def same(a, b):
    if a[0] == "ok" and b[0] == "ok":
        return a[1] == b[1]
    return a[0] == b[0] == "error" and a[1] == b[1]


def compare(src, data=None, adata=None, cls=None, **opts):
    from jinja2 import Environment

    cls = cls or Environment
    a = outcome(cls(enable_async=False, **opts), src, dict(data or {}))
    b = outcome(cls(enable_async=True, **opts), src, dict(adata if adata is not None else (data or {})))
    ok = same(a, b)
    print("same " if ok else "DIFF ", cls.__name__, repr(src))
    if not ok:
        print("      sync :", a)
        print("      async:", b)
    return 0 if ok else 1
# ---- end helper ----


bad = 0
# 1. no custom data needed: the loop object itself has awaitable attributes in async mode
bad += compare("{% for x in 'ab' %}{{ [loop]|map(attribute='length')|join(',') }} {% endfor %}")  # control: same
bad += compare("{% for x in 'ab' %}{{ [loop]|selectattr('last')|list|length }}{% endfor %}")
bad += compare("{% for x in 'ab' %}{{ [loop]|rejectattr('last')|list|length }}{% endfor %}")
bad += compare("{% for x in 'ab' %}{{ [loop]|selectattr('revindex', 'eq', 1)|list|length }}{% endfor %}")
bad += compare("{% for x in 'ab' %}{{ [loop]|sum(attribute='length') }}{% endfor %}")
bad += compare("{% for x in 'ab' %}{{ [loop]|join(',', attribute='length')|int }}{% endfor %}")


# 2. data objects whose attribute is computed asynchronously (x.val is awaited by the compiled code)
class O:
    def __init__(self, v):
        self.v = v

    @property
    def val(self):
        return self.v


class AO(O):
    @property
    def val(self):
        async def get():
            return self.v

        return get()


d, ad = {"os": [O(1), O(2)]}, {"os": [AO(1), AO(2)]}
bad += compare("{{ os[0].val }}{{ os|map(attribute='val')|sum }}", d, ad)  # control: same
bad += compare("{{ os|sum(attribute='val') }}", d, ad)
bad += compare("{{ os|selectattr('val', 'odd')|list|length }}", d, ad)
bad += compare("{{ os|join(',', attribute='val') }}", d, ad)
sys.exit(1 if bad else 0)
