"""C07: ``loop`` read from an included template (or from a macro imported
``with context``) inside a for body is only the loop's own context when the
body happens to mention ``loop`` lexically as well."""
import sys
from jinja2 import Environment, DictLoader

T = {
    "item": "{{ loop.index }}/{{ loop.length }}{{ 'L' if loop.last }} ",
    "mac": "{% macro show() %}{{ loop.index }}/{{ loop.length }} {% endmacro %}",
}
bad = 0


def check(src, expected):
    global bad
    for mode in (False, True):
        env = Environment(enable_async=mode, loader=DictLoader(T))
        try:
            got = env.from_string(src).render()
        except Exception as e:  # noqa: BLE001
            got = f"{type(e).__name__}: {e}"
        ok = got == expected
        print(("ok   " if ok else "WRONG"), "async" if mode else "sync ", repr(src))
        if not ok:
            print("      expected", repr(expected), "got", repr(got))
            bad += 1


# control: works when the body also names loop
check("{% for x in 'ab' %}{% include 'item' %}{% if loop is defined %}{% endif %}{% endfor %}", "1/2 2/2L ")
# 1. the include is the only user of loop: UndefinedError
check("{% for x in 'ab' %}{% include 'item' %}{% endfor %}", "1/2 2/2L ")
# 2. nested: the included template sees the OUTER loop's state
check(
    "{% for a in [1,2,3] %}{{ loop.index }}:{% for x in 'ab' %}{% include 'item' %}{% endfor %}| {% endfor %}",
    "1:1/2 2/2L | 2:1/2 2/2L | 3:1/2 2/2L | ",
)
# 3. import with context
check(
    "{% for x in 'ab' %}{% from 'mac' import show with context %}{{ show() }}{% endfor %}",
    "1/2 2/2 ",
)
sys.exit(1 if bad else 0)
