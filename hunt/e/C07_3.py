"""C07: for an *iterator* that also reports its remaining size through __len__,
loop.length (and revindex/revindex0) are computed from len() at the time of the
first query and not corrected for the items already taken."""
import sys
from jinja2 import Environment


class Remaining:
    """A well-behaved sized iterator: len(it) == number of items it will still yield."""

    def __init__(self, items):
        self.items = list(items)

    def __iter__(self):
        return self

    def __next__(self):
        if not self.items:
            raise StopIteration
        return self.items.pop(0)

    def __len__(self):
        return len(self.items)


SRC = "{% for x in it %}{{ x }}:{{ loop.index }}/{{ loop.length }} r{{ loop.revindex }} r0={{ loop.revindex0 }} last={{ loop.last }}|{% endfor %}"
expected = Environment().from_string(SRC).render(it=[1, 2, 3])
bad = 0
for mode in (False, True):
    got = Environment(enable_async=mode).from_string(SRC).render(it=Remaining([1, 2, 3]))
    ok = got == expected
    print("ok   " if ok else "WRONG", "async" if mode else "sync ", got)
    bad += not ok
print("expected    ", expected)
sys.exit(1 if bad else 0)
