"""C09: AsyncLoopContext inherits __len__ / __repr__ from LoopContext, but its
``length`` property is a coroutine: truth-testing ``loop`` (``{% if loop %}``,
``loop and ..``, ``not loop``, ``loop|default(.., true)``), ``loop|length`` and
printing ``loop`` break in async mode only."""
import sys
from jinja2.sandbox import SandboxedEnvironment
from jinja2.nativetypes import NativeEnvironment

# ---- helper: render in a sync and an async environment and compare ----
import warnings

warnings.simplefilter("ignore")


def outcome(env, src, data):
    try:
        return ("ok", env.from_string(src).render(**data))
    except Exception as e:  # noqa: BLE001
        return ("error", type(e).__name__, str(e))


def same(a, b):
    if a[0] == "ok" and b[0] == "ok":
        return a[1] == b[1]
    return a[0] == b[0] == "error" and a[1] == b[1]


def compare(src, data=None, adata=None, cls=None, **opts):
    from jinja2 import Environment

    cls = cls or Environment
    a = outcome(cls(enable_async=False, **opts), src, dict(data or {}))
    b = outcome(cls(enable_async=True, **opts), src, dict(adata if adata is not None else (data or {})))
    ok = same(a, b)
    print("same " if ok else "DIFF ", cls.__name__, repr(src))
    if not ok:
        print("      sync :", a)
        print("      async:", b)
    return 0 if ok else 1
# ---- end helper ----


bad = 0
bad += compare("{% for x in 'ab' %}{% if loop %}in a loop {% endif %}{% endfor %}")
bad += compare("{% for x in 'ab' %}{{ x }}{{ ',' if loop and not loop.last }}{% endfor %}")
bad += compare("{% for x in 'ab' %}{{ not loop }}{% endfor %}")
bad += compare("{% for x in 'ab' %}{{ loop|length }}{% endfor %}")
bad += compare("{% for x in 'ab' %}{{ loop|count }}{% endfor %}", cls=SandboxedEnvironment)
bad += compare("{% for x in 'ab' %}{{ (loop|default(none, true)) is none }}{% endfor %}")
bad += compare("{% for x in 'a' %}{{ loop|length }}{% endfor %}", cls=NativeEnvironment)
# repr: "<LoopContext 1/2>" vs "<AsyncLoopContext 1/<coroutine object ...>>"; compare only the counters
bad += compare("{% for x in 'ab' %}{{ (loop|string).split(' ')[1] }}{% endfor %}")
sys.exit(1 if bad else 0)
