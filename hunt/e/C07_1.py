"""C07: a macro / call-block parameter named ``loop`` anywhere in a for body,
lexically before the first use of ``loop``, makes the compiler forget that the
body uses the special ``loop`` variable."""
import sys
from jinja2 import Environment

bad = 0


def check(src, expected, **data):
    global bad
    for mode in (False, True):
        env = Environment(enable_async=mode)
        try:
            got = env.from_string(src).render(**data)
        except Exception as e:  # noqa: BLE001
            got = f"{type(e).__name__}: {e}"
        ok = got == expected
        print(("ok   " if ok else "WRONG"), "async" if mode else "sync ", repr(src))
        if not ok:
            print("      expected", repr(expected), "got", repr(got))
            bad += 1


# 1. loop.index of a single loop: must be 12, raises UndefinedError
check(
    "{% for x in 'ab' %}{% macro m(loop) %}{% endmacro %}{{ loop.index }}{% endfor %}",
    "12",
)
# 2. same through a call block with a parameter named loop
check(
    "{% macro w() %}{{ caller(0) }}{% endmacro %}"
    "{% for x in 'ab' %}{% call(loop) w() %}{% endcall %}{{ loop.index }}/{{ loop.length }} {% endfor %}",
    "1/2 2/2 ",
)
# 3. nested loops: the inner loop silently reports the OUTER loop's state
check(
    "{% for a in [1,2,3] %}{{ loop.index }}:"
    "{% for b in 'xy' %}{% macro m(loop) %}{% endmacro %}{{ loop.index }}{{ loop.last }}{% endfor %} {% endfor %}",
    "1:1False2True 2:1False2True 3:1False2True ",
)
# control: the same templates without the parameter name work
check(
    "{% for a in [1,2,3] %}{{ loop.index }}:"
    "{% for b in 'xy' %}{% macro m(lo) %}{% endmacro %}{{ loop.index }}{{ loop.last }}{% endfor %} {% endfor %}",
    "1:1False2True 2:1False2True 3:1False2True ",
)
sys.exit(1 if bad else 0)
