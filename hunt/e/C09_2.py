"""C09: in async mode select/reject/selectattr/rejectattr/map return *async*
generators; every consumer that has no async variant (sort, min, max, batch,
reverse, ``in``, unpacking, ``*args``, dict(), ``is iterable`` ...) then fails
or answers differently, while the sync environment renders normally."""
import sys
from jinja2.sandbox import SandboxedEnvironment, ImmutableSandboxedEnvironment
from jinja2.nativetypes import NativeEnvironment

# ---- helper: render in a sync and an async environment and compare ----
import warnings

warnings.simplefilter("ignore")


def outcome(env, src, data):
    try:
        return ("ok", env.from_string(src).render(**data))
    except Exception as e:  # noqa: BLE001
        return ("error", type(e).__name__, str(e))


def same(a, b):
    if a[0] == "ok" and b[0] == "ok":
        return a[1] == b[1]
    return a[0] == b[0] == "error" and a[1] == b[1]


def compare(src, data=None, adata=None, cls=None, **opts):
    from jinja2 import Environment

    cls = cls or Environment
    a = outcome(cls(enable_async=False, **opts), src, dict(data or {}))
    b = outcome(cls(enable_async=True, **opts), src, dict(adata if adata is not None else (data or {})))
    ok = same(a, b)
    print("same " if ok else "DIFF ", cls.__name__, repr(src))
    if not ok:
        print("      sync :", a)
        print("      async:", b)
    return 0 if ok else 1
# ---- end helper ----


users = [{"n": "bob", "on": 1}, {"n": "al", "on": 1}, {"n": "cy", "on": 0}]
bad = 0
bad += compare("{{ users|selectattr('on')|sort(attribute='n')|map(attribute='n')|join(',') }}", {"users": users})
bad += compare("{{ [3, 1, 2]|select('odd')|sort }}")
bad += compare("{{ [3, 1, 2]|map('int')|max }}{{ [3, 1, 2]|reject('odd')|min }}")
bad += compare("{{ [3, 1, 2]|map('int')|batch(2)|list }}")
bad += compare("{{ [3, 1, 2]|map('int')|reverse|list }}")
bad += compare("{{ 3 in [3, 1, 2]|map('int') }}")
bad += compare("{{ [3, 1, 2]|map('int') is iterable }}")
bad += compare("{% set a, b = [1, 2]|map('int') %}{{ a }}{{ b }}")
bad += compare("{{ '%s-%s'|format(*[1, 2]|map('int')) }}")
bad += compare("{{ dict([('a', 1)]|select) }}")
bad += compare("{{ [[1, 2], [3]]|map('select', 'odd')|map('sort')|list }}")
for cls in (SandboxedEnvironment, ImmutableSandboxedEnvironment, NativeEnvironment):
    bad += compare("{{ [3, 1, 2]|select('odd')|sort }}", cls=cls)
sys.exit(1 if bad else 0)
