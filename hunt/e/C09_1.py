"""C09: the async variant of the ``sum`` filter is a hand written ``+`` loop, the
sync variant is the builtin ``sum``: they disagree on float input and on
str/bytes start values."""
import sys
from jinja2.sandbox import SandboxedEnvironment
from jinja2.nativetypes import NativeEnvironment

# ---- helper: render in a sync and an async environment and compare ----
import warnings

warnings.simplefilter("ignore")


def outcome(env, src, data):
    try:
        return ("ok", env.from_string(src).render(**data))
    except Exception as e:  # noqa: BLE001
        return ("error", type(e).__name__, str(e))


def same(a, b):
    if a[0] == "ok" and b[0] == "ok":
        return a[1] == b[1]
    return a[0] == b[0] == "error" and a[1] == b[1]


def compare(src, data=None, adata=None, cls=None, **opts):
    from jinja2 import Environment

    cls = cls or Environment
    a = outcome(cls(enable_async=False, **opts), src, dict(data or {}))
    b = outcome(cls(enable_async=True, **opts), src, dict(adata if adata is not None else (data or {})))
    ok = same(a, b)
    print("same " if ok else "DIFF ", cls.__name__, repr(src))
    if not ok:
        print("      sync :", a)
        print("      async:", b)
    return 0 if ok else 1
# ---- end helper ----


bad = 0
items = [{"price": 0.1}, {"price": 0.2}, {"price": 0.3}]
# float addition: builtin sum() uses compensated summation on Python >= 3.12
bad += compare("{{ items|sum(attribute='price') }}", {"items": items})
bad += compare("{{ [0.1, 0.2, 0.3]|sum }}")
bad += compare("{{ [1e100, 1.0, -1e100]|sum }}")
bad += compare("{{ xs|sum == 0.6 }}", {"xs": [0.1, 0.2, 0.3]}, cls=NativeEnvironment)
bad += compare("{{ xs|sum }}", {"xs": [0.1] * 10}, cls=SandboxedEnvironment)
# str / bytes start: builtin sum() refuses, the async loop concatenates
bad += compare("{{ ['a', 'b']|sum(start='') }}")
bad += compare("{{ []|sum(start='') }}")
bad += compare("{{ words|sum(attribute='w', start='>') }}", {"words": [{"w": "x"}, {"w": "y"}]})
sys.exit(1 if bad else 0)
