"""C09: the same environment configuration with a bytecode cache, once with and
once without enable_async: whichever mode compiles a template first poisons the
cache for the other one (the cache key ignores enable_async)."""
import shutil
import sys
import tempfile
import warnings

from jinja2 import DictLoader, Environment, FileSystemBytecodeCache

warnings.simplefilter("ignore")
T = {"page": "{% for x in xs %}{{ loop.index }}:{{ x }} {% endfor %}"}
bad = 0


def render(mode, cache_dir):
    env = Environment(
        enable_async=mode, loader=DictLoader(T), bytecode_cache=FileSystemBytecodeCache(cache_dir)
    )
    try:
        return ("ok", env.get_template("page").render(xs="ab"))
    except Exception as e:  # noqa: BLE001
        return ("error", type(e).__name__, str(e))


for first in (False, True):
    d = tempfile.mkdtemp()
    try:
        a = render(first, d)
        b = render(not first, d)
    finally:
        shutil.rmtree(d, ignore_errors=True)
    names = {False: "sync ", True: "async"}
    print(f"{names[first]} first -> {a}")
    print(f"{names[not first]} next  -> {b}")
    if a != b:
        bad += 1
sys.exit(1 if bad else 0)
