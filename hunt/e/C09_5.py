"""C09: a Python callable from the data that invokes a macro, ``caller()`` or
``loop(...)`` receives a str in sync mode and an un-awaited coroutine in async
mode."""
import sys
from jinja2.sandbox import SandboxedEnvironment

# ---- helper: render in a sync and an async environment and compare ----
import warnings

warnings.simplefilter("ignore")


def outcome(env, src, data):
    try:
        return ("ok", env.from_string(src).render(**data))
    except Exception as e:  # noqa: BLE001
        return ("error", type(e).__name__, str(e))


def same(a, b):
    if a[0] == "ok" and b[0] == "ok":
        return a[1] == b[1]
    return a[0] == b[0] == "error" and a[1] == b[1]


def compare(src, data=None, adata=None, cls=None, **opts):
    from jinja2 import Environment

    cls = cls or Environment
    a = outcome(cls(enable_async=False, **opts), src, dict(data or {}))
    b = outcome(cls(enable_async=True, **opts), src, dict(adata if adata is not None else (data or {})))
    ok = same(a, b)
    print("same " if ok else "DIFF ", cls.__name__, repr(src))
    if not ok:
        print("      sync :", a)
        print("      async:", b)
    return 0 if ok else 1
# ---- end helper ----



def upper_block(caller):
    """a typical helper used with {% call %}"""
    return caller().upper()


def apply(func, *args):
    return "[" + str(func(*args)) + "]"


def walk(loop, children):
    return "(" + str(loop(children)) + ")"


bad = 0
bad += compare("{% call shout() %}abc{% endcall %}", {"shout": upper_block})
bad += compare("{% call shout() %}abc{% endcall %}", {"shout": upper_block}, cls=SandboxedEnvironment)
bad += compare("{% macro m(x) %}<{{ x }}>{% endmacro %}{{ apply(m, 1) }}", {"apply": apply})
bad += compare(
    "{% for n in tree recursive %}{{ n.v }}{{ walk(loop, n.c) }}{% endfor %}",
    {"walk": walk, "tree": [{"v": 1, "c": [{"v": 2, "c": []}]}]},
)
bad += compare("{% block b %}B{% endblock %}{{ apply(self.b) }}", {"apply": apply})
sys.exit(1 if bad else 0)
