"""C09: the async ``unique`` (and ``slice``) variants drain their whole input
before the lazy sync implementation starts; the sync variants are lazy.  A
consumer that stops early (``first``) therefore sees an error - or an error of
a different class - only in async mode."""
import sys

# ---- helper: render in a sync and an async environment and compare ----
import warnings

warnings.simplefilter("ignore")


def outcome(env, src, data):
    try:
        return ("ok", env.from_string(src).render(**data))
    except Exception as e:  # noqa: BLE001
        return ("error", type(e).__name__, str(e))


def same(a, b):
    if a[0] == "ok" and b[0] == "ok":
        return a[1] == b[1]
    return a[0] == b[0] == "error" and a[1] == b[1]


def compare(src, data=None, adata=None, cls=None, **opts):
    from jinja2 import Environment

    cls = cls or Environment
    a = outcome(cls(enable_async=False, **opts), src, dict(data or {}))
    b = outcome(cls(enable_async=True, **opts), src, dict(adata if adata is not None else (data or {})))
    ok = same(a, b)
    print("same " if ok else "DIFF ", cls.__name__, repr(src))
    if not ok:
        print("      sync :", a)
        print("      async:", b)
    return 0 if ok else 1
# ---- end helper ----


bad = 0
# sync: map and unique are lazy, `first` stops after item 1; async: unique lists the whole map first
bad += compare("{{ [1, none]|map('abs')|unique|first }}")
bad += compare("{{ ['1', 'x']|map('float', none)|map('round')|unique|first }}")
# different error CLASS: sync fails in unique on item 1 (unhashable), async fails in the `odd` test on item 2
bad += compare("{{ x|selectattr('a', 'odd')|unique|list }}", {"x": [{"a": 1}, {"b": 2}]})
# a slice that is never consumed: sync yields a value, async raises
bad += compare("{{ (5|slice(2)) is iterable }}")
sys.exit(1 if bad else 0)
