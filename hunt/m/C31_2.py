"""C31: compile_templates() silently drops every template that does not
compile (ignore_errors=True is the default).  From the module loader such a
template is then 'not found', which {% include ... ignore missing %} and
{% include [a, b] %} swallow - so the precompiled set renders output where the
source set raises (and a different template than the one named first)."""
import os
import sys
import tempfile

from jinja2 import DictLoader
from jinja2 import Environment
from jinja2 import ModuleLoader

TEMPLATES = {
    # uses a filter that does not exist -> TemplateAssertionError at compile time
    "widget": "W{{ value|no_such_filter }}",
    "fallback": "FALLBACK",
    "page1": "<{% include 'widget' ignore missing %}>",
    "page2": "<{% include ['widget', 'fallback'] %}>",
}


def render(env, name):
    try:
        return env.get_template(name).render(value=1)
    except Exception as e:
        return f"raised {type(e).__name__}: {e}"


src_env = Environment(loader=DictLoader(TEMPLATES))
bad = False
for zip_mode in ("deflated", "stored", None):
    target = os.path.join(tempfile.mkdtemp(), "compiled")
    src_env.compile_templates(target, zip=zip_mode)  # documented defaults
    mod_env = Environment(loader=ModuleLoader(target))
    for name in ("page1", "page2"):
        a, b = render(src_env, name), render(mod_env, name)
        if a != b:
            bad = True
            print(f"zip={zip_mode!r} {name}: from source {a!r} | precompiled {b!r}")
if bad:
    sys.exit(1)
print("ok")
