"""C31: compiling a (changed) template set into a zip archive that an earlier
ModuleLoader in the same process already imported from makes the new,
independent ModuleLoader / Environment render garbage: stale zipimport
directory data is used (SyntaxError / TemplateNotFound), while source loading
of the same set works.  The directory target (zip=None) is fine."""
import os
import sys
import tempfile

from jinja2 import DictLoader
from jinja2 import Environment
from jinja2 import ModuleLoader

SET_1 = {"a": "first version", "b": "b" * 40}
SET_2 = {"a": "second version, a good deal longer than the first {{ 1 + 1 }}", "c": "new one"}


def render(env, name):
    try:
        return env.get_template(name).render()
    except Exception as e:
        return f"raised {type(e).__name__}: {e}"


bad = False
for zip_mode in ("deflated", "stored", None):
    target = os.path.join(tempfile.mkdtemp(), "compiled")
    Environment(loader=DictLoader(SET_1)).compile_templates(target, zip=zip_mode)
    assert render(Environment(loader=ModuleLoader(target)), "a") == "first version"

    # the application is re-deployed: new set, same archive path, brand new objects
    src_env = Environment(loader=DictLoader(SET_2))
    src_env.compile_templates(target, zip=zip_mode)
    mod_env = Environment(loader=ModuleLoader(target))
    for name in SET_2:
        a, b = render(src_env, name), render(mod_env, name)
        if a != b:
            bad = True
            print(f"zip={zip_mode!r} {name!r}: from source {a!r} | precompiled {b[:90]!r}")

# Related, directory target: with byte-code writing enabled (the interpreter default) the first load leaves
# __pycache__/tmpl_<sha1>.pyc behind; a recompilation within the same second that yields a source of the same
# size is then shadowed by the stale .pyc.
CHILD = """
import os, sys, tempfile, time
from jinja2 import DictLoader, Environment, ModuleLoader
target = os.path.join(tempfile.mkdtemp(), "compiled")
while time.time() % 1 > 0.2:
    time.sleep(0.01)
Environment(loader=DictLoader({"a": "AAAA"})).compile_templates(target, zip=None)
Environment(loader=ModuleLoader(target)).get_template("a").render()
Environment(loader=DictLoader({"a": "BBBB"})).compile_templates(target, zip=None)
print(Environment(loader=ModuleLoader(target)).get_template("a").render())
"""
import subprocess

child_env = {k: v for k, v in os.environ.items() if k != "PYTHONDONTWRITEBYTECODE"}
child_env["PYTHONPATH"] = os.pathsep.join(p for p in sys.path if p)
got = subprocess.run(
    [sys.executable, "-c", CHILD], env=child_env, capture_output=True, text=True
).stdout.strip()
if got != "BBBB":
    bad = True
    print(f"zip=None, byte-code writing on, recompiled within one second: from source 'BBBB' | precompiled {got!r}")

if bad:
    sys.exit(1)
print("ok")
