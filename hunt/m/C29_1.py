"""C29: concurrent renders that call macros of an imported (cached) template
share ONE EvalContext; {% autoescape %} inside such a macro mutates it without
any isolation, so other threads see the wrong autoescape flag and, after the
threads are done, the flag can stay flipped for every later render."""
import sys
import threading

from jinja2 import DictLoader
from jinja2 import Environment

TEMPLATES = {
    "lib": (
        "{% macro a(v) %}{% autoescape true %}"
        "{% for i in range(50) %}{{ v }}{% endfor %}"
        "{% endautoescape %}{% endmacro %}"
        "{% macro b(v) %}{% for i in range(50) %}"
        "{% set y %}{{ v }}{% endset %}{{ [y, v]|join(',') }};"
        "{% endfor %}{% endmacro %}"
    ),
    "main": "{% import 'lib' as lib %}{{ lib.a('<') }}|{{ lib.b('<b>') }}",
}


def make_env():
    return Environment(loader=DictLoader(dict(TEMPLATES)))


# a single isolated render
isolated = make_env().get_template("main").render()

env = make_env()
tmpl = env.get_template("main")
old = sys.getswitchinterval()
sys.setswitchinterval(1e-6)
mismatches = []
errors = []


def work():
    for _ in range(150):
        try:
            out = tmpl.render()
        except Exception as e:  # EvalContext.revert() clears __dict__ in place
            errors.append(f"{type(e).__name__}: {e}")
            continue
        if out != isolated:
            mismatches.append(out)


threads = [threading.Thread(target=work) for _ in range(8)]
for th in threads:
    th.start()
for th in threads:
    th.join()
sys.setswitchinterval(old)

after = tmpl.render()  # sequential render after the threads are gone

ok = True
if mismatches:
    ok = False
    print(f"{len(mismatches)} of 1200 concurrent renders differ from the isolated render")
    print("  isolated tail :", isolated[-40:])
    print("  concurrent tail:", mismatches[0][-40:])
if errors:
    ok = False
    print(f"{len(errors)} concurrent renders raised, e.g. {errors[0]}")
if after != isolated:
    ok = False
    print("a later single-threaded render of the same template still differs:")
    print("  isolated tail:", isolated[-40:])
    print("  later tail   :", after[-40:])
if ok:
    print("ok: all renders equal the isolated render")
sys.exit(0 if ok else 1)
