"""C30: Template(source, extensions=[A, B]) puts the extensions into a
frozenset (environment.Template.__new__), so extensions of equal priority are
applied (preprocess / filter_stream / tag table) in hash order.  With string
import names the order, and with it the generated Python source, changes with
PYTHONHASHSEED."""
import hashlib
import os
import subprocess
import sys
import tempfile

EXT_MODULE = '''
from jinja2.ext import Extension

class First(Extension):          # both keep the default priority (100)
    def preprocess(self, source, name, filename=None):
        return source.replace("@@", "{{ first }}")

class Second(Extension):
    def preprocess(self, source, name, filename=None):
        return source.replace("@@", "{{ second }}")
'''

CHILD = '''
import sys
from jinja2 import Template
t = Template("x @@ y", extensions=["c30_exts.First", "c30_exts.Second"])
sys.stdout.write(t.environment.compile("x @@ y", name="t", raw=True))
'''

tmp = tempfile.mkdtemp()
with open(os.path.join(tmp, "c30_exts.py"), "w") as f:
    f.write(EXT_MODULE)

sources = {}
for seed in range(12):
    env = dict(os.environ)
    env["PYTHONHASHSEED"] = str(seed)
    env["PYTHONPATH"] = os.pathsep.join([tmp] + [p for p in sys.path if p])
    out = subprocess.run(
        [sys.executable, "-c", CHILD], env=env, capture_output=True, text=True, check=True
    ).stdout
    sources.setdefault(hashlib.sha1(out.encode()).hexdigest()[:10], []).append((seed, out))

if len(sources) > 1:
    print("generated source depends on PYTHONHASHSEED:")
    for digest, items in sources.items():
        line = [ln.strip() for ln in items[0][1].splitlines() if "resolve('" in ln]
        print(f"  seeds {[s for s, _ in items]} -> {digest}: {line}")
    sys.exit(1)
print("ok: identical source for all hash seeds")
