"""C29: rendering the same template twice in a row (one thread, no namespace,
no exported mutable value) gives two different outputs, because an
{% autoescape %} scope inside a macro of an imported (cached) template is left
without restoring the module's EvalContext when control leaves the scope by
{% continue %} / {% break %} or by an exception."""
import sys

from jinja2 import DictLoader
from jinja2 import Environment
from jinja2 import UndefinedError

ok = True

# --- variant 1: {% continue %} skips the revert ---------------------------
env = Environment(
    extensions=["jinja2.ext.loopcontrols"],
    loader=DictLoader(
        {
            "lib": (
                "{% macro show(v) %}{% set y %}{{ v }}{% endset %}{{ [y, v]|join(',') }}"
                "{% for i in [1] %}{% autoescape true %}{% continue %}{% endautoescape %}"
                "{% endfor %}{% endmacro %}"
            ),
            "main": "{% from 'lib' import show %}{{ show('<b>') }}",
        }
    ),
)
t = env.get_template("main")
outs = [t.render() for _ in range(3)]
if len(set(outs)) != 1:
    ok = False
    print("variant 1 (continue inside autoescape): successive renders of 'main' differ:", outs)

# --- variant 2: an exception skips the revert ------------------------------
TEMPLATES = {
    "lib": (
        "{% macro boom(x) %}{% autoescape true %}{{ x.nope.nope }}{% endautoescape %}{% endmacro %}"
        "{% macro show(v) %}{% set y %}{{ v }}{% endset %}{{ [y, v]|join(',') }}{% endmacro %}"
    ),
    "bad": "{% import 'lib' as lib %}{{ lib.boom(1) }}",
    "good": "{% import 'lib' as lib %}{{ lib.show('<b>') }}",
}
isolated = Environment(loader=DictLoader(dict(TEMPLATES))).get_template("good").render()
env = Environment(loader=DictLoader(dict(TEMPLATES)))
try:
    env.get_template("bad").render()
except UndefinedError:
    pass
after = env.get_template("good").render()
if after != isolated:
    ok = False
    print("variant 2 (failed render of another template first):")
    print("  'good' isolated            :", isolated)
    print("  'good' after 'bad' failed  :", after)

if ok:
    print("ok: renders are repeatable")
sys.exit(0 if ok else 1)
