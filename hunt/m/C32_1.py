"""C32: with the i18n extension, {{ _("...") }} looks the name 'gettext' up in
the render context at run time (ext._gettext_alias -> context.resolve), but
find_undeclared_variables reports nothing and 'gettext' is not an environment
global unless translations were installed on the environment."""
import sys

from jinja2 import Environment
from jinja2 import meta
from jinja2.runtime import Context

looked_up = []


class RecordingContext(Context):
    def resolve_or_missing(self, key):
        looked_up.append(key)
        return super().resolve_or_missing(key)


env = Environment(extensions=["jinja2.ext.i18n"])
env.context_class = RecordingContext
source = '{{ _("hello") }}'

reported = meta.find_undeclared_variables(env.parse(source))
out = env.from_string(source).render(gettext=lambda s: s.upper())  # per-request translations

missing = sorted(
    name for name in set(looked_up) if name not in reported and name not in env.globals
)
print("rendered:", out)
print("find_undeclared_variables:", sorted(reported))
print("names resolved from the context at run time:", sorted(set(looked_up)))
if missing:
    print("looked up at run time but neither reported nor an environment global:", missing)
    sys.exit(1)
print("ok")
