"""C31: FileSystemLoader (default followlinks=False) loads templates that live
under a symlinked sub-directory, but does not list them, so compile_templates
never precompiles them: the set renders from source and fails precompiled."""
import os
import sys
import tempfile

from jinja2 import Environment
from jinja2 import FileSystemLoader
from jinja2 import ModuleLoader

root = tempfile.mkdtemp()
src_dir = os.path.join(root, "templates")
shared = os.path.join(root, "shared")
os.makedirs(src_dir)
os.makedirs(shared)
with open(os.path.join(shared, "footer.html"), "w") as f:
    f.write("FOOTER")
os.symlink(shared, os.path.join(src_dir, "common"))  # templates/common -> ../shared
with open(os.path.join(src_dir, "page.html"), "w") as f:
    f.write('page {% include "common/footer.html" %}')

src_env = Environment(loader=FileSystemLoader(src_dir))
expected = src_env.get_template("page.html").render()

bad = False
for zip_mode in ("deflated", "stored", None):
    target = os.path.join(root, f"compiled_{zip_mode}")
    src_env.compile_templates(target, zip=zip_mode, ignore_errors=False)
    try:
        got = Environment(loader=ModuleLoader(target)).get_template("page.html").render()
    except Exception as e:
        got = f"raised {type(e).__name__}: {e}"
    if got != expected:
        bad = True
        print(f"zip={zip_mode!r}: from source {expected!r} | precompiled {got!r}")
if bad:
    print("list_templates():", src_env.list_templates())
    sys.exit(1)
print("ok")
