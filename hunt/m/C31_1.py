"""C31: a template set that renders fine from source (FileSystemLoader) fails
when precompiled, because FileSystemLoader normalises template names
("./x", "/x", "a//x") while ModuleLoader looks up sha1(name) of the name
exactly as written in {% include %} / {% extends %} / {% import %}."""
import os
import sys
import tempfile

from jinja2 import Environment
from jinja2 import FileSystemLoader
from jinja2 import ModuleLoader

root = tempfile.mkdtemp()
src_dir = os.path.join(root, "templates")
os.makedirs(os.path.join(src_dir, "partials"))
files = {
    "base.html": "[{% block body %}{% endblock %}]",
    "page.html": (
        '{% extends "/base.html" %}'
        '{% import "partials//macros.html" as m %}'
        '{% block body %}{% include "./partials/item.html" %}{{ m.hi() }}{% endblock %}'
    ),
    "partials/item.html": "item",
    "partials/macros.html": "{% macro hi() %}hi{% endmacro %}",
}
for name, source in files.items():
    with open(os.path.join(src_dir, name), "w") as f:
        f.write(source)

src_env = Environment(loader=FileSystemLoader(src_dir))
expected = src_env.get_template("page.html").render()

bad = False
for zip_mode in ("deflated", "stored", None):
    target = os.path.join(root, f"compiled_{zip_mode}")
    src_env.compile_templates(target, zip=zip_mode, ignore_errors=False)
    mod_env = Environment(loader=ModuleLoader(target))
    try:
        got = mod_env.get_template("page.html").render()
    except Exception as e:
        got = f"raised {type(e).__name__}: {e}"
    if got != expected:
        bad = True
        print(f"zip={zip_mode!r}: from source {expected!r}, precompiled {got!r}")

if bad:
    sys.exit(1)
print("ok: precompiled == source:", expected)
