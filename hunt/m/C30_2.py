"""C30: the constant folder still writes process-dependent text (object
addresses) into the generated source when an un-representable compile-time
value is turned into a str by a *nested* fold (|string, ~, |format, |join,
|pprint, |e, |trim, |center, |urlencode, |xmlattr ...) before it reaches the
output statement."""
import hashlib
import os
import subprocess
import sys

TEMPLATES = [
    "{{ [1, 2]|batch(1)|string }}",
    "{{ ''.join ~ 'x' }}",
    "{{ '%s'|format([1]|unique) }}",
    "{% set v = [[1]|batch(1)]|join %}{{ v }}",
    "{{ {'a': ''.join}|pprint }}",
]

CHILD = (
    "import sys, json\n"
    "from jinja2 import Environment\n"
    "env = Environment()\n"
    "print(json.dumps([env.compile(s, name='t', raw=True) for s in json.loads(sys.argv[1])]))\n"
)

import json

runs = []
for seed in (0, 1, 2, 3):
    env = dict(os.environ)
    env["PYTHONHASHSEED"] = str(seed)
    env["PYTHONPATH"] = os.pathsep.join(p for p in sys.path if p)
    out = subprocess.run(
        [sys.executable, "-c", CHILD, json.dumps(TEMPLATES)],
        env=env, capture_output=True, text=True, check=True,
    ).stdout
    runs.append(json.loads(out))

bad = False
for i, tmpl in enumerate(TEMPLATES):
    variants = {r[i] for r in runs}
    if len(variants) > 1:
        bad = True
        lines = sorted(
            {ln.strip() for v in variants for ln in v.splitlines() if " at 0x" in ln}
        )
        print(f"{tmpl!r}: {len(variants)} different sources in 4 processes, e.g.")
        for ln in lines[:2]:
            print("     ", ln[:110])
if bad:
    sys.exit(1)
print("ok: identical source in all processes")
