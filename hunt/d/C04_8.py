"""C04: super() into a required block that IS overridden raises
'Required block not found' instead of rendering the next less-derived
definition."""
import sys
from jinja2 import Environment, DictLoader

bad = 0
for use_async in (False, True):
    for name, tpls, top, expected in [
        ("root required, child overrides and calls super()",
         {"a": "A[{% block b required %} {% endblock %}]",
          "c": "{% extends 'a' %}{% block b %}X{{ super() }}Y{% endblock %}"},
         "c", "A[X Y]"),
        ("required re-declared in the middle, grandchild calls super() / super.super()",
         {"r": "R[{% block b %}root{% endblock %}]",
          "m": "{% extends 'r' %}{% block b required %}{% endblock %}",
          "c": "{% extends 'm' %}{% block b %}X{{ super() }}|{{ super.super() }}Y{% endblock %}"},
         "c", "R[X|rootY]"),
    ]:
        env = Environment(loader=DictLoader(tpls), enable_async=use_async)
        try:
            got = env.get_template(top).render()
        except Exception as e:  # noqa: BLE001
            got = f"{type(e).__name__}: {e}"
        ok = got == expected
        print(f"async={use_async} {name}: got {got!r}, expected {expected!r} -> {'ok' if ok else 'VIOLATION'}")
        bad += not ok
sys.exit(1 if bad else 0)
