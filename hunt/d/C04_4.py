"""C04: a {% filter %} block outside any block in a child template emits the filter's result."""
import asyncio
import sys
from jinja2 import DictLoader, Environment

T = {
    "base": "A[{% block b %}Ab{% endblock %}]",
    "known": "{% extends 'base' %}{% filter default('LEAK', true) %}text{% endfilter %}",
    "known2": "{% extends 'base' %}{% filter center(5)|replace(' ', '*') %}text{% endfilter %}",
    "dynamic": "{% if p %}{% extends p %}{% endif %}{% filter default('LEAK', true) %}text{% endfilter %}",
}
bad = 0
for is_async in (False, True):
    env = Environment(loader=DictLoader(T), enable_async=is_async)
    for name in ("known", "known2", "dynamic"):
        t = env.get_template(name)
        out = asyncio.run(t.render_async(p="base")) if is_async else t.render(p="base")
        ok = out == "A[Ab]"
        bad += not ok
        print(f"{'ok  ' if ok else 'FAIL'} async={is_async} {name}: {out!r} (expected 'A[Ab]')")
sys.exit(1 if bad else 0)
