"""C04: when the same template occurs twice in an extends chain, super() never advances
(Context.super locates the current block with list.index) -> infinite recursion."""
import sys
from jinja2 import DictLoader, Environment

# 'page' extends itself exactly once: the first pass sets n and extends, the second pass is the root.
T = {
    "page": "{% if n is not defined %}{% set n = 1 %}{% extends 'page' %}{% endif %}"
    "R[{% block b %}<{% if super %}{{ super() }}{% endif %}>{% endblock %}]"
}
env = Environment(loader=DictLoader(T))
sys.setrecursionlimit(400)
want = "R[<<>>]"  # chain page -> page: most-derived b calls super() -> root's b, which has no super
try:
    out = env.get_template("page").render()
except RecursionError as e:
    print(f"FAIL: RecursionError ({e}); expected {want!r}")
    sys.exit(1)
print(("ok   " if out == want else "FAIL ") + repr(out))
sys.exit(0 if out == want else 1)
