"""C05: inside a for loop, an include (or import with context) does not get the loop's own `loop`
variable unless the loop body happens to mention `loop`; in a nested loop it gets the OUTER loop's."""
import asyncio
import sys
from jinja2 import DictLoader, Environment

T = {
    "inc": "{{ loop.index if loop is defined else '?' }}",
    "lib": "{% macro m() %}{{ loop.index if loop is defined else '?' }}{% endmacro %}",
    # inner loop body does not mention `loop`; the outer one does
    "nested": "{% for i in 'ab' %}{{ loop.index }}:{% for j in 'xyz' %}{% include 'inc' %}{% endfor %};{% endfor %}",
    "nested_imp": "{% for i in 'ab' %}{{ loop.index }}:{% for j in 'xyz' %}"
    "{% from 'lib' import m with context %}{{ m() }}{% endfor %};{% endfor %}",
    "single": "{% for j in 'xyz' %}{% include 'inc' %}{% endfor %}",
    # control: mentioning loop in the body makes it visible
    "control": "{% for j in 'xyz' %}{% if loop.first %}{% endif %}{% include 'inc' %}{% endfor %}",
}
WANT = {"nested": "1:123;2:123;", "nested_imp": "1:123;2:123;", "single": "123", "control": "123"}
bad = 0
for is_async in (False, True):
    env = Environment(loader=DictLoader(T), enable_async=is_async)
    for name, want in WANT.items():
        t = env.get_template(name)
        out = asyncio.run(t.render_async()) if is_async else t.render()
        ok = out == want
        bad += not ok
        print(f"{'ok  ' if ok else 'FAIL'} async={is_async} {name}: {out!r} (expected {want!r})")
sys.exit(1 if bad else 0)
