"""C04: an {% include %} outside any block in a child template IS rendered
(content outside blocks in child templates must not be rendered)."""
import asyncio
import sys
from jinja2 import DictLoader, Environment

T = {
    "base": "A[{% block b %}Ab{% endblock %}]",
    "x": "LEAK",
    "known": "{% extends 'base' %}{% include 'x' %}{% block b %}M{% endblock %}",
    "known_nc": "{% extends 'base' %}{% include 'x' without context %}{% block b %}M{% endblock %}",
    "dynamic": "{% if p %}{% extends p %}{% endif %}{% include 'x' %}{% block b %}M{% endblock %}",
}
bad = 0
for is_async in (False, True):
    env = Environment(loader=DictLoader(T), enable_async=is_async)
    for name in ("known", "known_nc", "dynamic"):
        t = env.get_template(name)
        out = asyncio.run(t.render_async(p="base")) if is_async else t.render(p="base")
        ok = out == "A[M]"
        bad += not ok
        print(f"{'ok  ' if ok else 'FAIL'} async={is_async} {name}: {out!r} (expected 'A[M]')")
sys.exit(1 if bad else 0)
