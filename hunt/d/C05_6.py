"""C05: {% include X without context %} does not render X with the globals
visible - it replays the text of X's cached default module, rendered once
(possibly long ago, possibly for an import) and never again."""
import sys
from jinja2 import Environment, DictLoader

bad = 0
for use_async in (False, True):
    calls = [0]

    def counter():
        calls[0] += 1
        return calls[0]

    env = Environment(
        loader=DictLoader({
            "noctx": "{% include 'inc' without context %}",
            "twice": "{% include 'inc' without context %}{% include 'inc' without context %}",
            "inc": "[{{ g }}]",
            "cnt2": "{% include 'cnt' without context %}{% include 'cnt' without context %}",
            "cnt": "<{{ counter() }}>",
        }),
        enable_async=use_async,
    )
    env.globals["counter"] = counter
    env.globals["g"] = "old"
    first = env.get_template("noctx").render()
    env.globals["g"] = "new"                       # the global that is visible now
    second = env.get_template("noctx").render()
    direct = env.get_template("inc").render()      # the target itself sees the new global
    print(f"async={use_async} first render {first!r}; after env.globals['g'] = 'new': include without context "
          f"{second!r}, target rendered directly {direct!r}")
    if second != "[new]":
        print("  VIOLATION: the include shows a value that is not the value of the global")
        bad += 1
    # within ONE render: the target is not rendered for the second include
    got = env.get_template("cnt2").render()
    print(f"async={use_async} two includes without context of '<{{{{ counter() }}}}>': {got!r} (with context: '<n><n+1>')")
    if got != "<1><2>":
        print("  VIOLATION: the second include did not render the target, it repeated the first text")
        bad += 1
sys.exit(1 if bad else 0)
