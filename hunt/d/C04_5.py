"""C04: a block nested in {% for %} / {% with %} at the top level of a child template is rendered in place."""
import asyncio
import sys
from jinja2 import DictLoader, Environment

T = {
    "base": "A[{% block b %}Ab{% endblock %}]",
    "for": "{% extends 'base' %}{% for i in [1, 2] %}{% block b %}M{% endblock %}{% endfor %}",
    "with": "{% extends 'base' %}{% with v = 1 %}{% block b %}M{% endblock %}{% endwith %}",
    "dynamic": "{% if p %}{% extends p %}{% endif %}{% for i in [1, 2] %}{% block b %}M{% endblock %}{% endfor %}",
}
bad = 0
for is_async in (False, True):
    env = Environment(loader=DictLoader(T), enable_async=is_async)
    for name in ("for", "with", "dynamic"):
        t = env.get_template(name)
        out = asyncio.run(t.render_async(p="base")) if is_async else t.render(p="base")
        ok = out == "A[M]"
        bad += not ok
        print(f"{'ok  ' if ok else 'FAIL'} async={is_async} {name}: {out!r} (expected 'A[M]')")
sys.exit(1 if bad else 0)
