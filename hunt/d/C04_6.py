"""C04: two blocks whose names differ only by Unicode compatibility normalisation (NFKC) share one
generated Python function, so one block renders the other's definition."""
import asyncio
import sys
from jinja2 import DictLoader, Environment, TemplateSyntaxError

LIG = "ﬁ"  # LATIN SMALL LIGATURE FI, a valid Jinja/Python identifier, NFKC -> "fi"
T = {
    "base": "{% block " + LIG + " %}LIG{% endblock %}|{% block fi %}PLAIN{% endblock %}",
    "child": "{% extends 'base' %}{% block fi %}X{% endblock %}",
    "child2": "{% extends 'base' %}{% block " + LIG + " %}Y({{ super() }}){% endblock %}",
}
bad = 0
for is_async in (False, True):
    env = Environment(loader=DictLoader(T), enable_async=is_async)
    for name, want in (("base", "LIG|PLAIN"), ("child", "LIG|X"), ("child2", "Y(LIG)|PLAIN")):
        t = env.get_template(name)
        try:
            out = asyncio.run(t.render_async()) if is_async else t.render()
        except TemplateSyntaxError as e:
            # rejecting the colliding names at compile time is an acceptable repair
            print(f"ok   async={is_async} {name}: rejected: {e}")
            continue
        ok = out == want
        bad += not ok
        print(f"{'ok  ' if ok else 'FAIL'} async={is_async} {name}: {out!r} (expected {want!r})")
sys.exit(1 if bad else 0)
