"""C05: an include WITH context inside a macro does not see the macro's
special local variables varargs / kwargs / caller (they are only created
when the macro body itself mentions them); the call even fails."""
import sys
from jinja2 import Environment, DictLoader

cases = [
    # name, main, inc, expected
    ("varargs", "{% macro m() %}{% include 'inc' %}{% endmacro %}{{ m(1, 2) }}", "[{{ varargs|join(',') }}]", "[1,2]"),
    ("kwargs", "{% macro m() %}{% include 'inc' %}{% endmacro %}{{ m(a=1) }}", "[{{ kwargs['a'] }}]", "[1]"),
    ("caller", "{% macro m() %}{% include 'inc' %}{% endmacro %}{% call m() %}C{% endcall %}", "[{{ caller() }}]", "[C]"),
    ("import with context", "{% macro m() %}{% import 'inc' as i with context %}{{ i.v }}{% endmacro %}{{ m(1, 2) }}",
     "{% set v = varargs|join(',') %}", "1,2"),
]
bad = 0
for use_async in (False, True):
    for name, main, inc, expected in cases:
        # control: the same macro body with the included text written in place
        env = Environment(loader=DictLoader({"main": main, "inc": inc}), enable_async=use_async)
        try:
            got = env.get_template("main").render()
        except Exception as e:  # noqa: BLE001
            got = f"{type(e).__name__}: {e}"
        ok = got == expected
        print(f"async={use_async} {name}: got {got!r}, expected {expected!r} -> {'ok' if ok else 'VIOLATION'}")
        bad += not ok
sys.exit(1 if bad else 0)
