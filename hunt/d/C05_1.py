"""C05: an import WITHOUT context sees a render-time variable when that variable has the same
name as one of the importing template's template-level globals."""
import asyncio
import sys
from jinja2 import DictLoader, Environment

T = {
    "lib": "{% macro m() %}[{{ foo }}]{% endmacro %}{% set top = foo %}",
    "main": "{% import 'lib' as l %}{{ l.m() }}{{ l.top }}",
    "main_from": "{% from 'lib' import m, top %}{{ m() }}{{ top }}",
}
bad = 0
for is_async in (False, True):
    for name in ("main", "main_from"):
        env = Environment(loader=DictLoader(T), enable_async=is_async)
        t = env.get_template(name, globals={"foo": "GLOBAL"})

        def render(**ctx):
            return asyncio.run(t.render_async(**ctx)) if is_async else t.render(**ctx)

        base = render()  # the template global is visible to the import: documented (issue 688)
        out = render(foo="CONTEXT-VAR")  # a context variable must not be visible to the import
        ok = base == out == "[GLOBAL]GLOBAL"
        bad += not ok
        print(f"{'ok  ' if ok else 'FAIL'} async={is_async} {name}: render() -> {base!r}; "
              f"render(foo='CONTEXT-VAR') -> {out!r} (expected '[GLOBAL]GLOBAL' both times)")
sys.exit(1 if bad else 0)
