"""C05: the same import statement sees the importing template's globals in a normal block but not in a
scoped block (Context.derived drops globals_keys)."""
import asyncio
import sys
from jinja2 import DictLoader, Environment

T = {
    "lib": "{% macro m() %}[{{ foo }}]{% endmacro %}",
    "main": "{% block plain %}{% import 'lib' as l %}{{ l.m() }}{% endblock %}"
    "{% for i in [1] %}{% block sc scoped %}{% import 'lib' as l %}{{ l.m() }}{% endblock %}{% endfor %}",
}
bad = 0
for is_async in (False, True):
    env = Environment(loader=DictLoader(T), enable_async=is_async)
    t = env.get_template("main", globals={"foo": "G"})
    out = asyncio.run(t.render_async()) if is_async else t.render()
    ok = out == "[G][G]"
    bad += not ok
    print(f"{'ok  ' if ok else 'FAIL'} async={is_async}: {out!r} (expected '[G][G]')")
sys.exit(1 if bad else 0)
