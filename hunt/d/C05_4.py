"""C05: from-import of two names that differ only by NFKC normalisation binds both to one Python local."""
import asyncio
import sys
from jinja2 import DictLoader, Environment, TemplateSyntaxError

LIG = "ﬁ"  # U+FB01, NFKC -> "fi"
T = {
    "lib": "{% set " + LIG + " = 'LIG' %}{% set zz = 0 %}{% set fi = 'PLAIN' %}",
    "main": "{% from 'lib' import " + LIG + ", fi %}{{ " + LIG + " }}|{{ fi }}",
    "alias": "{% from 'lib' import zz as " + LIG + ", fi %}{{ " + LIG + " }}|{{ fi }}",
}
bad = 0
for is_async in (False, True):
    env = Environment(loader=DictLoader(T), enable_async=is_async)
    lib = env.get_template("lib")
    mod = asyncio.run(lib.make_module_async()) if is_async else lib.module
    print("module exports:", {k: v for k, v in vars(mod).items() if k in (LIG, "fi", "zz")})
    for name, want in (("main", "LIG|PLAIN"), ("alias", "0|PLAIN")):
        try:
            t = env.get_template(name)
            out = asyncio.run(t.render_async()) if is_async else t.render()
        except TemplateSyntaxError as e:
            print(f"ok   async={is_async} {name}: rejected: {e}")
            continue
        ok = out == want
        bad += not ok
        print(f"{'ok  ' if ok else 'FAIL'} async={is_async} {name}: {out!r} (expected {want!r})")
sys.exit(1 if bad else 0)
