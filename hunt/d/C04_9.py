"""C04: content of a child template that stands BEFORE its {% extends %} tag
is outside every block, yet it is rendered in front of the parent's layout."""
import sys
from jinja2 import Environment, DictLoader

A = "A[{% block b %}b{% endblock %}]"
cases = [
    ("text before extends", "PRE{% extends 'a' %}POST{% block b %}X{% endblock %}"),
    ("expression before extends", "{{ 1 + 1 }}{% extends 'a' %}{% block b %}X{% endblock %}"),
    ("loop before extends", "{% for i in [1, 2] %}{{ i }}{% endfor %}{% extends 'a' %}{% block b %}X{% endblock %}"),
    ("newline after a leading set", "{% set title = 't' %}\n{% extends 'a' %}{% block b %}X{% endblock %}"),
]
bad = 0
for use_async in (False, True):
    for name, child in cases:
        env = Environment(loader=DictLoader({"a": A, "c": child}), enable_async=use_async)
        got = env.get_template("c").render()
        ok = got == "A[X]"
        print(f"async={use_async} {name}: got {got!r}, expected 'A[X]' -> {'ok' if ok else 'VIOLATION'}")
        bad += not ok
sys.exit(1 if bad else 0)
