"""C04: a required block declared in a non-root template and not overridden by any
descendant renders as empty instead of failing with TemplateRuntimeError."""
import sys
from jinja2 import DictLoader, Environment, TemplateRuntimeError

bad = []


def check(label, templates, name):
    env = Environment(loader=DictLoader(templates))
    try:
        out = env.get_template(name).render()
    except TemplateRuntimeError as e:
        print(f"ok   {label}: TemplateRuntimeError: {e}")
        return
    print(f"FAIL {label}: rendered {out!r}, expected TemplateRuntimeError (required block not overridden)")
    bad.append(label)


ROOT = "A[{% block b %}Ab{% endblock %}]"
# 1. the most-derived template itself declares the required block
check("required in most-derived", {"a": ROOT, "main": "{% extends 'a' %}{% block b required %}{% endblock %}"}, "main")
# 2. a middle template declares it, the descendant does not override it
check(
    "required in middle template",
    {"a": ROOT, "mid": "{% extends 'a' %}{% block b required %}{% endblock %}", "main": "{% extends 'mid' %}"},
    "main",
)
# 3. root requires it, the middle template only re-declares it as required
check(
    "required re-declared",
    {
        "a": "A[{% block b required %}{% endblock %}]",
        "mid": "{% extends 'a' %}{% block b required %}{% endblock %}",
        "main": "{% extends 'mid' %}",
    },
    "main",
)
# control: required in the root, nobody overrides -> raises (this works)
check("control: required in root", {"a": "A[{% block b required %}{% endblock %}]", "main": "{% extends 'a' %}"}, "main")

sys.exit(1 if bad else 0)
