"""C09 (minor): printing the loop object of a loop over a sized list gives different text in
sync and async mode: '<LoopContext 1/2>' vs '<AsyncLoopContext 1/2>'.  No custom data, no
addresses involved; the output is deterministic in both modes.  Exits 1 on disagreement."""
import sys
from jinja2 import Environment

bad = 0
for src in (
    "{% for x in [1, 2] %}{{ loop }}{% endfor %}",
    "{% for x in [1, 2] %}{{ loop|string|length }}{% endfor %}",
    "{% for x in [1, 2] %}{{ '%s'|format(loop) }}{% endfor %}",
):
    s = Environment().from_string(src).render()
    a = Environment(enable_async=True).from_string(src).render()
    if s != a:
        bad += 1
        print(f"{src}\n    sync : {s!r}\n    async: {a!r}")
sys.exit(1 if bad else 0)
