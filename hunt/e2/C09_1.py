"""C09: a recursive loop over a SIZED iterable (a plain list) renders {{ loop|length }}
(and len(loop), and the length shown by {{ loop }}) in sync mode but raises TypeError in
async mode - only at the top level of the recursion; the nested levels work in both modes.
Exits 1 when sync and async mode disagree."""
import sys
from jinja2 import Environment
from jinja2.sandbox import SandboxedEnvironment
from jinja2.nativetypes import NativeEnvironment

TEMPLATES = [
    # top level of a recursive loop over a list
    "{% for x in [1, 2, 3] recursive %}{{ loop|length }}{% endfor %}",
    # the same data, nested level vs top level
    "{% for x in [[1, 2]] recursive %}{% if x is iterable %}{{ loop(x) }}{% endif %}{{ loop|length }};{% endfor %}",
    # the length part of the loop's repr
    "{% for x in [1, 2, 3] recursive %}{{ (loop|string).split('/')[1] }}{% endfor %}",
]

def outcome(cls, is_async, src):
    try:
        return ("ok", str(cls(enable_async=is_async).from_string(src).render()))
    except Exception as e:
        return ("error", type(e).__name__)

bad = 0
for cls in (Environment, SandboxedEnvironment, NativeEnvironment):
    for src in TEMPLATES:
        s, a = outcome(cls, False, src), outcome(cls, True, src)
        if s != a:
            bad += 1
            print(f"{cls.__name__}: {src}\n    sync : {s}\n    async: {a}")

# control: the non-recursive loop over the same list agrees (repaired earlier)
src = "{% for x in [1, 2, 3] %}{{ loop|length }}{% endfor %}"
assert outcome(Environment, False, src) == outcome(Environment, True, src) == ("ok", "333")

if bad:
    print(f"{bad} sync/async disagreements")
    sys.exit(1)
print("sync and async agree")
