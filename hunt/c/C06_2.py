"""C06: the keyword ``self`` can never be bound by a macro: neither to a
parameter called ``self`` nor to ``kwargs`` (template call, call-block
``caller(...)`` and Python call through the template module alike)."""
import sys
from jinja2 import Environment

env = Environment()

def render(src, **ctx):
    try:
        return env.from_string(src).render(**ctx)
    except Exception as e:  # noqa
        return f"EXC {type(e).__name__}: {e}"

def py(src, *a, **kw):
    try:
        return str(env.from_string(src).module.m(*a, **kw))
    except Exception as e:  # noqa
        return f"EXC {type(e).__name__}: {e}"

M1 = "{% macro m(self='d') %}[{{ self }}]{% endmacro %}"
M2 = "{% macro m() %}[{{ kwargs|dictsort }}]{% endmacro %}"
checks = [
    ("positional (control)", render(M1 + "{{ m(1) }}"), "[1]"),
    ("keyword -> parameter, template", render(M1 + "{{ m(self=1) }}"), "[1]"),
    ("keyword -> parameter, python", py(M1, self=1), "[1]"),
    ("keyword -> kwargs, template", render(M2 + "{{ m(self=1) }}"), "[[('self', 1)]]"),
    ("keyword -> kwargs, python", py(M2, self=1), "[[('self', 1)]]"),
    ("call block parameter", render("{% macro m() %}{{ caller(self=1) }}{% endmacro %}{% call(self) m() %}<{{ self }}>{% endcall %}"), "<1>"),
]
bad = 0
for what, got, want in checks:
    print(f"{what:35s} got {got!r:75s} expected {want!r}")
    bad += got != want
print("violations:", bad)
sys.exit(1 if bad else 0)
