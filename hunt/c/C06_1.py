"""C06: keyword arguments named ``_loop_vars`` / ``_block_vars`` are silently
thrown away when a macro is called from a template; the same call from Python
through the template module binds them."""
import sys
from jinja2 import Environment
from jinja2.sandbox import SandboxedEnvironment

bad = 0
for env in (Environment(), SandboxedEnvironment()):
    def from_template(macro_src, call_src):
        try:
            return env.from_string(macro_src + "{{ " + call_src + " }}").render()
        except Exception as e:  # noqa
            return f"EXC {type(e).__name__}: {e}"

    def from_python(macro_src, **kw):
        try:
            return str(env.from_string(macro_src).module.m(**kw))
        except Exception as e:  # noqa
            return f"EXC {type(e).__name__}: {e}"

    checks = [
        # named parameter
        ("{% macro m(_loop_vars='default') %}[{{ _loop_vars }}]{% endmacro %}", "m(_loop_vars=5)", {"_loop_vars": 5}, "[5]"),
        ("{% macro m(a, _block_vars=0) %}[{{ a }}{{ _block_vars }}]{% endmacro %}", "m(1, _block_vars=5)", {"a": 1, "_block_vars": 5}, "[15]"),
        # kwargs catch-all
        ("{% macro m() %}[{{ kwargs|dictsort }}]{% endmacro %}", "m(_loop_vars=5, z=1)", {"_loop_vars": 5, "z": 1}, "[[('_loop_vars', 5), ('z', 1)]]"),
        # macro that takes no keywords at all: must be a TypeError
        ("{% macro m() %}ok{% endmacro %}", "m(_block_vars=5)", {"_block_vars": 5}, "EXC TypeError: macro 'm' takes no keyword argument '_block_vars'"),
    ]
    for macro_src, call_src, kw, want in checks:
        t, p = from_template(macro_src, call_src), from_python(macro_src, **kw)
        flag = "" if (t == want and p == want) else "   <-- VIOLATION"
        print(type(env).__name__, macro_src, call_src)
        print("    template:", t, "| python:", p, "| expected:", want, flag)
        bad += bool(flag)
print("violations:", bad)
sys.exit(1 if bad else 0)
