"""C03: an assignment made inside the body of a filter block / filtered set
block leaks into the arguments of the filter in the opening tag (they are
evaluated after the body, in the body's scope)."""
import sys
from jinja2 import Environment

env = Environment()

def render(src, **ctx):
    try:
        return env.from_string(src).render(**ctx)
    except Exception as e:  # noqa
        return f"EXC {type(e).__name__}: {e}"

cases = [
    ("{% filter replace('a', x) %}{% set x = 'b' %}aaa{% endfilter %}|{{ x }}", {"x": "c"}, "ccc|c"),
    ("{% set x = 'c' %}{% filter replace('a', x) %}{% set x = 'b' %}aaa{% endfilter %}|{{ x }}", {}, "ccc|c"),
    ("{% set y | replace('a', x) %}{% set x = 'b' %}aaa{% endset %}{{ y }}|{{ x }}", {"x": "c"}, "ccc|c"),
    # compare: all other statements evaluate the expressions of their opening tag in the enclosing scope
    ("{% macro m(v) %}{{ caller() }}{{ v }}{% endmacro %}{% call m(x) %}{% set x = 'b' %}aaa{% endcall %}", {"x": "c"}, "aaac"),
]
bad = 0
for src, data, want in cases:
    got = render(src, **data)
    print(src, data, "->", repr(got), "expected", repr(want))
    bad += got != want
print("violations:", bad)
sys.exit(1 if bad else 0)
