"""C03: distinct Jinja identifiers whose NFKC normal forms coincide alias each
other, because names are compiled to Python identifiers ``l_<n>_<name>`` and
Python compares identifiers in NFKC form."""
import sys
from jinja2 import Environment

env = Environment()

def render(src, **ctx):
    try:
        return env.from_string(src).render(**ctx)
    except Exception as e:  # noqa
        return f"EXC {type(e).__name__}: {e}"

A, B = "ﬁ", "fi"          # LATIN SMALL LIGATURE FI  vs  "fi"
assert A != B and A.isidentifier() and B.isidentifier()

cases = [
    # template, data, expected
    ("{% set " + A + " = 1 %}{% set " + B + " = 2 %}{{ " + A + " }}|{{ " + B + " }}", {}, "1|2"),
    ("{% set " + B + " = 2 %}{{ " + A + " }}|{{ " + B + " }}", {A: 9}, "9|2"),
    ("{% with " + A + " = 1, " + B + " = 2 %}{{ " + A + " }}{% endwith %}", {}, "1"),
    # MICRO SIGN (U+00B5) vs GREEK SMALL LETTER MU (U+03BC)
    ("{% set µ = 'micro' %}{% set μ = 'mu' %}{{ µ }}", {}, "micro"),
    # FULLWIDTH 'l' + "oop" overwrites the special loop variable of the for loop
    ("{% for x in [1,2] %}{% set ｌoop = 9 %}{{ loop.index }}{% endfor %}", {}, "12"),
]
bad = 0
for src, data, want in cases:
    got = render(src, **data)
    print(ascii(src), ascii(data), "->", ascii(got), "expected", ascii(want))
    if got != want:
        bad += 1
print("violations:", bad)
sys.exit(1 if bad else 0)
