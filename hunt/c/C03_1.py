"""C03: a nested scope that binds the name ``loop`` (macro parameter, call-block
parameter, with-target) makes the *enclosing* for-loop lose its special ``loop``
variable, although the binding is local to the nested scope."""
import sys
from jinja2 import Environment

env = Environment()

def render(src, **ctx):
    try:
        return env.from_string(src).render(**ctx)
    except Exception as e:  # noqa
        return f"EXC {type(e).__name__}: {e}"

cases = [
    # (template, same template with the nested binding renamed loop -> q)
    ("{% for x in [1,2] %}{% macro m(loop) %}{{ loop }}{% endmacro %}[{{ loop.index }}]{% endfor %}",
     "{% for x in [1,2] %}{% macro m(q) %}{{ q }}{% endmacro %}[{{ loop.index }}]{% endfor %}"),
    ("{% for x in [1,2] %}{% with loop = 5 %}{{ loop }}{% endwith %}[{{ loop.index }}]{% endfor %}",
     "{% for x in [1,2] %}{% with q = 5 %}{{ q }}{% endwith %}[{{ loop.index }}]{% endfor %}"),
    ("{% macro m() %}{{ caller(7) }}{% endmacro %}"
     "{% for x in [1,2] %}{% call(loop) m() %}{{ loop }}{% endcall %}[{{ loop.index }}]{% endfor %}",
     "{% macro m() %}{{ caller(7) }}{% endmacro %}"
     "{% for x in [1,2] %}{% call(q) m() %}{{ q }}{% endcall %}[{{ loop.index }}]{% endfor %}"),
]
bad = 0
for src, renamed in cases:
    got, want = render(src), render(renamed)
    print("template :", src)
    print("  got    :", got)
    print("  renamed:", want)
    if got != want:
        bad += 1
print("violations:", bad)
sys.exit(1 if bad else 0)
