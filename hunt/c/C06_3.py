"""C06: a keyword argument whose name is not in NFKC normal form (e.g. the
MICRO SIGN ``µ`` U+00B5, the ligature ``ﬁ``, fullwidth letters) does not fill
the macro parameter of the same name when the call is made from a template:
the generated Python call normalises the keyword, the macro's parameter table
keeps the raw spelling."""
import sys
from jinja2 import Environment

env = Environment()

def render(src, **ctx):
    try:
        return env.from_string(src).render(**ctx)
    except Exception as e:  # noqa
        return f"EXC {type(e).__name__}: {e}"

def py(src, **kw):
    try:
        return str(env.from_string(src).module.m(**kw))
    except Exception as e:  # noqa
        return f"EXC {type(e).__name__}: {e}"

bad = 0
for name in ["µ", "ﬁ", "ａ", "ǆ"]:
    M = "{% macro m(" + name + "='default') %}[{{ " + name + " }}]{% endmacro %}"
    K = "{% macro m() %}[{{ kwargs|list == [NAME] }}]{% endmacro %}"
    rows = [
        ("parameter, template", render(M + "{{ m(" + name + "=1) }}"), "[1]"),
        ("parameter, python", py(M, **{name: 1}), "[1]"),
        ("parameter, template via **", render(M + "{{ m(**{'" + name + "': 1}) }}"), "[1]"),
        ("kwargs key, template", render(K + "{{ m(" + name + "=1) }}", NAME=name), "[True]"),
        ("kwargs key, python", py(K.replace("NAME", repr(name)), **{name: 1}), "[True]"),
    ]
    for what, got, want in rows:
        flag = "" if got == want else "  <-- VIOLATION"
        print(ascii(name), f"{what:28s}", ascii(got), "expected", want, flag)
        bad += bool(flag)
print("violations:", bad)
sys.exit(1 if bad else 0)
