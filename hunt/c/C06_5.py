"""C06: whether a macro "uses" varargs / kwargs / caller is decided by a
scope-blind scan: a *nested* scope that binds a variable of that name (inner
macro parameter, with-target, for-target, set inside a dead branch) in front of
the real use makes the macro reject the arguments, although the body does use
the special variable."""
import sys
from jinja2 import Environment

env = Environment()

def render(src, **ctx):
    try:
        return env.from_string(src).render(**ctx)
    except Exception as e:  # noqa
        return f"EXC {type(e).__name__}: {e}"

cases = [
    # (template, the same template with the *nested* local variable renamed to q, expected)
    ("{% macro m() %}{% for varargs in [0] %}{% endfor %}{{ varargs }}{% endmacro %}{{ m(1, 2) }}",
     "{% macro m() %}{% for q in [0] %}{% endfor %}{{ varargs }}{% endmacro %}{{ m(1, 2) }}", "(1, 2)"),
    ("{% macro m() %}{% with kwargs = 0 %}{% endwith %}{{ kwargs }}{% endmacro %}{{ m(a=1) }}",
     "{% macro m() %}{% with q = 0 %}{% endwith %}{{ kwargs }}{% endmacro %}{{ m(a=1) }}", "{'a': 1}"),
    ("{% macro m() %}{% macro inner(kwargs) %}{% endmacro %}{{ kwargs }}{% endmacro %}{{ m(a=1) }}",
     "{% macro m() %}{% macro inner(q) %}{% endmacro %}{{ kwargs }}{% endmacro %}{{ m(a=1) }}", "{'a': 1}"),
    ("{% macro m() %}{% with caller = 0 %}{% endwith %}[{{ caller() }}]{% endmacro %}{% call m() %}X{% endcall %}",
     "{% macro m() %}{% with q = 0 %}{% endwith %}[{{ caller() }}]{% endmacro %}{% call m() %}X{% endcall %}", "[X]"),
    ("{% macro m() %}{% set t %}{% set varargs = 0 %}{% endset %}{{ varargs }}{% endmacro %}{{ m(1) }}",
     "{% macro m() %}{% set t %}{% set q = 0 %}{% endset %}{{ varargs }}{% endmacro %}{{ m(1) }}", "(1,)"),
]
bad = 0
for src, renamed, want in cases:
    got, ren = render(src), render(renamed)
    flag = "" if got == want else "  <-- VIOLATION"
    print(src)
    print("    got:", got, "| nested variable renamed:", ren, "| expected:", want, flag)
    bad += bool(flag)
print("violations:", bad)
sys.exit(1 if bad else 0)
