"""C03: a macro defined inside a with / for scope and kept alive through a
namespace attribute does not keep (or lose) the variables of its defining
scope: it reads the variables of an unrelated *sibling* scope that happens to
use the same name, or prints the internal sentinel ``missing``."""
import sys
from jinja2 import Environment

env = Environment()

def render(src, **ctx):
    try:
        return env.from_string(src).render(**ctx)
    except Exception as e:  # noqa
        return f"EXC {type(e).__name__}: {e}"

PRE = "{% set ns = namespace(f=none) %}"
cases = [
    # the two `x` are different variables (different with scopes)
    (PRE + "{% with x = 1 %}{% macro m() %}[{{ x }}]{% endmacro %}{% set ns.f = m %}{% endwith %}"
           "{% with x = 2 %}{{ ns.f() }}{% endwith %}"),
    # ... renaming the second one must not matter
    (PRE + "{% with x = 1 %}{% macro m() %}[{{ x }}]{% endmacro %}{% set ns.f = m %}{% endwith %}"
           "{% with y = 2 %}{{ ns.f() }}{% endwith %}"),
    # same with for loops
    (PRE + "{% for x in [1] %}{% macro m() %}[{{ x }}]{% endmacro %}{% set ns.f = m %}{% endfor %}"
           "{% for x in [2] %}{{ ns.f() }}{% endfor %}"),
    (PRE + "{% for x in [1] %}{% macro m() %}[{{ x }}]{% endmacro %}{% set ns.f = m %}{% endfor %}"
           "{{ ns.f() }}"),
    # every loop iteration is a fresh scope: the macro of iteration 1 called in iteration 2
    (PRE + "{% for x in [1,2] %}{% if ns.f %}{{ ns.f() }}{% endif %}"
           "{% macro m() %}[{{ x }}]{% endmacro %}{% if not ns.f %}{% set ns.f = m %}{% endif %}{% endfor %}"),
    # plain set inside with
    (PRE + "{% with %}{% set x = 1 %}{% macro m() %}[{{ x }}]{% endmacro %}{% set ns.f = m %}{% endwith %}"
           "{% with %}{% set x = 2 %}{{ ns.f() }}{% endwith %}"),
]
# What Jinja does when the defining scope is a macro body (separate Python frame): a real closure.
control = (PRE + "{% macro mk(x) %}{% macro m() %}[{{ x }}]{% endmacro %}{% set ns.f = m %}{% endmacro %}"
           "{{ mk(1) }}{% with x = 2 %}{{ ns.f() }}{% endwith %}")
print("control (defining scope is a macro body):", render(control))

bad = 0
for src in cases:
    got = render(src)
    # acceptable under lexical scoping: the captured value (closure) or an undefined value (scope is gone)
    ok = got in ("[1]", "[]")
    print(src)
    print("   ->", got, "" if ok else "   <-- neither '[1]' (closure) nor '[]' (undefined)")
    bad += not ok
print("violations:", bad)
sys.exit(1 if bad else 0)
