"""C06: some keyword names make a macro call fail with TypeError *only when the
call is made from a template*, because they collide with the (name-mangled)
parameters of Context.call / SandboxedEnvironment.call."""
import sys
from jinja2 import Environment
from jinja2.sandbox import SandboxedEnvironment

M = "{% macro m(a=0) %}[{{ a }}{{ kwargs|dictsort }}]{% endmacro %}"
bad = 0
for env, names in (
    (Environment(), ["_Context__obj", "_Context__self"]),
    (SandboxedEnvironment(), ["_Context__obj", "_Context__self", "_SandboxedEnvironment__obj",
                              "_SandboxedEnvironment__context", "_SandboxedEnvironment__self"]),
):
    for name in names:
        want = f"[1[('{name}', 5)]]"
        try:
            t = env.from_string(M + "{{ m(1, " + name + "=5) }}").render()
        except Exception as e:  # noqa
            t = f"EXC {type(e).__name__}: {e}"
        try:
            p = str(env.from_string(M).module.m(1, **{name: 5}))
        except Exception as e:  # noqa
            p = f"EXC {type(e).__name__}: {e}"
        flag = "" if t == p == want else "  <-- VIOLATION"
        print(type(env).__name__, name)
        print("   template:", t)
        print("   python  :", p, flag)
        bad += bool(flag)
print("violations:", bad)
sys.exit(1 if bad else 0)
