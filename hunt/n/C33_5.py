"""C33: babel_extract cannot be given the environment's newline_sequence, so for an
environment with newline_sequence='\\r\\n' (or '\\r') every multi-line trans message that
reaches gettext at render time is missing from what babel_extract yields."""
import io, sys
from jinja2 import Environment
from jinja2.ext import babel_extract, extract_from_ast, GETTEXT_FUNCTIONS

src = "{% trans %}first line\nsecond line{% endtrans %}"
bad = 0
for nl in ("\n", "\r\n", "\r"):
    for newstyle in (False, True):
        env = Environment(extensions=["jinja2.ext.i18n"], newline_sequence=nl)
        seen = []
        env.install_gettext_callables(lambda s: seen.append(s) or s, lambda s, p, n: s if n == 1 else p, newstyle=newstyle)
        env.from_string(src).render()
        ast_msgs = [m for _, _, m in extract_from_ast(env.parse(src))]
        # all options babel_extract knows about; there is none for newline_sequence
        opts = {"extensions": "jinja2.ext.i18n", "newstyle_gettext": str(newstyle), "newline_sequence": nl}
        babel_msgs = [m for _, _, m, _ in babel_extract(io.BytesIO(src.encode()), GETTEXT_FUNCTIONS, [], opts)]
        ok = all(m in ast_msgs for m in seen) and all(m in babel_msgs for m in seen)
        print(("ok  " if ok else "BAD ") + f"newline_sequence={nl!r} newstyle={newstyle}: render-time {seen!r} "
              f"extract_from_ast {ast_msgs!r} babel_extract {babel_msgs!r}")
        bad += not ok
sys.exit(1 if bad else 0)
