"""C34: a template whose only output is one non-string value must return that value.
A constant expression that folds to a list/tuple/dict containing Markup is written
into the generated code as the *text* of its str(), e.g. "[Markup('a')]", which is not
a Python literal - so the native render returns that string instead of the container."""
import asyncio, sys
from markupsafe import Markup
from jinja2.nativetypes import NativeEnvironment

cases = [
    ('{{ ["a"|safe] }}', [Markup("a")]),
    ('{{ ("a"|safe, 1) }}', (Markup("a"), 1)),
    ('{{ {"k": "<b>"|e} }}', {"k": Markup("&lt;b&gt;")}),
    ('{{ [1|tojson] }}', [Markup("1")]),
]
bad = 0
for src, expected in cases:
    # reference: same expression, not constant-foldable
    for mode in ("sync", "async env render()", "async env render_async()"):
        env = NativeEnvironment(enable_async=mode != "sync")
        t = env.from_string(src)
        out = asyncio.run(t.render_async()) if mode.endswith("render_async()") else t.render()
        ok = type(out) is type(expected) and out == expected
        print(("ok  " if ok else "BAD ") + f"{mode}: {src!r} -> {type(out).__name__} {out!r} (expected {type(expected).__name__} {expected!r})")
        bad += not ok
ref = NativeEnvironment().from_string("{{ [x|safe] }}").render(x="a")
print("run-time evaluated reference {{ [x|safe] }} ->", type(ref).__name__, repr(ref))
sys.exit(1 if bad else 0)
