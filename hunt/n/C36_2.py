"""C36: async generators created by jinja's own filters (map/select/reject/...) are
iterated with a bare `async for` - by the compiled {% for %} loop (NO loop filter
involved) and by the filters themselves when chained - and are never aclose()d when
the iteration stops early: loop body raises, {% break %}, consumer closes the render
early, task cancelled inside the loop body, or a later filter in the chain raises."""
import asyncio, gc, sys, warnings
from jinja2 import Environment

def boom():
    raise RuntimeError("boom")

async def slow(x=""):
    await asyncio.sleep(0)
    return x

def track(make_coro):
    started, finalized, state = [], [], {}
    async def main():
        old = sys.get_asyncgen_hooks()
        def firstiter(ag):
            started.append(ag)
            if old.firstiter: old.firstiter(ag)
        def finalizer(ag):
            finalized.append(ag.__qualname__)
            if old.finalizer: old.finalizer(ag)
        sys.set_asyncgen_hooks(firstiter, finalizer)
        try:
            task = asyncio.ensure_future(make_coro())
            try:
                res = await task
            except BaseException as e:  # noqa
                res = f"{type(e).__name__}"
            # the render's task is finished now: which generators are still open / were dropped unclosed?
            still_open = [ag.__qualname__ for ag in started if ag.ag_frame is not None]
            state["res"] = res
            state["open"] = still_open
            del started[:]
            gc.collect()
            state["finalized"] = list(finalized)
        finally:
            sys.set_asyncgen_hooks(*old)
    with warnings.catch_warnings(record=True) as w:
        warnings.simplefilter("always")
        asyncio.run(main())
    return state["res"], state["open"], state["finalized"], [str(x.message) for x in w]

def env(**kw):
    e = Environment(enable_async=True, **kw)
    e.globals.update(boom=boom, slow=slow)
    return e

bad = 0
def report(label, res, still_open, finalized, warns):
    global bad
    ok = not still_open and not finalized and not warns
    print(("ok  " if ok else "BAD ") + f"{label}: result {res!r}; still open when the task finished: {still_open}; "
          f"left to the finalizer hook: {finalized}; warnings: {warns}")
    bad += not ok

XS = {"xs": ["a", "b", "c"]}

# 1. loop body raises
t = env().from_string('{% for x in xs|map("upper") %}{{ x }}{{ boom() }}{% endfor %}')
report("body raises", *track(lambda: t.render_async(**XS)))

# 2. {% break %}: the render completes normally
t2 = env(extensions=["jinja2.ext.loopcontrols"]).from_string(
    '{% for x in xs|select %}{{ x }}{% break %}{% endfor %}')
report("break", *track(lambda: t2.render_async(**XS)))

# 3. consumer closes the stream after the first chunk
t3 = env().from_string('{% for x in xs|map("upper") %}{{ x }}{% endfor %}')
async def early():
    g = t3.generate_async(**XS)
    async for _chunk in g:
        break
    await g.aclose()
    return "closed after 1 chunk"
report("closed early", *track(early))

# 4. task cancelled at an await point inside the loop body
t4 = env().from_string('{% for x in xs|map("upper") %}{{ slow(x) }}{% endfor %}')
async def cancelled():
    task = asyncio.ensure_future(t4.render_async(**XS))
    await asyncio.sleep(0)
    await asyncio.sleep(0)
    task.cancel()
    return await task
report("cancelled", *track(cancelled))

# 5. chained filters: the outer generator's function raises, the inner generator stays suspended
t5 = env().from_string('{{ xs|select|map("abs")|list }}')
report("chained filter raises", *track(lambda: t5.render_async(xs=[1, "a", 2])))

# control: loop runs to the end
report("control (complete)", *track(lambda: t3.render_async(**XS)))
sys.exit(1 if bad else 0)
