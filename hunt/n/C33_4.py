"""C33: `trimmed` does not collapse line breaks when the environment's
newline_sequence is '\\r' (a documented legal value): the lexer has already
rewritten every newline to '\\r' and the trimming regex only looks for '\\n'."""
import sys
from jinja2 import Environment

src = "{% trans trimmed %}  first line\n    second line  \n{% endtrans %}"
bad = 0
for nl in ("\n", "\r\n", "\r"):
    for newstyle in (False, True):
        env = Environment(extensions=["jinja2.ext.i18n"], newline_sequence=nl)
        seen = []
        env.install_gettext_callables(lambda s: seen.append(s) or s, lambda s, p, n: s if n == 1 else p, newstyle=newstyle)
        out = env.from_string(src).render()
        ok = out == "first line second line" and seen == ["first line second line"]
        print(("ok  " if ok else "BAD ") + f"newline_sequence={nl!r} newstyle={newstyle}: rendered {out!r}, msgid {seen!r}")
        bad += not ok
# the policy variant
env = Environment(extensions=["jinja2.ext.i18n"], newline_sequence="\r")
env.policies["ext.i18n.trimmed"] = True
env.install_null_translations()
out = env.from_string("{% trans %}a\n   b{% endtrans %}").render()
print(("ok  " if out == "a b" else "BAD ") + f"policy ext.i18n.trimmed, newline_sequence='\\r': {out!r}")
bad += out != "a b"
sys.exit(1 if bad else 0)
