"""C36: in async mode AsyncLoopContext inherits LoopContext.__repr__ and __len__, which
read `self.length` - an `async def` property there.  Printing the loop object (or taking
its length) creates a coroutine that is never awaited: RuntimeWarning 'coroutine
AsyncLoopContext.length was never awaited'."""
import asyncio, gc, sys, warnings
from jinja2 import Environment

def run(src, **ctx):
    env = Environment(enable_async=True)
    t = env.from_string(src)
    with warnings.catch_warnings(record=True) as w:
        warnings.simplefilter("always")
        try:
            out = asyncio.run(t.render_async(**ctx))
        except Exception as e:  # noqa
            out = f"raised {type(e).__name__}: {e}"
        gc.collect()
    return out, [str(x.message) for x in w]

bad = 0
for src in [
    "{% for x in xs %}{{ loop }}{% endfor %}",
    "{% for x in xs %}{{ loop|string }}{% endfor %}",
    "{% for x in xs %}{{ loop|length }}{% endfor %}",
    "{% for x in xs %}{{ loop.length }}/{{ loop.index }}{% endfor %}",   # control
]:
    out, warns = run(src, xs=[1, 2])
    ok = not [m for m in warns if "never awaited" in m]
    print(("ok  " if ok else "BAD ") + f"{src!r} -> {out!r}; warnings: {warns}")
    bad += not ok
# sync reference
print("sync env:", Environment().from_string("{% for x in xs %}{{ loop }}{% endfor %}").render(xs=[1, 2]))
sys.exit(1 if bad else 0)
