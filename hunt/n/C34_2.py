"""C34: with an Environment.finalize function the single value of a native template is
finalize(value).  For a *constant* expression the finalized value is folded at compile
time into its str() text, so a non-string finalize result does not come back as itself
(it comes back as whatever its text evaluates to)."""
import asyncio, sys
from decimal import Decimal
from fractions import Fraction
from jinja2.nativetypes import NativeEnvironment

class Missing:
    def __repr__(self): return "MISSING"
MISSING = Missing()

cases = [
    # finalize, constant template, equivalent run-time template, context
    (lambda v: Decimal(v) if isinstance(v, int) else v, "{{ 1 }}", "{{ x }}", {"x": 1}),
    (lambda v: MISSING if v is None else v, "{{ none }}", "{{ x }}", {"x": None}),
    (lambda v: Fraction(v) if isinstance(v, float) else v, "{{ 0.5 }}", "{{ x }}", {"x": 0.5}),
]
bad = 0
for fin, const_src, dyn_src, ctx in cases:
    for mode in ("sync", "async env render()", "async env render_async()"):
        env = NativeEnvironment(enable_async=mode != "sync", finalize=fin)
        def run(src, c):
            t = env.from_string(src)
            return asyncio.run(t.render_async(**c)) if mode.endswith("render_async()") else t.render(**c)
        expected = run(dyn_src, ctx)          # == fin(value)
        out = run(const_src, {})
        ok = type(out) is type(expected) and out == expected
        print(("ok  " if ok else "BAD ") + f"{mode}: {const_src!r} -> {type(out).__name__} {out!r}; "
              f"{dyn_src!r} with {ctx} -> {type(expected).__name__} {expected!r}")
        bad += not ok
sys.exit(1 if bad else 0)
