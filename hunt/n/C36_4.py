"""C36: async tests are supported in async mode (`x is atest` is awaited), but the
select / reject / selectattr / rejectattr filters call the test and use the returned
coroutine as a truth value: every item is selected and each coroutine is dropped with
RuntimeWarning 'coroutine ... was never awaited'."""
import asyncio, gc, sys, warnings
from jinja2 import Environment

async def aodd(x):
    await asyncio.sleep(0)
    return x % 2 == 1

def run(src, **ctx):
    env = Environment(enable_async=True)
    env.tests["aodd"] = aodd
    t = env.from_string(src)
    with warnings.catch_warnings(record=True) as w:
        warnings.simplefilter("always")
        out = asyncio.run(t.render_async(**ctx))
        gc.collect()
    return out, [str(x.message) for x in w]

bad = 0
for src, expected in [
    ("{% for x in xs if x is aodd %}{{ x }}{% endfor %}", "13"),          # control: compiled test call is awaited
    ("{{ xs|map('string')|map('upper')|join }}", "123"),                  # control
    ("{{ xs|select('aodd')|join }}", "13"),
    ("{{ xs|reject('aodd')|join }}", "2"),
    ("{{ xs|selectattr('real', 'aodd')|join }}", "13"),
    ("{{ xs|rejectattr('real', 'aodd')|join }}", "2"),
]:
    out, warns = run(src, xs=[1, 2, 3])
    ok = out == expected and not [m for m in warns if "never awaited" in m]
    print(("ok  " if ok else "BAD ") + f"{src!r} -> {out!r} (expected {expected!r}); warnings: {warns}")
    bad += not ok
sys.exit(1 if bad else 0)
