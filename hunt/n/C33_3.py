"""C33: when the first variable of a trans tag is a call expression the extension
stores its value in a template variable named `_trans`; that assignment shadows /
overwrites a user variable of the same name, so `{{ _trans }}` inside (and after)
the block is substituted with the wrong value."""
import sys
from jinja2 import Environment

def make(newstyle):
    env = Environment(extensions=["jinja2.ext.i18n"])
    env.install_gettext_callables(lambda s: s, lambda s, p, n: s if n == 1 else p, newstyle=newstyle)
    return env

ctx = {"f": lambda: 5, "_trans": "U", "g": 7}
cases = [
    ("{% trans a=f() %}{{ a }} {{ _trans }}{% endtrans %}", "5 U"),
    ("{% trans a=f(), _trans %}{{ a }} {{ _trans }}{% endtrans %}", "5 U"),
    # control: same block with a non-call first variable
    ("{% trans a=g %}{{ a }} {{ _trans }}{% endtrans %}", "7 U"),
    # the assignment also leaks out of the block
    ("{% trans a=f() %}{{ a }}{% endtrans %}|{{ _trans }}", "5|U"),
]
bad = 0
for src, expected in cases:
    for newstyle in (False, True):
        out = make(newstyle).from_string(src).render(**ctx)
        ok = out == expected
        print(("ok  " if ok else "BAD ") + f"newstyle={newstyle} {src!r} -> {out!r} (expected {expected!r})")
        bad += not ok
sys.exit(1 if bad else 0)
