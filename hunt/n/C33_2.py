"""C33: the literal text of a trans block is HTML-escaped (not only the variable
values) when the block sits in a macro or {% block %} whose compile-time autoescape
setting (true) differs from the run-time one ({% autoescape false %} around the
call / around the block)."""
import sys
from jinja2 import Environment

def make(newstyle):
    env = Environment(extensions=["jinja2.ext.i18n"], autoescape=True)
    env.install_gettext_callables(lambda s: s, lambda s, p, n: s if n == 1 else p, newstyle=newstyle)
    return env

cases = [
    # (template, context, acceptable outputs: autoescaped value or unescaped value, literal text never escaped)
    ('{% macro m(x) %}{% trans %}<b>{{ x }}</b>{% endtrans %}{% endmacro %}'
     '{% autoescape false %}{{ m("<i>") }}{% endautoescape %}', {}, {"<b>&lt;i&gt;</b>", "<b><i></b>"}),
    ('{% macro m() %}{% trans %}<b>x</b>{% endtrans %}{% endmacro %}'
     '{% autoescape false %}{{ m() }}{% endautoescape %}', {}, {"<b>x</b>"}),
    ('{% autoescape false %}{% block b %}{% trans %}<b>{{ x }}</b>{% endtrans %}{% endblock %}{% endautoescape %}',
     {"x": "<i>"}, {"<b>&lt;i&gt;</b>", "<b><i></b>"}),
]
# reference: the same text without trans
ref = make(False).from_string('{% macro m(x) %}<b>{{ x }}</b>{% endmacro %}'
                              '{% autoescape false %}{{ m("<i>") }}{% endautoescape %}').render()
print("without trans, same place:", repr(ref))
bad = 0
for src, ctx, accepted in cases:
    for newstyle in (False, True):
        out = make(newstyle).from_string(src).render(**ctx)
        ok = out in accepted
        print(("ok  " if ok else "BAD ") + f"newstyle={newstyle} {src!r} -> {out!r} (acceptable: {sorted(accepted)})")
        bad += not ok
sys.exit(1 if bad else 0)
