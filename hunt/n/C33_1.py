"""C33: new-style gettext wrappers take their fixed arguments as ordinary
(keyword-capable) parameters named __context/__string/__singular/__plural/__num/
__string_ctx, so a trans variable with one of those names cannot be passed."""
import sys
from jinja2 import Environment

def make(newstyle):
    env = Environment(extensions=["jinja2.ext.i18n"])
    env.install_gettext_callables(
        lambda s: s, lambda s, p, n: s if n == 1 else p, newstyle=newstyle,
        pgettext=lambda c, s: s, npgettext=lambda c, s, p, n: s if n == 1 else p,
    )
    return env

cases = [
    ('{% trans __string="x" %}<{{ __string }}>{% endtrans %}', "<x>"),
    ('{% trans __context="x" %}<{{ __context }}>{% endtrans %}', "<x>"),
    ('{% trans n=2, __num="x" %}one {{ __num }}{% pluralize n %}many {{ __num }}{% endtrans %}', "many x"),
    ('{% trans "c" __string_ctx="x" %}<{{ __string_ctx }}>{% endtrans %}', "<x>"),
]
bad = 0
for src, expected in cases:
    for newstyle in (False, True):
        try:
            out = make(newstyle).from_string(src).render()
        except Exception as e:  # noqa
            out = f"EXC {type(e).__name__}: {e}"
        ok = out == expected
        print(("ok  " if ok else "BAD ") + f"newstyle={newstyle} {src!r} -> {out!r} (expected {expected!r})")
        bad += not ok
sys.exit(1 if bad else 0)
