"""C36: in async mode `|first` takes one item from the async generator that a
preceding jinja filter (map / select / reject / selectattr / rejectattr) created and
then drops it without aclose().  The render COMPLETES NORMALLY and the generator is
left to the asyncgen finalizer hook (it is not closed by the render)."""
import asyncio, gc, sys, warnings
from jinja2 import Environment

def run(src, **ctx):
    env = Environment(enable_async=True)
    t = env.from_string(src)
    started, finalized, state = [], [], {}

    async def main():
        old = sys.get_asyncgen_hooks()
        def firstiter(ag):
            started.append(ag.__qualname__)
            if old.firstiter: old.firstiter(ag)
        def finalizer(ag):
            # called only for a generator that was NOT run to its end / closed explicitly
            finalized.append(ag.__qualname__)
            if old.finalizer: old.finalizer(ag)
        sys.set_asyncgen_hooks(firstiter, finalizer)
        try:
            task = asyncio.ensure_future(t.render_async(**ctx))
            out = await task
            gc.collect()
            state["finalized_when_task_done"] = list(finalized)
            return out
        finally:
            sys.set_asyncgen_hooks(*old)

    with warnings.catch_warnings(record=True) as w:
        warnings.simplefilter("always")
        out = asyncio.run(main())
    return out, started, state["finalized_when_task_done"], [str(x.message) for x in w]

bad = 0
for src, ctx in [
    ('{{ xs|map("upper")|first }}', {"xs": ["a", "b", "c"]}),
    ('{{ xs|select("odd")|first }}', {"xs": [1, 2, 3]}),
    ('{{ xs|reject("odd")|first }}', {"xs": [1, 2, 3]}),
    ('{{ xs|selectattr("real")|first }}', {"xs": [1, 2, 3]}),
    ('{{ xs|map("upper")|list|first }}', {"xs": ["a", "b", "c"]}),   # control: generator exhausted
]:
    out, started, left, warns = run(src, **ctx)
    ok = not left and not warns
    print(("ok  " if ok else "BAD ") + f"{src!r} -> {out!r}; async generators started: {started}; "
          f"not closed by the render (handed to the finalizer hook): {left}; warnings: {warns}")
    bad += not ok
sys.exit(1 if bad else 0)
