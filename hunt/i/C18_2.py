"""C18: a callable object whose __call__ method is marked @unsafe / alters_data
(or a class whose __init__ is marked) is invoked by a template call, because
is_safe_callable only looks at attributes of the object itself."""
import sys
from jinja2.sandbox import SandboxedEnvironment, unsafe
from jinja2.exceptions import SecurityError

log = []

class Deleter:
    @unsafe
    def __call__(self, *a):
        log.append(("Deleter.__call__", a)); return "deleted"

class Dj:
    def __call__(self):
        log.append(("Dj.__call__",)); return "deleted"
    __call__.alters_data = True

class Res:
    @unsafe
    def __init__(self):
        log.append(("Res.__init__",))

env = SandboxedEnvironment()
bad = False
for src in (
    "{{ d.__call__ is defined }}",
    "{{ d() }}", "{% set f = d %}{{ f(1) }}", "{% macro m(f) %}{{ f() }}{% endmacro %}{{ m(d) }}",
    "{{ dj() }}", "{{ Res() }}",
):
    del log[:]
    try:
        out = env.from_string(src).render(d=Deleter(), dj=Dj(), Res=Res)
    except SecurityError:
        out = "<SecurityError>"
    print(("CALLED" if log else "ok    "), src, "->", repr(out)[:50], log)
    bad = bad or bool(log)
# the callable that actually runs is marked unsafe:
print("Deleter().__call__.unsafe_callable =", Deleter().__call__.unsafe_callable,
      "; env.is_safe_callable(Deleter().__call__) =", env.is_safe_callable(Deleter().__call__),
      "; env.is_safe_callable(Deleter()) =", env.is_safe_callable(Deleter()))
if bad:
    print("VIOLATION: a callable marked unsafe was invoked by a call written in the template")
    sys.exit(1)
sys.exit(0)
