"""C18 (and C20, see C20_1): a sandboxed environment that shares a bytecode cache
with another environment runs code that was generated WITHOUT the sandbox:
the cache key/checksum cover only template name, filename and source, not the
code-generation-relevant configuration (sandboxed, intercepted operators)."""
import sys
from jinja2 import Environment, DictLoader
from jinja2.bccache import BytecodeCache
from jinja2.sandbox import SandboxedEnvironment, unsafe
from jinja2.exceptions import SecurityError

class MemoryCache(BytecodeCache):          # any shared store: memcached, FileSystemBytecodeCache() default dir, ...
    def __init__(self): self.store = {}
    def load_bytecode(self, bucket):
        if bucket.key in self.store: bucket.bytecode_from_string(self.store[bucket.key])
    def dump_bytecode(self, bucket): self.store[bucket.key] = bucket.bytecode_to_string()

log = []
@unsafe
def danger():
    log.append("danger ran"); return "RAN"

loader = DictLoader({"page": "{{ danger() }}"})
cache = MemoryCache()

# 1. the trusted, non-sandboxed part of the application renders the template once
Environment(loader=loader, bytecode_cache=cache).get_template("page").render(danger=danger)
del log[:]

# 2. the sandboxed environment later loads the same template
sandbox = SandboxedEnvironment(loader=loader, bytecode_cache=cache)
try:
    out = sandbox.get_template("page").render(danger=danger)
except SecurityError:
    out = "<SecurityError>"
print("sandboxed render ->", repr(out), log)

# control: without the shared cache the sandbox blocks the call
try:
    ctrl = SandboxedEnvironment(loader=loader).get_template("page").render(danger=danger)
except SecurityError:
    ctrl = "<SecurityError>"
print("control (no shared cache) ->", repr(ctrl))
if log:
    print("VIOLATION: unsafe callable invoked by a template rendered in a SandboxedEnvironment")
    sys.exit(1)
sys.exit(0)
