"""C18: an unsafe callable stored in a template-built `namespace(...)` under a
protocol name (__html__, __html_format__, items, __aiter__) is invoked by the
library (escape/Markup, filters, async iteration) without any safety check."""
import sys, asyncio
from jinja2.sandbox import SandboxedEnvironment, unsafe
from jinja2.exceptions import SecurityError

log = []

@unsafe
def danger(*a, **k):
    log.append(("danger", a, k)); return "RAN"

class User:
    def delete(self):
        log.append(("User.delete",)); return "deleted"
    delete.alters_data = True

class Env(SandboxedEnvironment):       # additionally an overridden check that rejects everything but library helpers
    def is_safe_callable(self, obj):
        return super().is_safe_callable(obj) and obj is not danger

templates = [
    "{{ danger() }}",                                                   # control -> SecurityError
    "{{ namespace(__html__=danger)|e }}",
    "{{ namespace(__html__=user.delete)|e }}",
    "{% set ns = namespace() %}{% set ns.__html__ = danger %}{{ ns|safe }}",
    "{{ namespace(__html__=danger)|striptags }}",
    "{{ namespace(__html__=danger)|urlize }}",
    "{{ ('%s'|safe) % namespace(__html__=danger) }}",
    "{{ ('{0}'|safe).format(namespace(__html__=danger)) }}",
    "{{ ('{0:spec}'|safe).format(namespace(__html_format__=danger)) }}",
    "{{ namespace(items=danger)|dictsort }}",
    "{{ namespace(items=danger)|xmlattr }}",
    "{% for x in namespace(__aiter__=danger) %}{% endfor %}",          # async only
]
bad = False
for kw in ({}, {"autoescape": True}, {"enable_async": True}):
    env = Env(**kw)
    extra = ["{{ namespace(__html__=danger) }}"] if kw.get("autoescape") else []
    for src in templates + extra:
        del log[:]
        try:
            t = env.from_string(src)
            ctx = dict(danger=danger, user=User())
            out = asyncio.run(t.render_async(**ctx)) if kw.get("enable_async") else t.render(**ctx)
        except SecurityError:
            out = "<SecurityError>"
        except Exception as e:                      # errors raised *after* the callable already ran
            out = "<%s>" % type(e).__name__
        print(str(kw).ljust(22), ("CALLED" if log else "ok    "), src, "->", repr(out)[:40], log)
        bad = bad or bool(log)
if bad:
    print("VIOLATION: unsafe callables were invoked from a sandboxed template without SecurityError")
    sys.exit(1)
sys.exit(0)
