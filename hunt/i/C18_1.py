"""C18: with the i18n extension, the global `_` (jinja2.ext._gettext_alias)
resolves "gettext" from the template context and invokes it through
Context.call, not through SandboxedEnvironment.call: an unsafe callable that the
template aliases to the name `gettext` runs without any safety check."""
import sys, asyncio
from jinja2.sandbox import SandboxedEnvironment, unsafe
from jinja2.exceptions import SecurityError

log = []

@unsafe
def danger(*args, **kwargs):
    log.append(("danger", args, kwargs))
    return "RAN"

def rejected(*args):              # rejected only by the overridden check
    log.append(("rejected", args))
    return "RAN2"

class Env(SandboxedEnvironment):
    def is_safe_callable(self, obj):
        return obj is not rejected and super().is_safe_callable(obj)

bad = False
for kw in ({}, {"enable_async": True}):
    env = Env(extensions=["jinja2.ext.i18n"], **kw)
    for src in (
        "{{ danger('x') }}",                                   # control: SecurityError
        "{% set gettext = danger %}{{ _('x') }}",
        "{% set gettext = rejected %}{{ _('x') }}",
        "{% set gettext = obj.delete %}{{ _('all') }}",
    ):
        class Obj:
            def delete(self, what):
                log.append(("Obj.delete", what)); return "deleted"
            delete.alters_data = True
        del log[:]
        try:
            t = env.from_string(src)
            ctx = dict(danger=danger, rejected=rejected, obj=Obj())
            out = asyncio.run(t.render_async(**ctx)) if kw else t.render(**ctx)
        except SecurityError:
            out = "<SecurityError>"
        print("async" if kw else "sync ", ("CALLED" if log else "ok    "), src, "->", repr(out), log)
        bad = bad or bool(log)
if bad:
    print("VIOLATION: an unsafe callable was invoked from a call written in a sandboxed template")
    sys.exit(1)
sys.exit(0)
