"""C19: the immutable sandbox lets a template modify a dict from the context by
calling the mutating methods through the class: the default global `dict`
gives dict.update / clear / pop / popitem / setdefault as unbound methods."""
import sys, copy, asyncio
from jinja2.sandbox import ImmutableSandboxedEnvironment
from jinja2.exceptions import SecurityError

templates = [
    "{{ d.update({'x': 1}) }}",                 # control: SecurityError
    "{{ dict.update(d, {'x': 1}) }}",
    "{{ dict.update(d, x=1) }}",
    "{{ dict.clear(d) }}",
    "{{ dict.pop(d, 'a') }}",
    "{{ dict.popitem(d) }}",
    "{{ dict.setdefault(d, 'z', 1) }}",
    "{% set f = dict.clear %}{{ f(d) }}",       # stored reference
    "{{ (dict|attr('update'))(d, x=1) }}",      # attr filter
    "{{ dict['x'].clear(d) }}",                 # through a GenericAlias
    "{{ dict.clear(nested.inner) }}",
]
bad = False
for kw in ({}, {"enable_async": True}):
    env = ImmutableSandboxedEnvironment(**kw)
    for src in templates:
        data = {"d": {"a": 1, "b": 2}, "nested": {"inner": {"k": [1, 2]}}}
        before = copy.deepcopy(data)
        try:
            t = env.from_string(src)
            out = asyncio.run(t.render_async(**data)) if kw else t.render(**data)
        except SecurityError:
            out = "<SecurityError>"
        changed = data != before
        print("async" if kw else "sync ", ("MODIFIED" if changed else "ok      "), src, "->", repr(out), data if changed else "")
        bad = bad or changed
if bad:
    print("VIOLATION: a dict reachable from the context was modified in the immutable sandbox")
    sys.exit(1)
sys.exit(0)
