"""C17: a private attribute whose value is a bound str.format / str.format_map
method is handed to the template (as a working wrapper), because
wrap_str_format() runs before is_safe_attribute()."""
import sys
from jinja2.sandbox import SandboxedEnvironment
from jinja2.exceptions import SecurityError

class Probe:
    _secret_fmt = "TRACER-class {0}".format            # private class attribute
    def __init__(self):
        self._secret_map = "TRACER-inst {x}".format_map  # private instance attribute
        self._plain = "TRACER-plain"

env = SandboxedEnvironment()
templates = [
    "{{ p._plain }}",                         # control: blocked
    "{{ p._secret_fmt('a') }}",
    "{{ p['_secret_fmt']('a') }}",
    "{{ (p|attr('_secret_fmt'))('a') }}",
    "{{ p._secret_map({'x': 1}) }}",
    "{% for f in [p]|map(attribute='_secret_map') %}{{ f({'x': 2}) }}{% endfor %}",
    "{{ 'x'.format.__wrapped__ }}",           # dunder attribute of the wrapper is handed out too (re-wrapped)
]
bad = False
for src in templates:
    try:
        out = env.from_string(src).render(p=Probe())
    except SecurityError:
        out = "<SecurityError>"
    leak = "TRACER" in out or "function str.format" in out
    print(("LEAK " if leak else "ok   "), src, "->", repr(out))
    bad = bad or leak
if bad:
    print("VIOLATION: attributes whose names start with an underscore were handed to the template")
    sys.exit(1)
sys.exit(0)
