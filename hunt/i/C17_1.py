"""C17: type.mro (classified internal by the sandbox) is obtained through a
types.GenericAlias built from the default global `dict`."""
import sys
from jinja2.sandbox import SandboxedEnvironment, is_internal_attribute
from jinja2.exceptions import SecurityError

env = SandboxedEnvironment()
assert is_internal_attribute(dict, "mro")  # the sandbox classifies type.mro as internal

def render(src):
    try:
        return env.from_string(src).render()
    except SecurityError:
        return "<SecurityError>"

direct = render("{{ dict.mro }}|{{ dict.mro() if dict.mro else '' }}")
via_alias_attr = render("{{ dict['x'].mro }}")
via_alias_call = render("{{ dict['x'].mro() }}")
via_filter = render("{{ (dict['x']|attr('mro'))() }}")
via_format = render("{{ '{0.mro}'.format(dict['x']) }}")
print("direct            :", repr(direct))
print("dict['x'].mro     :", repr(via_alias_attr))
print("dict['x'].mro()   :", repr(via_alias_call))
print("attr filter       :", repr(via_filter))
print("format field      :", repr(via_format))
bad = any("mro of type" in s or "<class 'object'>" in s
          for s in (via_alias_attr, via_alias_call, via_filter, via_format))
if bad:
    print("VIOLATION: the bound method dict.mro (internal attribute of a type) was handed to the template")
    sys.exit(1)
sys.exit(0)
