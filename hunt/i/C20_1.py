"""C20: operator interception is skipped when the byte code comes from a bytecode
cache that was filled by an environment with a different set of intercepted
operators (the cache key does not cover intercepted_binops / intercepted_unops)."""
import sys
from jinja2 import DictLoader
from jinja2.bccache import BytecodeCache
from jinja2.sandbox import SandboxedEnvironment

class MemoryCache(BytecodeCache):
    def __init__(self): self.store = {}
    def load_bytecode(self, bucket):
        if bucket.key in self.store: bucket.bytecode_from_string(self.store[bucket.key])
    def dump_bytecode(self, bucket): self.store[bucket.key] = bucket.bytecode_to_string()

calls = []
class Intercepting(SandboxedEnvironment):
    intercepted_binops = frozenset(["+", "*"])
    intercepted_unops = frozenset(["-"])
    def call_binop(self, context, operator, left, right):
        calls.append((operator, left, right)); return 1000      # perturbed result
    def call_unop(self, context, operator, arg):
        calls.append((operator, arg)); return 1000

loader = DictLoader({"calc": "{{ 1 + 2 }}|{{ x * 3 }}|{{ -x }}"})
cache = MemoryCache()

# another sandboxed environment (no interception) renders the template first
SandboxedEnvironment(loader=loader, bytecode_cache=cache).get_template("calc").render(x=5)

out = Intercepting(loader=loader, bytecode_cache=cache).get_template("calc").render(x=5)
print("with shared cache   :", repr(out), calls)
calls2 = list(calls); del calls[:]
ctrl = Intercepting(loader=loader).get_template("calc").render(x=5)
print("control (no cache)  :", repr(ctrl), calls)
if out != "1000|1000|1000" or len(calls2) != 3:
    print("VIOLATION: intercepted operators were applied without going through call_binop/call_unop")
    sys.exit(1)
sys.exit(0)
