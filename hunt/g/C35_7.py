# C35 (i18n extension shipped with jinja2): {% trans count=<expr> %} where <expr> is not a
# plain name creates `nodes.Assign(nodes.Name('_trans', 'store'), var)` WITHOUT a line
# number; set_lineno() is only applied to the Output node.  The assignment is compiled
# without a debug mark, so an exception raised by <expr> is reported on the previous
# statement's line (or line 1).
import sys
from jinja2 import Environment
from _c35util import check
X = {"extensions": ["jinja2.ext.i18n"]}
cases = [
    ("trans count=boom() at line 3", {"main.html": "{{ 1 }}\n\n{% trans count=boom() %}{{ count }} item{% pluralize %}{{ count }} items{% endtrans %}\n"}, ("main.html", 3), X),
    ("trans n=boom() (no plural) at line 4", {"main.html": "{% set a = 1 %}\n\n\n{% trans n=boom() %}{{ n }}{% endtrans %}\n"}, ("main.html", 4), X),
]
bad = check(cases)
env = Environment(extensions=["jinja2.ext.i18n"])
n = env.parse("\n\n{% trans n=f() %}{{ n }}{% endtrans %}").body[1]
print(type(n).__name__, "lineno =", n.lineno, "(expected 3)")
bad += n.lineno != 3
sys.exit(1 if bad else 0)
