# C35: a second {% extends %} raises TemplateRuntimeError("extended multiple times"); the
# traceback points at the FIRST extends tag (last statement that was line-marked), not at
# the second one that raised.
import sys
from _c35util import check
P = {"a.html": "A", "b.html": "B"}
cases = [
    ("second extends at line 4", {**P, "main.html": "{% extends 'a.html' %}\n\n\n{% extends 'b.html' %}\n"}, ("main.html", 4), {}),
    ("conditional first extends, second at line 5", {**P, "main.html": "{% if true %}{% extends 'a.html' %}{% endif %}\n\n\n\n{% extends 'b.html' %}\n"}, ("main.html", 5), {}),
]
sys.exit(1 if check(cases) else 0)
