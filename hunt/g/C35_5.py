# C35: same defect class as the repaired parse_compare one, still present in parse_or,
# parse_and, parse_math1, parse_math2, parse_pow, parse_condexpr and parse_tuple: after the
# first operator the parser re-reads `self.stream.current.lineno`, so the outer node of a
# chain / tuple carries the line of a LATER token (second operator / last comma) instead of
# the line of its first token.  The compiler marks the output with the outer node's line,
# so an exception raised by a call on line 2 of the template is reported on line 4.
import sys
from jinja2 import Environment
from _c35util import check
cases = []
for label, a, b in [("tuple", ",", ","), ("add", "+", "+"), ("sub", "-", "-"), ("mul", "*", "*"), ("floordiv", "//", "//"),
                    ("pow", "**", "**"), ("or", "or", "or"), ("and", "and", "and")]:
    src = "line one\n{{ boom()\n   %s 1\n   %s 2 }}\n" % (a, b)
    cases.append((label, {"main.html": src}, ("main.html", 2), {}))
cases.append(("condexpr", {"main.html": "line one\n{{ boom() if 1\n\n  if 1 }}\n"}, ("main.html", 2), {}))
bad = check(cases)
# the node line numbers themselves
env = Environment()
for src in ["{{ a\n + b\n + c }}", "{{ a\n , b\n , c }}", "{{ a\n or b\n or c }}", "{{ a\n * b\n * c }}", "{{ a if b\n\n if c }}"]:
    node = env.parse(src).body[0].nodes[0]
    ok = node.lineno == 1
    print(f"{'ok  ' if ok else 'FAIL'} {type(node).__name__} node of {src!r}: lineno {node.lineno}, first token on line 1")
    bad += not ok
# syntax-error flavour: the offending tuple starts on line 1
try:
    env.from_string("{% set 1,\n2,\n3 = x %}")
except Exception as e:
    ok = e.lineno == 1
    print(f"{'ok  ' if ok else 'FAIL'} \"can't assign to 'tuple'\" reported on line {e.lineno}, the tuple starts on line 1")
    bad += not ok
sys.exit(1 if bad else 0)
