# C35: {% autoescape <expr> %} - an exception raised by <expr> is reported on the line of
# the previous statement (or line 1), not on the line of the autoescape tag.
import sys
from _c35util import check
cases = [
    ("autoescape at line 3", {"main.html": "{{ 1 }}\n\n{% autoescape boom() %}x{% endautoescape %}\n"}, ("main.html", 3), {}),
    ("autoescape inside a for loop (line 4)", {"main.html": "a\n{% for i in [1] %}\n{{ i }}\n{% autoescape boom() %}x{% endautoescape %}\n{% endfor %}"}, ("main.html", 4), {}),
]
sys.exit(1 if check(cases) else 0)
