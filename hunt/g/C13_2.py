# C13: changing the delimiter strings consistently changes the result when the comment end
# string starts with '-' (HTML style <!-- --> or JSP style <%-- --%>): the EMPTY comment
# `{##}` becomes `<!---->`; the lexer's begin rule `<!--(\-|\+|)` greedily takes the first
# '-' of the END delimiter as a whitespace-control sign, the remaining `->` is no comment end
# and the template fails with "Missing end of comment tag".
import sys
from jinja2 import Environment, Template
D = ("{%", "%}", "{{", "}}", "{#", "#}")
SETS = [("<?", "?>", "<?=", "?>", "<!--", "-->"), ("<%", "%>", "${", "}", "<%--", "--%>")]
def kw(d, **o):
    return dict(zip(("block_start_string", "block_end_string", "variable_start_string", "variable_end_string", "comment_start_string", "comment_end_string"), d), **o)
def tr(parts, d):
    m = dict(zip(("<B>", "</B>", "<V>", "</V>", "<C>", "</C>"), d))
    return "".join(m.get(p, p) for p in parts)
def r(mk, src):
    try:
        return mk(src).render(x=1)
    except Exception as e:
        return f"<{type(e).__name__}: {e}>"
templates = [
    ["a", "<C>", "</C>", "b"],                                   # a{##}b
    ["<B>", " if x ", "</B>", "<C>", "</C>", "yes", "<B>", " endif ", "</B>"],  # {% if x %}{##}yes{% endif %}
    ["<V>", " x ", "</V>", "<C>", "</C>", "\n", "<C>", " note ", "</C>", "tail"],  # silently different output
]
bad = 0
for parts in templates:
    base = r(Environment(**kw(D)).from_string, tr(parts, D))
    for d in SETS:
        src = tr(parts, d)
        for how, mk in (("Environment", Environment(**kw(d)).from_string), ("Template", lambda s: Template(s, **kw(d))), ("overlay", Environment().overlay(**kw(d)).from_string)):
            got = r(mk, src)
            ok = got == base
            print(f"{'ok  ' if ok else 'FAIL'} {tr(parts, D)!r} -> {base!r};  {how} {src!r} -> {got!r}")
            bad += not ok
sys.exit(1 if bad else 0)
