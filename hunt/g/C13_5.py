# C13 (lower confidence - depends on whether tags with a '+' modifier are in scope): under
# trim_blocks + lstrip_blocks an indented whole-line tag `  {%+ if x %}` keeps its indentation
# ('+' disables lstrip), the line-statement form `  #+ if x` (the lexer accepts the same
# (\-|\+|) modifier after the prefix) always drops it, because the indentation is part of the
# linestatement_begin rule `^[ \t\v]*prefix`.  Same for `  {#+ c +#}` vs `  ##+ c`.
import sys
from jinja2 import Environment
E = Environment(trim_blocks=True, lstrip_blocks=True)
L = Environment(trim_blocks=True, lstrip_blocks=True, line_statement_prefix="#", line_comment_prefix="##")
cases = [("a\n  {%+ if true %}\nb\n{% endif %}", "a\n  #+ if true\nb\n# endif"),
         ("a\n  {#+ c +#}\nb", "a\n  ##+ c\nb"),
         # control: the '-' modifier agrees
         ("a\n  {%- if true %}\nb\n{% endif %}", "a\n  #- if true\nb\n# endif")]
bad = 0
for a, b in cases:
    ra, rb = E.from_string(a).render(), L.from_string(b).render()
    ok = ra == rb
    print(f"{'ok  ' if ok else 'FAIL'} {a!r} -> {ra!r};  {b!r} -> {rb!r}")
    bad += not ok
sys.exit(1 if bad else 0)
