# C13 (last sentence): creating and using an overlay with different syntax options changes how
# the previously configured environment renders, when the base environment has a bytecode
# cache.  overlay() shares `bytecode_cache`; the cache bucket key is sha1(name [+ filename])
# and the checksum is sha1(source) - neither contains the lexer/parser configuration - so the
# code compiled by the overlay (trim_blocks=True, or other delimiters) is handed to the base
# environment (and vice versa).
import sys
from jinja2 import Environment, DictLoader
from jinja2.bccache import BytecodeCache
class MemCache(BytecodeCache):
    def __init__(self): self.d = {}
    def load_bytecode(self, b):
        if b.key in self.d: b.bytecode_from_string(self.d[b.key])
    def dump_bytecode(self, b): self.d[b.key] = b.bytecode_to_string()
src = "{% if true %}\nA\n{% endif %}\n<% if true %>B<% endif %>\n"
loader = DictLoader({"t.html": src})
bad = 0
# reference: what the two configurations render without any cache
ref_base = Environment(loader=loader).get_template("t.html").render()
ref_trim = Environment(loader=loader, trim_blocks=True).get_template("t.html").render()
ref_angle = Environment(loader=loader, block_start_string="<%", block_end_string="%>").get_template("t.html").render()
# 1. overlay used first, base afterwards
base = Environment(loader=loader, bytecode_cache=MemCache())
ov = base.overlay(trim_blocks=True)
got_ov = ov.get_template("t.html").render()
got_base = base.get_template("t.html").render()
print("overlay(trim_blocks=True) renders", repr(got_ov), "expected", repr(ref_trim))
print("base afterwards renders          ", repr(got_base), "expected", repr(ref_base))
bad += (got_ov != ref_trim) + (got_base != ref_base)
# 2. base already rendered once (its own template cache cleared / new process), then overlay with other delimiters
base = Environment(loader=loader, bytecode_cache=MemCache())
before = base.get_template("t.html").render()
ov = base.overlay(block_start_string="<%", block_end_string="%>")
got_ov = ov.get_template("t.html").render()
print("overlay(<% %>) after base renders", repr(got_ov), "expected", repr(ref_angle))
bad += got_ov != ref_angle
base.cache.clear()
ov.cache.clear(); ov.bytecode_cache.d.clear()
ov.get_template("t.html").render()
after = base.get_template("t.html").render()
print("base before", repr(before), "base after the overlay was used", repr(after))
bad += before != after
sys.exit(1 if bad else 0)
