# C35: {% with a = <expr> %} - an exception raised by <expr> is reported on the line of
# the previous statement (or line 1), not on the line of the with tag.
import sys
from _c35util import check
src = "{{ 1 }}\nsome text\n\n{% with a = boom() %}\n  {{ a }}\n{% endwith %}\n"
cases = [
    ("with at line 4", {"main.html": src}, ("main.html", 4), {}),
    ("with at line 4 (async)", {"main.html": src}, ("main.html", 4), {"enable_async": True}),
    ("with inside a macro (line 5)", {"main.html": "x\n{% macro m() %}\n\n{{ 1 }}\n{% with a = 1, b = boom() %}{% endwith %}\n{% endmacro %}\n{{ m() }}"}, ("main.html", 5), {}),
    ("with in an included file (line 3)", {"main.html": "{% include 'inc.html' %}", "inc.html": "a\nb\n{% with z = boom() %}{% endwith %}\n"}, ("inc.html", 3), {}),
]
sys.exit(1 if check(cases) else 0)
