"""helper shared by the C35_* programs: render a template from a real file and
return (basename, lineno) of the innermost template frame of the traceback"""
import os, tempfile, traceback
from jinja2 import Environment, FileSystemLoader


def boom(*a, **k):
    raise ZeroDivisionError("boom")


def innermost(files, main="main.html", ctx=None, **env_kw):
    d = tempfile.mkdtemp()
    for n, s in files.items():
        with open(os.path.join(d, n), "w", newline="") as f:
            f.write(s)
    env = Environment(loader=FileSystemLoader(d), **env_kw)
    env.globals["boom"] = boom
    if "jinja2.ext.i18n" in env_kw.get("extensions", ()):
        env.install_null_translations()
    try:
        env.get_template(main).render(**(ctx or {}))
    except Exception as e:
        fr = [
            (os.path.basename(f.filename), f.lineno)
            for f in traceback.extract_tb(e.__traceback__)
            if f.filename.startswith(d)
        ]
        return fr[-1] if fr else None, e
    return None, None


def check(cases):
    """cases: list of (label, files, expected (file, line), kwargs)"""
    bad = 0
    for label, files, expected, kw in cases:
        got, exc = innermost(files, **kw)
        ok = got == expected
        print(f"{'ok  ' if ok else 'FAIL'} {label}: {type(exc).__name__}: expected innermost template frame {expected}, got {got}")
        if not ok:
            for n, s in files.items():
                print(f"       {n} = {s!r}")
            bad += 1
    return bad
