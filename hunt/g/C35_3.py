# C35: {% set a.b = ... %} / {% set a.b %}...{% endset %} with `a` not a namespace raises
# TemplateRuntimeError("cannot assign attribute on non-namespace object") - the traceback
# points at the previous statement's line (or line 1), not at the set tag.
import sys
from _c35util import check
cases = [
    ("set attr at line 4", {"main.html": "{{ 1 }}\n{% set x = 5 %}\n\n{% set x.y = 1 %}\n"}, ("main.html", 4), {}),
    ("set-block attr at line 4", {"main.html": "{{ 1 }}\n{% set x = 5 %}\n\n{% set x.y %}\nq\n{% endset %}\n"}, ("main.html", 4), {}),
    ("set attr inside if inside block (line 5)", {"main.html": "{% block b %}\n{% set x = 5 %}\n{% if true %}\n\n{% set x.y = 1 %}\n{% endif %}{% endblock %}"}, ("main.html", 5), {}),
]
sys.exit(1 if check(cases) else 0)
