# C13: with trim_blocks + lstrip_blocks, an INDENTED whole-line block tag / comment that follows
# a tag ending in a right-strip modifier (-}} / -%} / -#}) works, but its line-statement /
# line-comment rewriting is not recognised at all: the `-}}\s*` of the previous tag swallows
# the line break AND the indentation, the lexer is then in the middle of a line and the
# line-statement rule (`^[ \t\v]*prefix`) / line-comment rule (`(?:^|(?<=\S))...`) cannot match.
# The statement is rendered as text (or the template no longer compiles).
import sys
from jinja2 import Environment
E = Environment(trim_blocks=True, lstrip_blocks=True)
L = Environment(trim_blocks=True, lstrip_blocks=True, line_statement_prefix="#", line_comment_prefix="##")
def r(env, src, **ctx):
    try:
        return env.from_string(src).render(**ctx)
    except Exception as e:
        return f"<{type(e).__name__}: {e}>"
cases = [
    # (block-tag form, line-statement form)
    ("{{ x -}}\n  {% set z = 1 %}\nA{{ z }}\n", "{{ x -}}\n  # set z = 1\nA{{ z }}\n"),
    ("{% if x -%}\n    {% for i in [1, 2] %}\n{{ i }}\n    {% endfor %}\n{% endif %}\n", "{% if x -%}\n    # for i in [1, 2]\n{{ i }}\n    # endfor\n{% endif %}\n"),
    ("{# c -#}\n\n  {% if x %}\nyes\n  {% endif %}\n", "{# c -#}\n\n  # if x\nyes\n  # endif\n"),
    ("{% raw %}r{% endraw -%}\n  {% if x %}\nb\n  {% endif %}", "{% raw %}r{% endraw -%}\n  # if x\nb\n  # endif"),
    # comments (compared with the `+#}` form that keeps its line break, as for the known case)
    ("{{ x -}}\n  {# note +#}\nA\n", "{{ x -}}\n  ## note\nA\n"),
]
bad = 0
for a, b in cases:
    ra, rb = r(E, a, x="x"), r(L, b, x="x")
    ok = ra == rb
    print(f"{'ok  ' if ok else 'FAIL'} {a!r} -> {ra!r}\n     {b!r} -> {rb!r}")
    bad += not ok
# control: without the indentation the two forms agree
a, b = "{{ x -}}\n{% set z = 1 %}\nA{{ z }}\n", "{{ x -}}\n# set z = 1\nA{{ z }}\n"
assert r(E, a, x="x") == r(L, b, x="x") == "xA1"
sys.exit(1 if bad else 0)
