# C13: the same operations on `Environment(...)` and on `Environment(...).overlay()` (same
# options) render differently with the bundled i18n extension: overlay() re-binds the
# extension objects (Extension.bind) but the methods published with environment.extend(...)
# (install_gettext_callables, install_null_translations, ...) are copied through __dict__ and
# stay bound to the ORIGINAL extension/environment.  `overlay.install_gettext_callables(...,
# newstyle=True)` therefore sets `newstyle_gettext` on the base environment only, while the
# (shared) globals get the new-style wrappers: templates of the overlay are compiled old-style
# against new-style callables.
import sys
from jinja2 import Environment
def g(s): return s
def ng(s, p, n): return s if n == 1 else p
def r(env, src, **ctx):
    try:
        return env.from_string(src).render(**ctx)
    except Exception as e:
        return f"<{type(e).__name__}: {e}>"
tpls = ["{% trans %}100%{% endtrans %}", "{% trans n=3 %}{{ n }}% done{% endtrans %}", "{{ gettext('%(a)s and 100%%', a='x') }}"]
plain = Environment(extensions=["jinja2.ext.i18n"])
plain.install_gettext_callables(g, ng, newstyle=True)
base = Environment(extensions=["jinja2.ext.i18n"])
ov = base.overlay()
ov.install_gettext_callables(g, ng, newstyle=True)
print("newstyle_gettext: plain", plain.newstyle_gettext, " overlay", ov.newstyle_gettext, " overlay's base", base.newstyle_gettext)
bad = 0
for t in tpls:
    a, b = r(plain, t), r(ov, t)
    ok = a == b
    print(f"{'ok  ' if ok else 'FAIL'} {t!r}: Environment -> {a!r}; overlay -> {b!r}")
    bad += not ok
sys.exit(1 if bad else 0)
