# C35: a print statement whose expression is a multi-line filter / attribute / subscript
# chain is line-marked with the line of the LAST postfix token (Filter/Getattr/Getitem nodes
# carry the line of their own name / bracket token, the compiler marks the whole output with
# the outermost node).  A call that raises on the first line of the statement is therefore
# reported on the last line of the chain - neither the line where the statement starts nor
# the line of the raising call.
import sys
from _c35util import check
cases = [
    ("filter chain", {"main.html": "line one\n{{ boom()\n   | string\n   | upper }}\n"}, ("main.html", 2), {}),
    ("attribute chain", {"main.html": "line one\n{{ boom()\n   .a\n   .b }}\n"}, ("main.html", 2), {}),
    ("subscript chain", {"main.html": "line one\n{{ boom()\n   [0]\n   [1] }}\n"}, ("main.html", 2), {}),
    ("test", {"main.html": "line one\n{{ boom()\n   is\n   none }}\n"}, ("main.html", 2), {}),
]
sys.exit(1 if check(cases) else 0)
