# C35 (entry point variant): Template.module / Template.make_module() evaluate the template
# body, and macros taken from a template module can be called from Python.  Exceptions raised
# there are NOT passed through the traceback rewriting: the innermost frame names the template
# file but carries the line number of the GENERATED python code (e.g. line 13 of a 3-line
# template).  render()/generate()/stream() rewrite correctly.
import os, sys, tempfile, traceback
from jinja2 import Environment, FileSystemLoader
def boom(): raise ZeroDivisionError("boom")
d = tempfile.mkdtemp()
open(os.path.join(d, "top.html"), "w").write("a\nb\n{{ boom() }}\n")
open(os.path.join(d, "lib.html"), "w").write("\n\n{% macro mm() %}\n\n{{ boom() }}{% endmacro %}\n")
env = Environment(loader=FileSystemLoader(d)); env.globals["boom"] = boom
def last(e):
    fr = [(os.path.basename(f.filename), f.lineno) for f in traceback.extract_tb(e.__traceback__) if f.filename.startswith(d)]
    return fr[-1]
bad = 0
for label, fn, exp in [
    ("render()", lambda: env.get_template("top.html").render(), ("top.html", 3)),
    ("Template.module", lambda: env.get_template("top.html").module, ("top.html", 3)),
    ("Template.make_module()", lambda: env.get_template("top.html").make_module(), ("top.html", 3)),
    ("macro called from python", lambda: env.get_template("lib.html").module.mm(), ("lib.html", 5)),
]:
    try:
        fn(); print("no error?", label); bad += 1
    except ZeroDivisionError as e:
        got = last(e); ok = got == exp
        print(f"{'ok  ' if ok else 'FAIL'} {label}: expected {exp}, got {got}")
        bad += not ok
sys.exit(1 if bad else 0)
