"""C06: 'the body uses varargs / kwargs / caller' is decided wrongly when an
if-branch assigns a variable of that name: the assignment is conditional, the
read on the other path is the macro's special variable, but the macro is built
as if the body never used it."""
import sys
from jinja2 import Environment

env = Environment()
bad = 0


def check(src, expected, **ctx):
    global bad
    try:
        out = env.from_string(src).render(**ctx)
    except Exception as e:  # noqa
        out = f"{type(e).__name__}: {e}"
    ok = out == expected
    if not ok:
        bad += 1
    print(("ok   " if ok else "FAIL ") + src)
    print(f"      ctx={ctx} got={out!r} expected={expected!r}")


# control: without the (dead) conditional assignment everything binds
check("{% macro m() %}[{{ varargs }}]{% endmacro %}{{ m(5) }}", "[(5,)]")
check("{% macro m() %}{% if x %}{% else %}[{{ varargs }}]{% endif %}{% endmacro %}{{ m(5) }}", "[(5,)]", x=False)

# the else branch is the only one that runs; it reads the special varargs
check("{% macro m() %}{% if x %}{% set varargs = 1 %}{% else %}[{{ varargs }}]{% endif %}{% endmacro %}{{ m(5) }}",
      "[(5,)]", x=False)
# read after a conditional assignment that did not happen
check("{% macro m() %}{% if x %}{% set varargs = 1 %}{% endif %}[{{ varargs }}]{% endmacro %}{{ m(5) }}",
      "[(5,)]", x=False)
check("{% macro m() %}{% if x %}{% set kwargs = 1 %}{% endif %}[{{ kwargs }}]{% endmacro %}{{ m(z=5) }}",
      "[{'z': 5}]", x=False)
check("{% macro m() %}{% if x %}{% set caller = 1 %}{% endif %}[{{ caller() }}]{% endmacro %}"
      "{% call m() %}c{% endcall %}", "[c]", x=False)
# same through the template module
t = env.from_string("{% macro m() %}{% if x %}{% set varargs = 1 %}{% else %}[{{ varargs }}]{% endif %}{% endmacro %}")
try:
    out = str(t.make_module({"x": False}).m(5))
except Exception as e:  # noqa
    out = f"{type(e).__name__}: {e}"
print("module call m(5):", repr(out))
if out != "[(5,)]":
    bad += 1

sys.exit(1 if bad else 0)
