"""C06: a macro whose body declares a LOCAL macro / imported name called
kwargs, varargs or caller and only uses that local name is built as if it used
the implicit special variable: unknown keywords, surplus positional arguments
and call blocks are swallowed silently instead of failing with TypeError."""
import sys
from jinja2 import Environment, DictLoader

env = Environment(loader=DictLoader({
    "lib": "{% macro kwargs() %}K{% endmacro %}{% macro varargs() %}V{% endmacro %}"
}))
bad = 0


def check(src, expect_typeerror, **ctx):
    global bad
    try:
        out = env.from_string(src).render(**ctx)
    except TypeError as e:
        out = f"TypeError: {e}"
        ok = expect_typeerror
    except Exception as e:  # noqa
        out = f"{type(e).__name__}: {e}"
        ok = False
    else:
        ok = not expect_typeerror
    if not ok:
        bad += 1
    print(("ok   " if ok else "FAIL ") + src)
    print(f"      got={out!r} expected={'TypeError' if expect_typeerror else 'a rendering'}")


# controls: the same bodies with a differently named local are rejected
check("{% macro m() %}{% macro kw() %}k{% endmacro %}{{ kw() }}{% endmacro %}{{ m(zz=1) }}", True)
check("{% macro m() %}{% set kwargs = 1 %}{{ kwargs }}{% endmacro %}{{ m(zz=1) }}", True)
check("{% macro m() %}{% macro c() %}L{% endmacro %}{{ c() }}{% endmacro %}{% call m() %}x{% endcall %}", True)

# the name is bound by a nested macro definition: the body never reads the implicit variable
check("{% macro m() %}{% macro kwargs() %}k{% endmacro %}{{ kwargs() }}{% endmacro %}{{ m(zz=1) }}", True)
check("{% macro m() %}{% macro varargs() %}v{% endmacro %}{{ varargs() }}{% endmacro %}{{ m(1, 2) }}", True)
check("{% macro m() %}{% macro caller() %}L{% endmacro %}{{ caller() }}{% endmacro %}{% call m() %}x{% endcall %}", True)
# ... or by an import inside the body
check("{% macro m() %}{% from 'lib' import kwargs %}{{ kwargs() }}{% endmacro %}{{ m(zz=1) }}", True)
check("{% macro m() %}{% import 'lib' as varargs %}{{ varargs.kwargs() }}{% endmacro %}{{ m(1) }}", True)

sys.exit(1 if bad else 0)
