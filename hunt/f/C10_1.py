"""C10: dump() to an encoded target does not reproduce render() for a codec
whose stdlib incremental encoder is not really incremental (punycode).

TemplateStream.dump(fp, encoding) feeds each piece to
codecs.getincrementalencoder(encoding)().encode(piece).  encodings.punycode's
IncrementalEncoder encodes every call as a complete punycode string, so the
bytes written are the concatenation of per-piece encodings; decoding the file
with the same codec does not give back the rendered text.
"""
import io
import os
import sys
import tempfile

from jinja2 import Environment

env = Environment()
cases = [
    ("{{ a }}{{ b }}", {"a": "ab", "b": "cd"}),
    ("x{{ a }}", {"a": "é"}),
    ("{% for w in ws %}{{ w }}{% endfor %}", {"ws": ["bü", "cher"]}),
]
encoding = "punycode"
failed = False

for src, data in cases:
    t = env.from_string(src)
    text = t.render(**data)
    # the codec itself round-trips the rendered text
    assert text.encode(encoding).decode(encoding) == text

    results = {}
    b = io.BytesIO()
    t.stream(**data).dump(b, encoding)
    results["file object"] = b.getvalue()

    fd, path = tempfile.mkstemp()
    os.close(fd)
    try:
        t.stream(**data).dump(path, encoding)
        with open(path, "rb") as f:
            results["path"] = f.read()
    finally:
        os.unlink(path)

    s = t.stream(**data)
    s.enable_buffering(2)
    b = io.BytesIO()
    s.dump(b, encoding)
    results["file object, buffer size 2"] = b.getvalue()

    for how, raw in results.items():
        try:
            back = raw.decode(encoding)
        except Exception as e:  # noqa: BLE001
            back = f"<{type(e).__name__}: {e}>"
        if back != text:
            failed = True
            print(
                f"{src!r} {data!r}: render() -> {text!r} but dump({how}, {encoding!r})"
                f" wrote {raw!r} which decodes to {back!r}"
                f" (whole-text encoding is {text.encode(encoding)!r})"
            )

sys.exit(1 if failed else 0)
