"""C12: a raw tag carrying '+' on its right side ({% raw +%}) is rejected.

The documented rule is that a '+' at the end of a block tag disables the
automatic trim_blocks trimming for that tag.  {% endraw +%}, {% if x +%} and
{# c +#} all accept it; {% raw +%} raises TemplateSyntaxError("Encountered
unknown tag 'raw'") under every trim_blocks / lstrip_blocks setting, so the
rendered output is not the one the documented rules give.
"""
import sys

from jinja2 import Environment

SRC_PLUS = "A\n{% raw +%}\n  {{ body }}\n{% endraw %}\nB"
# The newline after the opening raw tag belongs to the raw body and is never
# trimmed, so '+' has nothing to disable: expected text == text of the same
# template without the '+'.
EXPECTED = {
    # (trim_blocks, lstrip_blocks): text by the documented rules
    (False, False): "A\n\n  {{ body }}\n\nB",
    (False, True): "A\n\n  {{ body }}\n\nB",
    (True, False): "A\n\n  {{ body }}\nB",   # newline after {% endraw %} trimmed
    (True, True): "A\n\n  {{ body }}\nB",
}

failed = False
for (trim, lstrip), expected in EXPECTED.items():
    env = Environment(trim_blocks=trim, lstrip_blocks=lstrip)
    # sanity: the same template without '+' gives the expected text
    plain = env.from_string(SRC_PLUS.replace(" +%}", " %}")).render()
    assert plain == expected, (plain, expected)
    # sanity: '+' is accepted on the other tag kinds / sides
    assert env.from_string("{%+ raw %}x{%+ endraw +%}").render() == "x"
    assert env.from_string("{%+ if true +%}x{%+ endif +%}{#+ c +#}").render() == "x"
    try:
        got = env.from_string(SRC_PLUS).render()
    except Exception as e:  # noqa: BLE001
        got = f"<{type(e).__name__}: {e}>"
    if got != expected:
        failed = True
        print(
            f"trim_blocks={trim} lstrip_blocks={lstrip}: {SRC_PLUS!r}\n"
            f"   expected {expected!r}\n   got      {got}"
        )

sys.exit(1 if failed else 0)
