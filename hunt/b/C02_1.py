"""C02: in an async environment map/select/reject/selectattr/rejectattr return async generators,
which the sync-only built-in filters, tests and operators (sort, min, max, reverse, batch, `in`,
`is iterable`, ...) cannot consume: the same expression on the same data gives a value in the
default/sandboxed/unoptimized environments and a TypeError in the async one."""
import asyncio, sys
from jinja2 import Environment

def ev(src, ctx, **kw):
    env = Environment(**kw)
    try:
        t = env.from_string(src)
        return asyncio.run(t.render_async(**ctx)) if env.is_async else t.render(**ctx)
    except Exception as e:
        return "%s: %s" % (type(e).__name__, e)

bad = False
ctx = {"xs": [3, -1, 2], "users": [{"name": "b"}, {"name": "a"}]}
for expr in ('xs|map("abs")|sort', 'users|map(attribute="name")|sort|join(",")', 'xs|select("odd")|max',
             'xs|map("abs")|reverse|list', 'xs|map("abs")|batch(2)|list', '1 in xs|map("abs")',
             'xs|map("abs") is iterable'):
    src = "{{ %s }}" % expr
    a, b = ev(src, ctx), ev(src, ctx, enable_async=True)
    print("%-48s sync=%r  async=%r" % (src, a, b))
    bad |= a != b
if bad:
    print("VIOLATION: async environment evaluates the expression differently")
sys.exit(1 if bad else 0)
