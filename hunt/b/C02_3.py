"""C02: compile_expression in an async environment cannot be evaluated at all."""
import sys
from jinja2 import Environment

expected = Environment().compile_expression("1 + x")(x=2)
try:
    got = Environment(enable_async=True).compile_expression("1 + x")(x=2)
except Exception as e:
    got = "%s: %s" % (type(e).__name__, e)
print("default:", repr(expected))
print("async  :", repr(got))
if got != expected:
    print("VIOLATION: compile_expression differs under enable_async=True")
    sys.exit(1)
sys.exit(0)
