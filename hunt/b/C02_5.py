"""C02: in a sandboxed environment str.format / format_map are replaced by a formatter that resolves
field attributes/items with the *template* lookup rules (attribute<->item fallback, undefined instead of
errors): the same call on harmless data gives a different value or error class."""
import sys
from jinja2 import Environment
from jinja2.sandbox import SandboxedEnvironment

class O:
    a = 1

def ev(cls, src, ctx):
    try:
        return cls().from_string(src).render(**ctx)
    except Exception as e:
        return "raises " + type(e).__name__

ctx = {"o": O(), "d": {"a": 1}, "lst": [1, 2]}
bad = False
for expr in ('"{0.a}".format(d)', '"{0[a]}".format(o)', '"{0.zz}".format(o)', '"{0[zz]}".format(d)',
             '"{0[x]}".format(lst)', '"{0}".format_map(d)'):
    src = "{{ %s }}" % expr
    a, b = ev(Environment, src, ctx), ev(SandboxedEnvironment, src, ctx)
    print("%-30s default=%-22r sandboxed=%r" % (src, a, b))
    bad |= a != b
if bad:
    print("VIOLATION: sandboxed environment evaluates a method call on safe data differently")
sys.exit(1 if bad else 0)
