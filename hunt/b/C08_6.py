"""C08 under NativeEnvironment: a folded output constant is always written as its str() text and
re-parsed with literal_eval; for a container holding a Markup value the text is not a literal, so
the constant renders as a str while the same value in a variable renders as the container."""
import sys
from jinja2.nativetypes import NativeEnvironment
from markupsafe import Markup

env = NativeEnvironment()
c = env.from_string('{{ ["<b>"|safe] }}').render()
v = env.from_string('{{ x }}').render(x=[Markup("<b>")])
u = env.from_string('{{ [y|safe] }}').render(y="<b>")          # constant "<b>" lifted to a variable
print("constant        :", type(c).__name__, repr(c))
print("whole value var :", type(v).__name__, repr(v))
print("leaf lifted     :", type(u).__name__, repr(u))
if not (c == v == u):
    print("VIOLATION: the folded constant renders differently from the same value computed at run time")
    sys.exit(1)
sys.exit(0)
