"""C08: `a is sameas b` on two equal constants folds to False (two token objects), but the
unfolded generated code `t_1(1000, 1000)` compares one merged code-object constant -> True."""
import sys
from jinja2 import Environment

bad = False
for src in ('{% set r = 1000 is sameas 1000 %}{{ r }}',
            '{% set r = "ab cd" is sameas "ab cd" %}{{ r }}',
            '{% set r = 2.5 is sameas 2.5 %}{{ r }}',
            '{% if 1000 is sameas 1000 %}same{% else %}different{% endif %}'):
    a = Environment().from_string(src).render()
    b = Environment(optimized=False).from_string(src).render()
    print("%-60s optimized=%r unoptimized=%r" % (src, a, b))
    bad |= a != b
if bad:
    print("VIOLATION: the optimizer changes the result of the sameas test")
sys.exit(1 if bad else 0)
