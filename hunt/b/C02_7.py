"""C02: a call with an explicit keyword that is a Python keyword (class, for, ...) is compiled as
f(**dict({'class': v}, **dyn)); a repeated key in the ** mapping then silently overrides the explicit
keyword, while for every other keyword name the repeated keyword raises TypeError."""
import sys
from jinja2 import Environment

def f(**kw):
    return sorted(kw.items())

def ev(src, ctx):
    try:
        return Environment().from_string(src).render(f=f, **ctx)
    except Exception as e:
        return "raises " + type(e).__name__

a = ev('{{ f(cls=1, **d) }}', {"d": {"cls": 2}})
b = ev('{{ f(class=1, **d) }}', {"d": {"class": 2}})
print("f(cls=1, **{'cls': 2})     ->", a)
print("f(class=1, **{'class': 2}) ->", b)
if a.startswith("raises") != b.startswith("raises"):
    print("VIOLATION: the repeated keyword is an error for 'cls' but silently merged for 'class'")
    sys.exit(1)
sys.exit(0)
