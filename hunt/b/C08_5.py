"""C08: `and` / `or` folding throws away the never-evaluated right operand at compile time,
including the compile-time check that its filters/tests exist: the optimized template renders,
the unoptimized one (and the constant-lifted one) fails to compile."""
import sys
from jinja2 import Environment

def render(src, **kw):
    ctx = kw.pop("ctx", {})
    try:
        return Environment(**kw).from_string(src).render(**ctx)
    except Exception as e:
        return "%s: %s" % (type(e).__name__, e)

bad = False
for src, lifted, ctx in (
    ('{% set r = false and (1 is nosuchtest) %}{{ r }}', '{% set r = f and (1 is nosuchtest) %}{{ r }}', {"f": False}),
    ('{% set r = 1 or (1|nosuchfilter) %}{{ r }}', '{% set r = t or (1|nosuchfilter) %}{{ r }}', {"t": 1}),
):
    a = render(src)
    b = render(src, optimized=False)
    c = render(lifted, ctx=ctx)
    print(src)
    print("   optimized      :", repr(a))
    print("   unoptimized    :", repr(b))
    print("   constant lifted:", repr(c))
    bad |= not (a == b == c)
if bad:
    print("VIOLATION: folding turns a template that does not compile into one that renders")
sys.exit(1 if bad else 0)
