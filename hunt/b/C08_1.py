"""C08: a constant filter expression inside a macro is folded with the compile-time
autoescape flag of the definition site, while the same expression on a variable (or with
optimized=False) is evaluated with the run-time flag of the call site."""
import sys
from jinja2 import Environment
from markupsafe import Markup

SRC = (
    '{% macro m() %}'
    '{% set c = ["<a>", "<b>"|safe]|join(",") %}'   # constant subexpression
    '{% set v = L|join(",") %}'                      # same value, held by a context variable
    '{{ c }}|{{ v }}'
    '{% endmacro %}'
    '{% autoescape false %}{{ m() }}{% endautoescape %}'
)
L = ["<a>", Markup("<b>")]

out = {}
for opt in (True, False):
    out[opt] = Environment(autoescape=True, optimized=opt).from_string(SRC).render(L=L)
    print("optimized=%-5s -> %r" % (opt, out[opt]))

bad = False
c, v = out[True].split("|")
if c != v:
    print("VIOLATION: constant renders %r, the same value in a variable renders %r" % (c, v))
    bad = True
if out[True] != out[False]:
    print("VIOLATION: optimized and unoptimized renderings differ")
    bad = True
sys.exit(1 if bad else 0)
