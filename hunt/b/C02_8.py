"""C02: two different template variables whose names are NFKC-equivalent (a / ª, fi / ﬁ) share one
Python local in the generated code (Python NFKC-normalises identifiers): looking up one context value
yields the value of the other."""
import sys
from jinja2 import Environment

env = Environment()
bad = False
for src, ctx, expected in (
    ('{{ a }}|{{ ª }}', {'a': 1, 'ª': 2}, '1|2'),
    ('{{ fi }}|{{ ﬁ }}', {'fi': 1, 'ﬁ': 2}, '1|2'),
    ('{% set ª = 5 %}{{ a }}', {'a': 1}, '1'),
    ('{{ a }}{{ ª is defined }}', {'a': 1}, '1False'),
):
    got = env.from_string(src).render(**ctx)
    ok = got == expected
    print("%-28s %-22r -> %r   expected %r  %s" % (src, ctx, got, expected, "ok" if ok else "WRONG"))
    bad |= not ok
if bad:
    print("VIOLATION: a name lookup returns the value of a different variable")
sys.exit(1 if bad else 0)
