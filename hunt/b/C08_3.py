"""C08: folding `[[]] * 2` writes the value as the literal [[], []]: the two inner lists, one
shared object in the unfolded evaluation, become two distinct objects."""
import sys
from jinja2 import Environment

SRC = '{% set x = [[]] * 2 %}{{ x[0].append(1) }}{{ x }}'
LIFTED = '{% set x = [[]] * n %}{{ x[0].append(1) }}{{ x }}'     # constant 2 replaced by a variable

res = {
    "optimized": Environment().from_string(SRC).render(),
    "unoptimized": Environment(optimized=False).from_string(SRC).render(),
    "constant lifted (n=2)": Environment().from_string(LIFTED).render(n=2),
}
for k, v in res.items():
    print("%-22s %r" % (k, v))
if len(set(res.values())) != 1:
    print("VIOLATION: constant folding changed the rendering")
    sys.exit(1)
sys.exit(0)
