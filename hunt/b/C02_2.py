"""C02: a backslash followed by a non-ASCII character in a string literal: the lexer's
encode('ascii', 'backslashreplace').decode('unicode-escape') round trip turns the character into the
*text* of its escape (\\xe9, \\u20ac): the literal loses the character."""
import sys
from jinja2 import Environment

env = Environment()
bad = False
for src, expected in ((r'{{ "C:\é" }}', 'C:\\é'), (r'{{ "a\€b" }}', 'a\\€b'), (r'{{ "a\€b"|length }}', '4'),
                      (r'{{ "\é" == "\\é" }}', 'True'), (r'{{ "\d" == "\\d" }}', 'True')):
    got = env.from_string(src).render()
    ok = got == expected
    print("%-28s -> %r   expected %r   %s" % (src, got, expected, "ok" if ok else "WRONG"))
    bad |= not ok
if bad:
    print("VIOLATION: string literal value is not the text between the quotes")
sys.exit(1 if bad else 0)
