"""C02: sum filter with a str start value: TypeError in sync environments (builtin sum refuses strings),
a concatenated string in the async environment (manual loop)."""
import asyncio, sys
from jinja2 import Environment

def ev(src, **kw):
    env = Environment(**kw)
    try:
        t = env.from_string(src)
        return asyncio.run(t.render_async()) if env.is_async else t.render()
    except Exception as e:
        return "raises " + type(e).__name__
bad = False
for src in ('{{ ["a", "b"]|sum(start="") }}', '{{ []|sum(start="x") }}', '{{ [{"n": "a"}]|sum(attribute="n", start="") }}'):
    a, b = ev(src), ev(src, enable_async=True)
    print("%-50s sync=%r async=%r" % (src, a, b))
    bad |= a != b
if bad:
    print("VIOLATION: the sum filter evaluates differently in the async environment")
sys.exit(1 if bad else 0)
