"""C08: a {% block %} inside an autoescape block whose flag is decided at run time is compiled with
the template-level (static) eval context, so a constant eval-context filter expression is folded with
the wrong autoescape flag."""
import sys
from jinja2 import Environment
from markupsafe import Markup

SRC = (
    '{% autoescape ae %}{% block b %}'
    '{% set c = ["<a>", "<b>"|safe]|join(",") %}'
    '{% set v = L|join(",") %}'
    '{{ c }}|{{ v }}'
    '{% endblock %}{% endautoescape %}'
)
L = ["<a>", Markup("<b>")]
out = {}
for opt in (True, False):
    out[opt] = Environment(autoescape=False, optimized=opt).from_string(SRC).render(L=L, ae=True)
    print("optimized=%-5s -> %r" % (opt, out[opt]))
bad = False
c, v = out[True].split("|")
if c != v:
    print("VIOLATION: constant renders %r, the same value in a variable renders %r" % (c, v))
    bad = True
if out[True] != out[False]:
    print("VIOLATION: optimized and unoptimized renderings differ")
    bad = True
sys.exit(1 if bad else 0)
