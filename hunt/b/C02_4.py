"""C02: SandboxedEnvironment.getitem/getattr do not catch AttributeError from obj[...], the default
Environment does: a missing value becomes undefined in the default environment and an
AttributeError in the sandboxed one."""
import sys
from jinja2 import Environment
from jinja2.sandbox import SandboxedEnvironment

class Record:
    """items are looked up as attributes - a common delegation pattern"""
    x = 5
    def __getitem__(self, key):
        return getattr(self, key)

def ev(cls, src):
    try:
        return cls().from_string(src).render(o=Record())
    except Exception as e:
        return "%s: %s" % (type(e).__name__, e)

bad = False
for src in ('{{ o["missing"] is defined }}', '{{ o.missing is defined }}', '{{ o.missing|default("-") }}', '{{ o["x"] }}{{ o.x }}'):
    a, b = ev(Environment, src), ev(SandboxedEnvironment, src)
    print("%-34s default=%r sandboxed=%r" % (src, a, b))
    bad |= a != b
if bad:
    print("VIOLATION: sandboxed environment raises instead of producing the undefined object")
sys.exit(1 if bad else 0)
