"""C23 (marginal): round with method ceil/floor raises for non-finite floats, although the
default method returns them unchanged (and ceil/floor of +-inf / nan are themselves)."""
import math
import sys

from jinja2 import Environment

env = Environment()
bad = 0
for name, v in [("inf", math.inf), ("-inf", -math.inf), ("nan", math.nan)]:
    base = env.call_filter("round", v)  # common: returns inf / -inf / nan
    assert (math.isnan(base) and math.isnan(v)) or base == v
    for method in ("ceil", "floor"):
        for prec in (0, 2):
            try:
                out = env.call_filter("round", v, [prec, method])
                ok = (math.isnan(out) and math.isnan(v)) or out == v
            except Exception as e:
                ok = False
                out = f"raises {type(e).__name__}: {e}"
            if not ok:
                bad += 1
                print(f"{name}|round({prec}, {method!r}) -> {out}    ({name}|round({prec}) -> {base})")
sys.exit(1 if bad else 0)
