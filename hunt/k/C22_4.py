"""C22: an attribute name made of Unicode digit characters that int() rejects makes every
attribute-taking collection filter crash with an internal ValueError."""
import sys

from jinja2 import Environment

env = Environment()
data = [{"²": 2, "n": "b"}, {"²": 1, "n": "a"}]  # key is SUPERSCRIPT TWO
bad = 0
# control: plain subscript works
assert env.from_string("{{ x[0]['²'] }}").render(x=data) == "2"

for src, expected in [
    ("{{ x|map(attribute='²')|list }}", "[2, 1]"),
    ("{{ x|sort(attribute='²')|map(attribute='n')|list }}", "['a', 'b']"),
    ("{{ x|sum(attribute='²') }}", "3"),
    ("{{ x|selectattr('²', 'eq', 1)|map(attribute='n')|list }}", "['a']"),
    ("{{ x|groupby('²')|map('first')|list }}", "[1, 2]"),
    ("{{ x|min(attribute='²') }}", str(data[1])),
    ("{{ x|unique(attribute='²')|list|length }}", "2"),
    ("{{ x|join(',', attribute='²') }}", "2,1"),
]:
    try:
        got = env.from_string(src).render(x=data)
    except Exception as e:
        got = f"raises {type(e).__name__}: {e}"
    if got != expected:
        bad += 1
        print(f"{src}\n   expected {expected}\n   got      {got}")

sys.exit(1 if bad else 0)
