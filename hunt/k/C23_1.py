"""C23: urlencode silently produces a wrong query string for a Mapping that is not a dict."""
import collections
import sys
import types
from urllib.parse import urlencode

from jinja2 import Environment

env = Environment()
t = env.from_string("{{ x|urlencode }}")
d = {"ab": 1, "q": "x y"}
expected = t.render(x=d)
assert expected == urlencode(d) == "ab=1&q=x+y"


class MyMapping(collections.abc.Mapping):
    def __init__(self, d):
        self._d = d

    def __getitem__(self, k):
        return self._d[k]

    def __iter__(self):
        return iter(self._d)

    def __len__(self):
        return len(self._d)


bad = 0
for name, m in [
    ("types.MappingProxyType", types.MappingProxyType(d)),
    ("collections.ChainMap", collections.ChainMap(d)),
    ("collections.abc.Mapping subclass", MyMapping(d)),
    ("collections.UserDict", collections.UserDict(d)),
]:
    try:
        got = t.render(x=m)
    except Exception as e:
        got = f"raises {type(e).__name__}: {e}"
    if got != expected:
        bad += 1
        print(f"{name}({d}) | urlencode -> {got!r}   expected {expected!r} (= urllib.parse.urlencode)")

# silently wrong (no exception) when every key happens to have two characters
d2 = {"ab": 1, "id": 7}
got = t.render(x=types.MappingProxyType(d2))
if got != t.render(x=d2):
    bad += 1
    print(f"MappingProxyType({d2}) | urlencode -> {got!r}   expected {t.render(x=d2)!r}  (silently wrong)")

sys.exit(1 if bad else 0)
