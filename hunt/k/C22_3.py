"""C22: in an async environment sort / min / max / batch / reverse cannot consume the
async generators that select / reject / map (and user data) produce there."""
import asyncio
import sys

from jinja2 import Environment

env = Environment()
aenv = Environment(enable_async=True)


def sync(src, **ctx):
    try:
        return env.from_string(src).render(**ctx)
    except Exception as e:
        return f"raises {type(e).__name__}: {e}"


def asyn(src, **ctx):
    try:
        return asyncio.run(aenv.from_string(src).render_async(**ctx))
    except Exception as e:
        return f"raises {type(e).__name__}: {e}"


x = [3, 1, 2, 5]
bad = 0
for src, expected in [
    ("{{ x|select('odd')|sort }}", "[1, 3, 5]"),
    ("{{ x|map('abs')|sort(reverse=true) }}", "[5, 3, 2, 1]"),
    ("{{ x|select('odd')|min }}", "1"),
    ("{{ x|reject('odd')|max }}", "2"),
    ("{{ x|select('odd')|batch(2)|list }}", "[[3, 1], [5]]"),
    ("{{ x|select('odd')|reverse|list }}", "[5, 1, 3]"),
    # filters that do have an async variant are fine, e.g.:
    ("{{ x|select('odd')|unique|list }}", "[3, 1, 5]"),
    ("{{ x|select('odd')|slice(2)|list }}", "[[3, 1], [5]]"),
]:
    s, a = sync(src, x=x), asyn(src, x=x)
    assert s == expected, (src, s)
    if a != s:
        bad += 1
        print(f"{src}\n   sync env : {s}\n   async env: {a}")


async def agen():
    for i in x:
        yield i


async def direct():
    try:
        return aenv.call_filter("sort", agen())
    except Exception as e:
        return f"raises {type(e).__name__}: {e}"


d = asyncio.run(direct())
if d != sorted(x):
    bad += 1
    print(f"aenv.call_filter('sort', <async generator 3,1,2,5>) -> {d}   expected {sorted(x)}")

sys.exit(1 if bad else 0)
