"""C23: indent with a Markup indentation string and a plain-str text HTML-escapes the text of
some lines but not others (and some lines twice), i.e. it changes the text instead of only
inserting the indentation."""
import sys

from jinja2 import Environment
from markupsafe import Markup

env = Environment()
bad = 0

text = "if a < b:\nx = a & b\ny = '>'"
for first in (False, True):
    for blank in (False, True):
        plain = env.call_filter("indent", text, ["> ", first, blank])  # str indentation: reference
        out = env.call_filter("indent", text, [Markup("> "), first, blank])
        # acceptable: the same text, either as plain str or consistently escaped Markup
        ok = (not isinstance(out, Markup) and out == plain) or (
            isinstance(out, Markup) and out.unescape() == plain
        )
        if not ok:
            bad += 1
            print(
                f"indent(width=Markup('> '), first={first}, blank={blank}) of {text!r}\n"
                f"   -> {type(out).__name__} {str(out)!r}\n   reference (width='> '): {plain!r}"
            )

# template level, no autoescape: only the first line survives unescaped
got = env.from_string("{{ t|indent(width=w) }}").render(t="<a>\n<b>", w=Markup("  "))
if got != "<a>\n  <b>":
    bad += 1
    print(f"'<a>\\n<b>'|indent(width=Markup('  ')) -> {got!r}   expected '<a>\\n  <b>'")

# autoescape: later lines are escaped twice
aenv = Environment(autoescape=True)
got = aenv.from_string("{{ t|indent(width=w) }}").render(t="<a>\n<b>", w=Markup("  "))
if got != "&lt;a&gt;\n  &lt;b&gt;":
    bad += 1
    print(f"autoescape: '<a>\\n<b>'|indent(width=Markup('  ')) -> {got!r}   expected '&lt;a&gt;\\n  &lt;b&gt;'")

sys.exit(1 if bad else 0)
