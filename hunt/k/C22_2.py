"""C22: select / reject / selectattr / rejectattr ignore the result of an async test
(the coroutine object is used as the truth value), although the same test is awaited
everywhere else in an async environment (``x is big``) and map() awaits async filters."""
import asyncio
import sys
import warnings

from jinja2 import Environment

warnings.simplefilter("ignore", RuntimeWarning)  # "coroutine ... was never awaited"


async def big(x, limit=2):
    return x > limit


def big_sync(x, limit=2):
    return x > limit


aenv = Environment(enable_async=True)
aenv.tests["big"] = big
env = Environment()
env.tests["big"] = big_sync


def asyn(src, **ctx):
    return asyncio.run(aenv.from_string(src).render_async(**ctx))


def sync(src, **ctx):
    return env.from_string(src).render(**ctx)


nums = [1, 2, 3, 4]
objs = [{"a": 1}, {"a": 5}]
bad = 0

# the test itself works (is awaited) in the async environment:
ctl = asyn("{% for n in x %}{{ 'T' if n is big else 'F' }}{% endfor %}", x=nums)
assert ctl == "FFTT", ctl

cases = [
    ("{{ x|select('big')|list }}", nums, str([n for n in nums if n > 2])),
    ("{{ x|reject('big')|list }}", nums, str([n for n in nums if not n > 2])),
    ("{{ x|select('big', 3)|list }}", nums, str([n for n in nums if n > 3])),
    ("{{ x|selectattr('a', 'big')|list }}", objs, str([o for o in objs if o["a"] > 2])),
    ("{{ x|rejectattr('a', 'big')|list }}", objs, str([o for o in objs if not o["a"] > 2])),
]
for src, x, expected in cases:
    got = asyn(src, x=x)
    assert sync(src, x=x) == expected
    if got != expected:
        bad += 1
        print(f"{src}  x={x}\n   expected (python definition, = sync env): {expected}\n   async env: {got}")

sys.exit(1 if bad else 0)
