"""C22: the async variant of the sum filter does not return what the sync one returns."""
import asyncio
import sys

from jinja2 import Environment

env = Environment()
aenv = Environment(enable_async=True)


def sync(src, **ctx):
    try:
        return env.from_string(src).render(**ctx)
    except Exception as e:
        return f"raises {type(e).__name__}: {e}"


def asyn(src, **ctx):
    try:
        return asyncio.run(aenv.from_string(src).render_async(**ctx))
    except Exception as e:
        return f"raises {type(e).__name__}: {e}"


bad = 0
cases = [
    ("{{ x|sum }}", dict(x=[0.1] * 10)),
    ("{{ x|sum }}", dict(x=[1e16, 1.0, -1e16])),
    ("{{ x|sum(attribute='p') }}", dict(x=[{"p": 0.1}] * 10)),
    ("{{ x|sum(start='') }}", dict(x=["a", "b"])),
]
for src, ctx in cases:
    s, a = sync(src, **ctx), asyn(src, **ctx)
    py = None
    if "start" not in src and "attribute" not in src:
        py = sum(ctx["x"])
    if s != a:
        bad += 1
        print(f"{src} with {ctx}:\n   sync  env -> {s}\n   async env -> {a}\n   python sum -> {py}")

# and directly through call_filter
v = [0.1] * 10
s = env.call_filter("sum", v)
a = asyncio.run(aenv.call_filter("sum", v))
if s != a:
    bad += 1
    print(f"call_filter('sum', [0.1]*10): sync {s!r} async {a!r} builtin sum {sum(v)!r}")

sys.exit(1 if bad else 0)
