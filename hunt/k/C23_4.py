"""C23 (marginal): truncate returns a string longer than length (+ leeway) when the text is
Markup and `end` contains a character that Markup.__add__ escapes (or vice versa)."""
import sys

from jinja2 import Environment
from markupsafe import Markup

env = Environment(autoescape=True)
bad = 0
for s, length, kill, end, leeway in [
    (Markup("a" * 30), 10, True, " & more", 0),
    (Markup("word " * 10), 12, False, " >>", 0),
    (Markup("a" * 30), 10, True, "\"'\"'\"'", 2),
    ("<" * 30, 10, True, Markup("..."), 0),  # plain text, Markup end
]:
    out = env.call_filter("truncate", s, [length, kill, end, leeway])
    if len(out) > length + leeway:
        bad += 1
        print(
            f"{type(s).__name__}({str(s)[:12]!r}...)|truncate({length}, {kill}, {type(end).__name__}({str(end)!r}), {leeway})"
            f" -> {str(out)!r}  len {len(out)} > {length}+{leeway}"
        )
    # control: all-str arguments obey the bound
    ctl = env.call_filter("truncate", str(s), [length, kill, str(end), leeway])
    assert len(ctl) <= length + leeway, ctl

sys.exit(1 if bad else 0)
