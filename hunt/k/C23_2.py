"""C23: round with the default method returns an int (not the documented float) for an int
input, so the three methods disagree on the same value."""
import sys

from jinja2 import Environment

env = Environment()
bad = 0
for src, expected in [
    ("{{ 42|round }}", "42.0"),
    ("{{ 42|round(0, 'common') }}", "42.0"),
    ("{{ 1234|round(-2) }}", "1200.0"),
    ("{{ 42|round(2) }}", "42.0"),
    ("{{ (7 // 2)|round }}", "3.0"),
    ("{{ items|length|round }}", "3.0"),
    ("{{ 42|round is float }}", "True"),
    # controls - the other methods and float input do return floats
    ("{{ 42|round(0, 'ceil') }}", "42.0"),
    ("{{ 42|round(0, 'floor') }}", "42.0"),
    ("{{ 1234|round(-2, 'floor') }}", "1200.0"),
    ("{{ 42.0|round }}", "42.0"),
]:
    got = env.from_string(src).render(items=[1, 2, 3])
    if got != expected:
        bad += 1
        print(f"{src} -> {got}   expected {expected}")

rv = env.call_filter("round", 42)
if not isinstance(rv, float):
    bad += 1
    print(f"call_filter('round', 42) -> {rv!r} of type {type(rv).__name__}; documented: a float is returned")

sys.exit(1 if bad else 0)
