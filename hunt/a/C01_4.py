"""C01 (extension-enabled environment): new-style gettext trans blocks turn the trans variables into
keyword arguments; duplicates are detected on raw strings only, Python compares NFKC forms."""
import sys
from jinja2 import Environment, TemplateSyntaxError

env = Environment(extensions=["jinja2.ext.i18n"])
env.install_null_translations(newstyle=True)
LIG = "ﬁ"  # LATIN SMALL LIGATURE FI, NFKC -> "fi"
cases = [
    "{%% trans %s=1, fi=2 %%}{{ %s }}{{ fi }}{%% endtrans %%}" % (LIG, LIG),
    "{%% trans %%}{{ %s }} and {{ fi }}{%% endtrans %%}" % LIG,
    "{%% trans fi=a %%}one {{ fi }}{%% pluralize %%}many {{ %s }}{%% endtrans %%}" % LIG,
]
bad = 0
for src in cases:
    try:
        env.from_string(src)
        print("ok (compiled):", ascii(src))
    except TemplateSyntaxError as e:
        print("ok (TemplateSyntaxError):", ascii(src), e)
    except BaseException as e:
        bad += 1
        print("VIOLATION:", ascii(src), "->", type(e).__name__, e)
sys.exit(1 if bad else 0)
