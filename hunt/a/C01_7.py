"""C01 ("never hangs"): Environment(line_comment_prefix="") passes the library's configuration check, and
then loading ANY source (even the empty string) loops forever in Lexer.tokeniter."""
import signal, sys
from jinja2 import Environment, TemplateSyntaxError

class Hang(Exception):
    pass
def on_alarm(*a):
    raise Hang()
signal.signal(signal.SIGALRM, on_alarm)

env = Environment(line_comment_prefix="")      # accepted: _environment_config_check does not object
bad = 0
for src in ["", "hello", "{{ x }}\n", "a\nb\n"]:
    signal.alarm(5)
    try:
        env.from_string(src)
        print("ok (compiled):", repr(src))
    except TemplateSyntaxError as e:
        print("ok (TemplateSyntaxError):", repr(src), e)
    except Hang:
        bad += 1
        print("VIOLATION: from_string(%r) did not return within 5 s (infinite loop in Lexer.tokeniter)" % src)
    except BaseException as e:
        bad += 1
        print("VIOLATION:", repr(src), "->", type(e).__name__, e)
    finally:
        signal.alarm(0)
sys.exit(1 if bad else 0)
