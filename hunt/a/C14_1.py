"""C14: integer_re uses \d without re.ASCII, so the lexer reads spellings with non-ASCII decimal digits
as ONE integer token and int(s, 0) gives them a value; Python assigns no value to these spellings."""
import sys, warnings
warnings.simplefilter("ignore")
from jinja2 import Environment
from jinja2.lexer import get_lexer

env = Environment()
lexer = get_lexer(env)
spellings = ["1٣", "1_٣", "1１", "0x٣", "0xa٣", "0x1_٣", "1߁", "9०१"]
bad = 0
for s in spellings:
    toks = [t for t in lexer.tokeniter("{{" + s + "}}", None) if t[1] not in ("variable_begin", "variable_end")]
    single = len(toks) == 1 and toks[0][1] in ("integer", "float") and toks[0][2] == s
    if not single:
        print("ok: not read as a single number:", ascii(s)); continue
    try:
        jinja_value = env.from_string("{{ " + s + " }}").render()
    except Exception as e:
        print("ok: rejected by jinja:", ascii(s), type(e).__name__); continue
    try:
        py = repr(eval(compile(s, "<lit>", "eval")))
    except SyntaxError as e:
        py = None
        pymsg = e.msg
    if py is None:
        bad += 1
        print("VIOLATION: lexer reads", ascii(s), "as one integer, rendered", jinja_value, "- Python: SyntaxError:", pymsg)
    elif py != jinja_value:
        bad += 1
        print("VIOLATION:", ascii(s), "jinja", jinja_value, "python", py)
sys.exit(1 if bad else 0)
