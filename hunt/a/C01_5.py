"""C01: a hex / octal / binary integer literal beyond the interpreter's int->str digit limit is accepted
by the lexer (int(s, 0) has no limit for power-of-two bases) and then repr()'d by visit_Const."""
import sys
from jinja2 import Environment, TemplateSyntaxError

limit = sys.get_int_max_str_digits() if hasattr(sys, "get_int_max_str_digits") else 0
if not limit:
    print("no int/str digit limit in this interpreter; nothing to check")
    sys.exit(0)
hexdigits = int(limit * 0.831) + 50   # > limit decimal digits
cases = [
    "{{ 0x" + "f" * hexdigits + " }}",
    "{% set big = 0x" + "f" * hexdigits + " %}{{ big > 1 }}",
    "{{ x < 0b" + "1" * (limit * 4) + " }}",
    "{{ x < 0o" + "7" * (limit * 2) + " }}",
]
bad = 0
for src in cases:
    short = src[:24] + "..." + src[-16:]
    try:
        t = Environment().from_string(src)
        print("ok (compiled):", short)
    except TemplateSyntaxError as e:
        print("ok (TemplateSyntaxError):", short, e)
    except BaseException as e:
        bad += 1
        print("VIOLATION:", short, "->", type(e).__name__, e)
sys.exit(1 if bad else 0)
