"""C01: macro_body appends the implicit caller/kwargs/varargs parameters when the macro's own parameter
list does not contain that *raw* name; a parameter whose NFKC form is that name collides in Python."""
import sys
from jinja2 import Environment, TemplateSyntaxError

cases = [
    "{% macro m(ｃaller) %}{{ caller() }}{% endmacro %}",
    "{% macro m(ｋwargs) %}{{ kwargs }}{% endmacro %}",
    "{% macro m(a, ｖarargs=1) %}{{ varargs }}{% endmacro %}",
    "{% call(ｃaller) f() %}{{ caller }}{% endcall %}",
]
bad = 0
for env in (Environment(), Environment(enable_async=True)):
    for src in cases:
        try:
            env.from_string(src)
            print("ok (compiled):", ascii(src))
        except TemplateSyntaxError as e:
            print("ok (TemplateSyntaxError):", ascii(src), e)
        except BaseException as e:
            bad += 1
            print("VIOLATION:", ascii(src), "->", type(e).__name__, e)
sys.exit(1 if bad else 0)
