"""C01: an empty {% print %} before a non-root-level-known {% extends %} compiles to
an `if parent_template is None:` header with an empty body -> IndentationError."""
import sys
from jinja2 import Environment, TemplateSyntaxError
from jinja2.sandbox import SandboxedEnvironment

cases = [
    (Environment(), "{% print %}{% extends 'base' %}"),
    (Environment(), "{% if x %}{% extends 'base' %}{% endif %}{% print %}"),
    (Environment(enable_async=True), "{% print %}{% extends 'base' %}"),
    (SandboxedEnvironment(), "{% print %}\n{% extends layout %}"),
    (Environment(line_statement_prefix="#"), "# print\n# extends 'base'\n"),
]
bad = 0
for env, src in cases:
    try:
        env.from_string(src)
        print("ok (compiled):", repr(src))
    except TemplateSyntaxError as e:
        print("ok (TemplateSyntaxError):", repr(src), e)
    except BaseException as e:
        bad += 1
        print("VIOLATION:", repr(src), "->", type(e).__name__, e)
sys.exit(1 if bad else 0)
