"""C01: CodeGenerator.signature compares keyword names as raw strings with the names Python refuses /
the compiler adds itself, but Python compares identifiers in NFKC form."""
import sys
from jinja2 import Environment, TemplateSyntaxError

FW_D, FW_C, FW_L, FW_B = "ｄ", "ｃ", "ｌ", "ｂ"  # fullwidth d c l b
cases = [
    "{{ f(__%sebug__=1) }}" % FW_D,
    "{{ x|default(__%sebug__=1) }}" % FW_D,
    "{{ x is divisibleby(__%sebug__=1) }}" % FW_D,
    "{%% call f(%saller=1) %%}x{%% endcall %%}" % FW_C,
    "{%% for x in y %%}{{ f(_%soop_vars=1) }}{%% endfor %%}" % FW_L,
    "{%% block b %%}{{ f(_%slock_vars=1) }}{%% endblock %%}" % FW_B,
]
bad = 0
for src in cases:
    try:
        Environment().from_string(src)
        print("ok (compiled):", ascii(src))
    except TemplateSyntaxError as e:
        print("ok (TemplateSyntaxError):", ascii(src), e)
    except BaseException as e:
        bad += 1
        print("VIOLATION:", ascii(src), "->", type(e).__name__, e)
sys.exit(1 if bad else 0)
