"""C01: the template *name* is pasted unescaped into a double-quoted Python string literal by
visit_CondExpr (inline if without else) -> SyntaxError when the name contains ' or "."""
import sys
from jinja2 import Environment, DictLoader, TemplateSyntaxError

src = "{{ 'yes' if flag }}"
names = ["it's.html", 'say "hi".txt', "plain.html"]
bad = 0
for name in names:
    env = Environment(loader=DictLoader({name: src}))
    try:
        t = env.get_template(name)
        print("ok (compiled):", repr(name), "->", repr(t.render(flag=True)))
    except TemplateSyntaxError as e:
        print("ok (TemplateSyntaxError):", repr(name), e)
    except BaseException as e:
        bad += 1
        print("VIOLATION: template named", repr(name), "with source", repr(src), "->", type(e).__name__, e)
# same through Environment.compile(source, name=...)
try:
    Environment().compile(src, name="it's")
except TemplateSyntaxError:
    pass
except BaseException as e:
    bad += 1
    print("VIOLATION: Environment.compile(name=\"it's\") ->", type(e).__name__, e)
sys.exit(1 if bad else 0)
