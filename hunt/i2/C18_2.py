"""C18: is_safe_callable looks at the markers of obj, obj.__call__ (instances)
and obj.__new__/__init__ (classes), but the method Python really invokes for
`obj()` is type(obj).__call__: a class whose METACLASS __call__ is marked, and an
instance whose class __call__ is marked but shadowed by an instance attribute,
pass the check and the marked method runs."""
import sys

from jinja2.sandbox import SandboxedEnvironment
from jinja2.sandbox import unsafe

calls = []


class Meta(type):
    @unsafe
    def __call__(cls, *args):
        calls.append("Meta.__call__")
        return "made"


class Registry(metaclass=Meta):
    pass


class Job:
    def __call__(self):
        calls.append("Job.__call__")
        return "ran"

    __call__.alters_data = True


job = Job()
job.__dict__["__call__"] = lambda: "harmless"  # not what job() runs

bad = 0
for kw in ({}, {"enable_async": True}):
    env = SandboxedEnvironment(**kw)
    for src in ("{{ Registry() }}", "{% set r = Registry %}{{ r(1) }}", "{{ job() }}"):
        calls.clear()
        try:
            out = env.from_string(src).render(Registry=Registry, job=job)
        except Exception as e:
            out = f"<{type(e).__name__}>"
        if calls:
            bad = 1
            print(f"{kw} {src} -> {out}; marked method ran: {calls}")
if not bad:
    print("ok")
sys.exit(bad)
