"""C18: the mapping protocol name `keys` is served from a template-built
namespace; `**ns` in a call (or filter / test arguments), and dict(ns), invoke
the stored unsafe callable without asking is_safe_callable."""
import sys

from jinja2.sandbox import SandboxedEnvironment
from jinja2.sandbox import unsafe

calls = []


class User:
    @unsafe
    def delete(self):
        calls.append("delete")
        return []

    def wipe(self):
        calls.append("wipe")
        return []

    wipe.alters_data = True


class Strict(SandboxedEnvironment):
    """overridden check: nothing of User may be called"""

    def is_safe_callable(self, obj):
        return getattr(obj, "__self__", None).__class__ is not User and super().is_safe_callable(obj)


cases = [
    "{{ lipsum(**namespace(keys=user.delete)) }}",
    "{{ dict(**namespace(keys=user.wipe)) }}",
    "{{ dict(namespace(keys=user.delete)) }}",
    "{% macro m() %}{% endmacro %}{{ m(**namespace(keys=user.delete)) }}",
    "{{ 1|default(**namespace(keys=user.delete)) }}",
    "{{ 1 is eq(**namespace(keys=user.delete)) }}",
    "{% set k = user.delete %}{% call lipsum(**namespace(keys=k)) %}{% endcall %}",
]
bad = 0
for envcls in (SandboxedEnvironment, Strict):
    for kw in ({}, {"enable_async": True}):
        env = envcls(**kw)
        for src in cases:
            calls.clear()
            try:
                out = env.from_string(src).render(user=User())
            except Exception as e:
                out = f"<{type(e).__name__}>"
            if calls:
                bad = 1
                print(f"{envcls.__name__} {kw}: {src} -> {out[:30]!r}; unsafe callable ran: {calls}")
        # control: the direct call is refused
        calls.clear()
        try:
            env.from_string("{{ user.delete() }}").render(user=User())
        except Exception:
            pass
        assert not calls
if not bad:
    print("ok: no unsafe callable ran")
sys.exit(bad)
