"""C19: a tuple assignment that rebinds the namespace variable and assigns an
attribute of it in the same statement stores into a dict of the render data,
in the immutable sandbox (sync and async)."""
import copy
import sys

from jinja2.sandbox import ImmutableSandboxedEnvironment

SRC = "{% set ns = namespace() %}{% set ns, ns.x = d, 1 %}"
bad = 0
for kw in ({}, {"enable_async": True}):
    env = ImmutableSandboxedEnvironment(**kw)
    data = {"d": {"a": 1}}
    before = copy.deepcopy(data)
    try:
        out = env.from_string(SRC).render(**data)
    except Exception as e:  # an error is fine, a modification is not
        out = f"{type(e).__name__}: {e}"
    if data != before:
        bad = 1
        print(f"{kw}: {SRC!r} -> {out!r}; data modified: {before} -> {data}")
if not bad:
    print("ok: data unchanged")
sys.exit(bad)
