"""C19: the aliases of the typing module (typing.List[int], typing.Dict, ...)
forward attribute lookups to list/dict/set/deque like types.GenericAlias does,
but modifies_known_mutable does not know them: the immutable sandbox hands out
the unbound mutators and the render data is modified."""
import collections
import copy
import sys
import typing

from jinja2.sandbox import ImmutableSandboxedEnvironment, modifies_known_mutable

aliases = {
    "L": typing.List[int],
    "L0": typing.List,
    "D": typing.Dict[str, int],
    "S": typing.Set[int],
    "Q": typing.Deque[int],
}
cases = [
    "{{ L.append(l, 9) }}",
    "{{ L0.clear(l) }}",
    "{{ D.update(d, x=1) }}",
    "{{ S.add(s, 9) }}",
    "{{ Q.appendleft(q, 9) }}",
    "{% set f = L.extend %}{{ f(l, [7]) }}",
]
bad = 0
for kw in ({}, {"enable_async": True}):
    env = ImmutableSandboxedEnvironment(**kw)
    for src in cases:
        data = {"l": [1, 2], "d": {"a": 1}, "s": {1}, "q": collections.deque([1])}
        before = copy.deepcopy(data)
        try:
            out = env.from_string(src).render(**aliases, **data)
        except Exception as e:
            out = f"<{type(e).__name__}>"
        if data != before:
            bad = 1
            print(f"{kw} {src} -> {out}; data modified: {data}")
# control: the builtin alias is handled
assert modifies_known_mutable(list[int], "append")
print("modifies_known_mutable(typing.List[int], 'append') =", modifies_known_mutable(typing.List[int], "append"))
sys.exit(bad)
