"""C17: str.format / str.format_map / Markup.format taken UNBOUND from the class
(the class `str` or `Markup` being a value of the render data) are not replaced
by the sandboxed formatter: format-string field lookups hand out private and
dunder attributes."""
import sys

from markupsafe import Markup

from jinja2.sandbox import SandboxedEnvironment


class Probe:
    def __init__(self):
        self._secret = "TRACER"


env = SandboxedEnvironment()
cases = [
    "{{ str.format('{0._secret}', p) }}",
    "{{ str.format('{0.__class__.__init__.__globals__[__name__]}', p) }}",
    "{{ str.format_map('{p._secret}', {'p': p}) }}",
    "{{ Markup.format(Markup('{0._secret}'), p) }}",
    "{{ Markup.format_map(Markup('{p._secret}'), {'p': p}) }}",
    "{% set f = str.format %}{{ f('{0._secret}', p) }}",
]
bad = 0
for src in cases:
    try:
        out = env.from_string(src).render(str=str, Markup=Markup, p=Probe())
    except Exception as e:
        out = f"<{type(e).__name__}: {e}>"
        leaked = False
    else:
        leaked = "TRACER" in out or "__main__" in out
    print(("LEAK  " if leaked else "ok    ") + src + " -> " + out[:60])
    bad |= leaked
sys.exit(1 if bad else 0)
