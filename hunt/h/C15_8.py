"""C15: str.translate on an escaped value inserts the table's replacement
strings without escaping them (Markup.translate is inherited from str and
keeps the Markup type).  Root cause is in MarkupSafe, not in src/jinja2, but
the leak is reachable from a template with nothing but the escape filter and
a string method with a data controlled argument.
"""
import sys

from jinja2 import Environment
from jinja2.sandbox import SandboxedEnvironment

V = "<script>alert(1)</script>\"'"
bad = []

for env_cls in (Environment, SandboxedEnvironment):
    env = env_cls(autoescape=True)

    for src in (
        "{{ (name|e).translate({120: v}) }}",
        "{{ (name|escape).translate(tbl) }}",
        "{% set n %}{{ name }}{% endset %}{{ n.translate({120: v}) }}",
        "{% macro m() %}{{ name }}{% endmacro %}{{ m().translate({120: v}) }}",
    ):
        out = env.from_string(src).render(name="x", v=V, tbl={ord("x"): V})

        if any(c in out for c in "<>\"'"):
            bad.append((env_cls.__name__, src, out))

for item in bad:
    print("LEAK %s %s\n   output: %r" % item)

if bad:
    sys.exit(1)

print("ok")
