"""C16: a macro (or block reference) whose body is escaped at compile time,
called inside an {% autoescape false %} region, returns the escaped text as
plain str (Macro.__call__ takes the caller's flag).  When that value is
printed where autoescaping is on again it is escaped a second time.
No output at all happens inside the disabled region.
"""
import html
import sys

from jinja2 import Environment

V = "<v> & \"q\""
on = Environment(autoescape=True)
off = Environment(autoescape=False)
bad = []

NS = "{% set ns = namespace() %}"

for src in (
    NS + "{% macro m(x) %}{{ x }}{% endmacro %}"
    "{% autoescape false %}{% set ns.y = m(v) %}{% endautoescape %}{{ ns.y }}",
    NS + "{% macro m() %}{{ caller() }}{% endmacro %}"
    "{% autoescape false %}{% set ns.y %}{% call m() %}{{ v }}{% endcall %}{% endset %}{% endautoescape %}"
    "{{ ns.y }}",
    NS + "{% set keep %}{% block b %}{{ v }}{% endblock %}{% endset %}"
    "{% autoescape false %}{% set ns.y = self.b() %}{% endautoescape %}{{ ns.y }}",
):
    r_on = on.from_string(src).render(v=V)
    r_off = off.from_string(src).render(v=V)

    if html.unescape(r_on) != r_off:
        bad.append((src, r_on, html.unescape(r_on), r_off))

for item in bad:
    print("template: %s\n   on:            %r\n   on, unescaped: %r\n   off:           %r" % item)

if bad:
    sys.exit(1)

print("ok")
