"""C15: a macro result is marked safe according to the autoescape flag of the
*caller*, while the macro body was escaped (or not) according to the flag at
the place of *definition*.  A macro whose body was compiled without escaping
and that is called where autoescaping is active returns raw data as Markup.
"""
import sys

from jinja2 import DictLoader
from jinja2 import Environment
from jinja2 import select_autoescape

V = "<script>alert(1)</script>\"'"
bad = []


def check(label, out):
    if any(c in out for c in "<>\"'"):
        bad.append((label, out))


# 1. name based selector: autoescaping is active for page.html, the helper
#    macros live in a template for which the selector says no.
env = Environment(
    autoescape=select_autoescape(),
    loader=DictLoader(
        {
            "helpers.txt": "{% macro field(x) %}{{ x }}{% endmacro %}",
            "from.html": "{% from 'helpers.txt' import field %}{{ field(v) }}",
            "import.html": "{% import 'helpers.txt' as h %}{{ h.field(v) }}",
            "set.html": "{% from 'helpers.txt' import field %}{% set y = field(v) %}{{ y }}",
        }
    ),
)
for name in ("from.html", "import.html", "set.html"):
    assert env.autoescape(name) is True
    check("selector: " + name, env.get_template(name).render(v=V))

# 2. autoescaping switched on by a block (statically and decided at run time);
#    the macro is defined outside of it.  {{ v }} itself is escaped there.
env = Environment(autoescape=False)
for tag in ("{% autoescape true %}", "{% autoescape flag %}"):
    src = "{% macro m(x) %}{{ x }}{% endmacro %}" + tag + "{{ m(v) }}{% endautoescape %}"
    check(src, env.from_string(src).render(v=V, flag=True))
    # call block body defined outside, caller() invoked inside the block
    src = (
        "{% macro wrap() %}" + tag + "{{ caller() }}{% endautoescape %}{% endmacro %}"
        "{% call wrap() %}{{ v }}{% endcall %}"
    )
    check(src, env.from_string(src).render(v=V, flag=True))

for label, out in bad:
    print("LEAK %s\n   output: %r" % (label, out))

if bad:
    sys.exit(1)

print("ok")
