"""C15: ChainableUndefined.__html__ returns str(self) unescaped.

Output escaping goes through markupsafe.escape(), which trusts __html__().
ChainableUndefined defines ``__html__ = lambda self: str(self)``.  With the
stock ``__str__`` that is the empty string, but as soon as the undefined
class renders a message (the shipped DebugUndefined does, and it is meant to
be combined: both are mixins over Undefined; make_logging_undefined(base=...)
accepts any of them) the message - which contains the looked-up key, i.e.
context data - is emitted raw under autoescape.
"""
import sys

from jinja2 import ChainableUndefined
from jinja2 import DebugUndefined
from jinja2 import Environment
from jinja2 import make_logging_undefined


class ChainableDebugUndefined(ChainableUndefined, DebugUndefined):
    pass


class DebugChainableUndefined(DebugUndefined, ChainableUndefined):
    pass


V = "<script>alert(1)</script>"
bad = []

for undefined in (
    ChainableDebugUndefined,
    DebugChainableUndefined,
    make_logging_undefined(base=ChainableDebugUndefined),
):
    env = Environment(autoescape=True, undefined=undefined)

    for src in (
        "{{ d[v] }}",
        "{{ d[v].a.b }}",
        "{{ d|attr(v) }}",
        "{{ [d[v], 'x']|join(', ') }}",
        "{% set y %}{{ d[v] }}{% endset %}{{ y }}",
    ):
        out = env.from_string(src).render(d={}, v=V)

        if "<" in out or ">" in out:
            bad.append((undefined.__mro__[1].__name__ + "+...", src, out))

# reference: DebugUndefined alone is escaped
ref = Environment(autoescape=True, undefined=DebugUndefined).from_string("{{ d[v] }}").render(d={}, v=V)

for item in bad:
    print("LEAK undefined=%s template=%s\n   output: %r" % item)

if bad:
    print("reference (DebugUndefined alone): %r" % ref)
    sys.exit(1)

print("ok")
