"""C15: a {% call %} block whose callee is not a macro writes the callee's
return value to the output without escaping it.

visit_CallBlock emits  ``yield context.call(<callee>, caller=caller)``  (or
``buf.append(...)``) with no escape()/str() wrapper, because it assumes the
callee is a Macro (which returns Markup).  Any other callable that accepts a
``caller`` keyword works as callee, e.g. ``str.format`` (unused keyword
arguments are ignored by str.format), so plain context data and template
string literals reach the output raw although autoescaping is on.
"""
import asyncio
import sys

from jinja2 import Environment
from jinja2.sandbox import SandboxedEnvironment

V = "<script>alert(\"x\")</script>'&"
bad = []

CASES = [
    # plain data string from the context
    ("{% call v.format() %}{% endcall %}", {}),
    # template string literal
    ("{% call \"<b class='l'>\".format() %}{% endcall %}", {}),
    # captured by a set block / macro: the raw text is then marked safe
    ("{% set y %}{% call v.format() %}{% endcall %}{% endset %}{{ y }}", {}),
    ("{% macro m() %}{% call v.format() %}{% endcall %}{% endmacro %}{{ m() }}", {}),
    # autoescape decided at run time
    ("{% autoescape flag %}{% call v.format() %}{% endcall %}{% endautoescape %}", {"flag": True}),
]

for env_cls in (Environment, SandboxedEnvironment):
    for is_async in (False, True):
        env = env_cls(autoescape=True, enable_async=is_async)
        for src, extra in CASES:
            tmpl = env.from_string(src)
            if is_async:
                out = asyncio.run(tmpl.render_async(v=V, **extra))
            else:
                out = tmpl.render(v=V, **extra)
            # for comparison: the same value through {{ ... }}
            if any(c in out for c in "<>\"'"):
                bad.append((env_cls.__name__, is_async, src, out))

for item in bad:
    print("LEAK %s async=%s\n   template: %s\n   output:   %r" % item)

if bad:
    ref = Environment(autoescape=True).from_string("{{ v.format() }}").render(v=V)
    print("for comparison {{ v.format() }} renders %r" % ref)
    print("%d unescaped outputs under autoescape=True" % len(bad))
    sys.exit(1)

print("ok: call block results are escaped")
