"""C16: an imported template module is its rendered (already escaped) body
when printed ({{ mod }} uses __html__), but every escaping-neutral operation
that stringifies it (|string, |trim, |upper, ~ ...) goes through
TemplateModule.__str__, which returns plain str, so the body is escaped again.
"""
import html
import sys

from jinja2 import DictLoader
from jinja2 import Environment

V = "<v> & \"q\""
TEMPLATES = {
    "part": "[{{ v }}]",
    "plain": "{% import 'part' as p with context %}{{ p }}",
    "string": "{% import 'part' as p with context %}{{ p|string }}",
    "trim": "{% import 'part' as p with context %}{{ p|trim }}",
    "concat": "{% import 'part' as p with context %}{{ p ~ '' }}",
    "upper": "{% import 'part' as p with context %}{{ p|upper|lower }}",
}
on = Environment(autoescape=True, loader=DictLoader(TEMPLATES))
off = Environment(autoescape=False, loader=DictLoader(TEMPLATES))
bad = []

for name in TEMPLATES:
    if name == "part":
        continue

    r_on = on.get_template(name).render(v=V)
    r_off = off.get_template(name).render(v=V)

    if html.unescape(r_on) != r_off:
        bad.append((name, TEMPLATES[name], r_on, r_off))

for item in bad:
    print("%s: %s\n   on:  %r\n   off: %r" % item)

if bad:
    sys.exit(1)

print("ok")
