"""C16: after a {% break %}/{% continue %} out of an {% autoescape false %}
block the stale run-time flag makes macros, call blocks, set blocks and block
references return plain str although their bodies were escaped at compile
time; printing the result escapes it a second time.

render(autoescape on) unescaped once  !=  render(autoescape off)
"""
import html
import sys

from jinja2 import Environment

V = "<v> & \"q\""
EXT = ["jinja2.ext.loopcontrols"]
on = Environment(autoescape=True, extensions=EXT)
off = Environment(autoescape=False, extensions=EXT)

# nothing is output inside the only region with autoescaping disabled
LOOP = "{% for i in [1] %}{% autoescape false %}{% break %}{% endautoescape %}{% endfor %}"

bad = []
for body in (
    "{% macro m(x) %}{{ x }}{% endmacro %}{{ m(v) }}",
    "{% macro m() %}{{ caller() }}{% endmacro %}{% call m() %}{{ v }}{% endcall %}",
    "{% set x %}{{ v }}{% endset %}{{ x }}",
    "{% block b %}{{ v }}{% endblock %}|{{ self.b() }}",
):
    src = LOOP + body
    r_on = on.from_string(src).render(v=V)
    r_off = off.from_string(src).render(v=V)
    if html.unescape(r_on) != r_off:
        bad.append((src, r_on, html.unescape(r_on), r_off))

for item in bad:
    print("template: %s\n   on:            %r\n   on, unescaped: %r\n   off:           %r" % item)

if bad:
    sys.exit(1)

print("ok")
