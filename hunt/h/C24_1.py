"""C24: xmlattr accepts the empty string as a key.  The output is then
`` ="<value>"``; an HTML tokenizer in the "before attribute name" state treats
``=`` as the first character of an attribute *name*, the quotes become part of
that name, and the first space inside the (escaped, but spaces are not
escaped) value ends the name - the rest of the value is parsed as further
attributes.  The value is no longer confined to a quoted attribute value.
"""
import sys
from html.parser import HTMLParser

from jinja2 import Environment

env = Environment(autoescape=True)
tmpl = env.from_string("<input{{ attrs|xmlattr }}>")
VALUE = "x onmouseover=alert(document.domain)//"
bad = []


class Collect(HTMLParser):
    def __init__(self):
        super().__init__()
        self.attrs = None

    def handle_starttag(self, tag, attrs):
        self.attrs = attrs


for attrs in ({"": VALUE}, {"class": "a", "": VALUE}):
    try:
        out = tmpl.render(attrs=attrs)
    except ValueError as e:
        print("rejected (good):", e)
        continue

    parser = Collect()
    parser.feed(out)
    names = [name for name, _ in parser.attrs]
    # every parsed attribute must be one of the keys that were passed in
    injected = [n for n in names if n not in attrs]

    if injected:
        bad.append((attrs, out, parser.attrs))

for attrs, out, parsed in bad:
    print("xmlattr(%r)\n   output: %s\n   parsed attributes: %r" % (attrs, out, parsed))

if bad:
    print("a key that cannot be an attribute name was accepted and the value left the quotes")
    sys.exit(1)

print("ok")
