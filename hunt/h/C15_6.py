"""C15: BlockReference.__call__ (self.name() and super()) marks the rendered
block as safe when the *current run-time* autoescape flag is on, although the
block function was compiled with the template level setting and may not have
escaped anything.
"""
import sys

from jinja2 import DictLoader
from jinja2 import Environment
from jinja2 import select_autoescape

V = "<script>alert(1)</script>\"'"
bad = []


def check(label, out, strip=""):
    if any(c in out.replace(strip, "") for c in "<>\"'"):
        bad.append((label, out))


# 1. the block is NOT inside the autoescape block (so this is not the known
#    "block placed inside autoescape" issue); only the reference is.
env = Environment(autoescape=False)
for tag in ("{% autoescape true %}", "{% autoescape flag %}"):
    src = (
        "{% set keep %}{% block title %}{{ v }}{% endblock %}{% endset %}"
        + tag
        + "{{ self.title() }}{% endautoescape %}"
    )
    check(src, env.from_string(src).render(v=V, flag=True))

# 2. selector: child.html (escaped) extends base.txt (not escaped) and uses super()
env = Environment(
    autoescape=select_autoescape(),
    loader=DictLoader(
        {
            "base.txt": "{% block body %}{{ v }}{% endblock %}",
            "child.html": "{% extends 'base.txt' %}{% block body %}{{ super() }}{% endblock %}",
            "child2.html": "{% extends 'base.txt' %}{% block body %}{% set s = super() %}{{ s }}{% endblock %}",
        }
    ),
)
for name in ("child.html", "child2.html"):
    assert env.autoescape(name) is True
    check("selector: " + name, env.get_template(name).render(v=V))

for label, out in bad:
    print("LEAK %s\n   output: %r" % (label, out))

if bad:
    sys.exit(1)

print("ok")
