"""C15: bytecode compiled for an environment with autoescape off is reused,
through a shared bytecode cache, by an environment with autoescape on.

Whether an output expression is escaped is decided at compile time and baked
into the bytecode; the bytecode cache key only consists of the template name,
file name and source checksum.  Environment.overlay() copies the
``bytecode_cache`` attribute, so ``env.overlay(autoescape=True)`` silently
renders templates that were first loaded through ``env`` without escaping.
"""
import sys

from jinja2 import BytecodeCache
from jinja2 import DictLoader
from jinja2 import Environment
from jinja2 import select_autoescape


class MemoryBytecodeCache(BytecodeCache):
    """The documented way to write a bytecode cache."""

    def __init__(self):
        self.store = {}

    def load_bytecode(self, bucket):
        data = self.store.get(bucket.key)
        if data is not None:
            bucket.bytecode_from_string(data)

    def dump_bytecode(self, bucket):
        self.store[bucket.key] = bucket.bytecode_to_string()


V = "<script>alert(1)</script>"
SRC = "{{ v }}|{{ '<b>' }}|{% set x %}{{ v }}{% endset %}{{ x }}"
bad = []

# 1. overlay with autoescaping switched on
plain = Environment(
    loader=DictLoader({"page.html": SRC}),
    bytecode_cache=MemoryBytecodeCache(),
    autoescape=False,
)
plain.get_template("page.html").render(v=V)  # e.g. used for a text/plain mail body
html_env = plain.overlay(autoescape=True)
assert html_env.autoescape is True
out = html_env.get_template("page.html").render(v=V)
if "<" in out:
    bad.append(("overlay(autoescape=True)", out))

# 2. two environments that share one cache, one of them with the recommended selector
cache = MemoryBytecodeCache()
loader = DictLoader({"page.html": SRC})
Environment(loader=loader, bytecode_cache=cache).get_template("page.html").render(v=V)
sel = Environment(loader=loader, bytecode_cache=cache, autoescape=select_autoescape())
out = sel.get_template("page.html").render(v=V)
if "<" in out:
    bad.append(("Environment(autoescape=select_autoescape())", out))

expected = Environment(autoescape=True).from_string(SRC).render(v=V)

for name, out in bad:
    print("LEAK %s renders page.html as\n   %r" % (name, out))

if bad:
    print("expected\n   %r" % expected)
    sys.exit(1)

print("ok")
