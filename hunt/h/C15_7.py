"""C15: TemplateModule.__html__ always returns Markup, also when the imported
template was rendered without escaping, so printing an imported module
({{ module }}, documented: "converting it into a string renders the
contents") inside an autoescaped template emits its data raw.
"""
import sys

from jinja2 import DictLoader
from jinja2 import Environment
from jinja2 import select_autoescape

V = "<script>alert(1)</script>\"'"
bad = []


def check(label, out):
    if any(c in out for c in "<>\"'"):
        bad.append((label, out))


env = Environment(
    autoescape=select_autoescape(),
    loader=DictLoader(
        {
            "part.txt": "{{ v }}",
            "mod.html": "{% import 'part.txt' as p with context %}{{ p }}",
            "mod2.html": "{% import 'part.txt' as p with context %}{{ [p, 'x']|join(', ') }}",
        }
    ),
)
for name in ("mod.html", "mod2.html"):
    assert env.autoescape(name) is True
    check("selector: " + name, env.get_template(name).render(v=V))

env = Environment(autoescape=False, loader=DictLoader({"part": "{{ v }}"}))
for tag in ("{% autoescape true %}", "{% autoescape flag %}"):
    src = tag + "{% import 'part' as p with context %}{{ p }}{% endautoescape %}"
    check(src, env.from_string(src).render(v=V, flag=True))

for label, out in bad:
    print("LEAK %s\n   output: %r" % (label, out))

if bad:
    sys.exit(1)

print("ok")
