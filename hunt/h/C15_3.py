"""C15: {% break %} / {% continue %} (jinja2.ext.loopcontrols) inside an
{% autoescape %} block jump over the generated ``context.eval_ctx.revert(...)``,
so the run-time autoescape flag of the inner block stays in force after the
loop.  Everything that consults the run-time flag afterwards is wrong; inside
an enclosing run-time decided {% autoescape flag %} block (flag true) output
expressions choose  str  instead of  escape  and data goes out raw.
"""
import sys

from jinja2 import Environment

V = "<script>alert(1)</script>\"'"
env = Environment(autoescape=True, extensions=["jinja2.ext.loopcontrols"])
bad = []

# the only region with autoescaping disabled is the (empty) one around break
LOOP_BREAK = (
    "{% for i in [1] %}{% autoescape false %}{% break %}{% endautoescape %}{% endfor %}"
)
LOOP_CONTINUE = (
    "{% for i in [1, 2] %}"
    "{% autoescape false %}{% if i == 1 %}{% continue %}{% endif %}{% endautoescape %}"
    "{% endfor %}"
)

for loop in (LOOP_BREAK, LOOP_CONTINUE):
    for body in (
        "{{ v }}",
        "{{ '<b>' }}",
        "{{ v ~ v }}",
        "{% macro m(x) %}{{ x }}{% endmacro %}{{ m(v) }}",
        "{% filter upper %}{{ v }}{% endfilter %}",
    ):
        src = "{% autoescape flag %}" + loop + body + "{% endautoescape %}"
        out = env.from_string(src).render(v=V, flag=True)
        # the same template without the loop is the reference
        ref = env.from_string("{% autoescape flag %}" + body + "{% endautoescape %}").render(
            v=V, flag=True
        )
        if any(c in out for c in "<>\"'"):
            bad.append((src, out, ref))

for src, out, ref in bad:
    print("LEAK template: %s\n   output:    %r\n   reference: %r" % (src, out, ref))

if bad:
    sys.exit(1)

print("ok")
