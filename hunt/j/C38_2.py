"""C38: the `reverse` filter replaces / swallows a TypeError raised by the data.

do_reverse wraps both `reversed(value)` and the fallback `list(value)` in `except TypeError`.
A TypeError (or private subclass) raised *by the data* - inside a generator body, an
__iter__/__next__ or a __reversed__ method - is therefore either
  * replaced by a new FilterArgumentError("argument must be iterable"), or
  * swallowed completely (when __reversed__ raised it and plain iteration works),
instead of reaching the caller as the same exception object.
"""
import sys

from jinja2 import Environment
from jinja2.exceptions import FilterArgumentError


class Boom(TypeError):
    pass


class State:
    exc = None


def rows(state):
    yield 1
    state.exc = Boom("row 2 is broken")  # e.g. None + 1 inside the generator body
    raise state.exc


class Rev:
    def __init__(self, state):
        self.state = state

    def __iter__(self):
        return iter([1, 2, 3])

    def __reversed__(self):
        self.state.exc = Boom("__reversed__ is broken")
        raise self.state.exc


bad = []

for enable_async in (False, True):
    env = Environment(enable_async=enable_async)
    t = env.from_string("{{ data|reverse|list }}")
    for label, make in (("generator", rows), ("__reversed__", Rev)):
        st = State()
        try:
            out = t.render(data=make(st))
        except BaseException as e:
            if e is not st.exc:
                bad.append(
                    f"async={enable_async} {label}: data raised {st.exc!r}, render raised a different"
                    f" object {type(e).__name__}({e})"
                )
        else:
            bad.append(f"async={enable_async} {label}: data raised {st.exc!r}, render returned {out!r}")

    # engine still usable
    assert t.render(data=[1, 2]) == "[2, 1]"

if bad:
    print("\n".join(bad))
    sys.exit(1)
print("ok")
