"""C21: `undefined in "text"` raises TypeError, not UndefinedError and not a result.

Containment is in the operation table; for `x in undefined` the default type answers
False (it iterates as empty) and StrictUndefined raises UndefinedError.  For the other
operand order with list/tuple/dict/set containers the undefined's __eq__/__hash__ decide
(False for the default type, UndefinedError for StrictUndefined).  With a str / Markup
container, however, every undefined type makes the operation die with a *TypeError*
("'in <string>' requires string as left operand, not Undefined") - neither the documented
result nor an UndefinedError, and the message does not name the missing variable.
"""
import sys

from markupsafe import Markup

from jinja2 import ChainableUndefined
from jinja2 import DebugUndefined
from jinja2 import Environment
from jinja2 import StrictUndefined
from jinja2 import Undefined
from jinja2 import UndefinedError

bad = []

for T in (Undefined, ChainableUndefined, DebugUndefined, StrictUndefined):
    for container in ("abc", "", Markup("abc")):
        for negate in (False, True):
            u = T(name="missing")
            try:
                r = (u not in container) if negate else (u in container)
            except UndefinedError as e:
                assert "missing" in str(e)
            except Exception as e:
                bad.append(
                    f"{T.__name__}: undef {'not in' if negate else 'in'} {container!r}"
                    f" raised {type(e).__name__}: {e}"
                )
            else:
                if T is StrictUndefined:
                    bad.append(f"{T.__name__}: undef in {container!r} returned {r!r}")

    for enable_async in (False, True):
        env = Environment(undefined=T, enable_async=enable_async)
        for src in ("{{ missing in 'abc' }}", "{{ obj.nothing not in title }}", "{{ missing is in 'abc' }}"):
            try:
                env.from_string(src).render(obj={}, title="hello")
            except UndefinedError:
                pass
            except Exception as e:
                bad.append(f"{T.__name__} async={enable_async}: {src} raised {type(e).__name__}: {e}")

if bad:
    print("\n".join(bad))
    sys.exit(1)
print("ok")
