"""C21: pickle is not uniform over the undefined types.

copy / deepcopy / pickle are in the operation table and work (round-trip all four slots) for
Undefined, ChainableUndefined, DebugUndefined and StrictUndefined with the default protocol.
  * Every class produced by make_logging_undefined() cannot be pickled at all (any protocol):
    it is a function-local class ("Can't pickle local object
    'make_logging_undefined.<locals>.LoggingUndefined'"), although copy and deepcopy work.
  * The base class Undefined cannot be pickled with protocols 0 and 1 ("a class that defines
    __slots__ without defining __getstate__ cannot be pickled"), while its three subclasses
    (whose own __slots__ is empty) can.
"""
import logging
import pickle
import sys

from jinja2 import ChainableUndefined
from jinja2 import DebugUndefined
from jinja2 import Environment
from jinja2 import StrictUndefined
from jinja2 import Undefined
from jinja2 import make_logging_undefined

logger = logging.getLogger("c21_6")
logger.addHandler(logging.NullHandler())
logger.propagate = False

types = {
    "Undefined": Undefined,
    "ChainableUndefined": ChainableUndefined,
    "DebugUndefined": DebugUndefined,
    "StrictUndefined": StrictUndefined,
    "Logging(Undefined)": make_logging_undefined(logger, Undefined),
    "Logging(StrictUndefined)": make_logging_undefined(logger, StrictUndefined),
}
slots = ("_undefined_hint", "_undefined_obj", "_undefined_name", "_undefined_exception")
bad = []

for tname, T in types.items():
    # obtain the value the way a template does: hand it to a filter
    got = []
    env = Environment(undefined=T)
    env.filters["grab"] = lambda v: got.append(v) or ""
    env.from_string("{{ missing|grab }}{{ obj.attr|grab }}{{ obj[1]|grab }}{{ []|first|grab }}").render(obj={})
    for u in got:
        for protocol in range(pickle.HIGHEST_PROTOCOL + 1):
            try:
                c = pickle.loads(pickle.dumps(u, protocol))
                assert type(c) is type(u)
                assert all(getattr(c, s) == getattr(u, s) for s in slots)
            except Exception as e:
                bad.append(f"{tname} ({u._undefined_message}) protocol {protocol}: {type(e).__name__}: {e}")

if bad:
    seen = set()
    for line in bad:
        key = line.split(" (")[0] + line.split(")")[-1]
        if key not in seen:
            seen.add(key)
            print(line)
    print(f"... {len(bad)} failing (value, protocol) combinations in total")
    sys.exit(1)
print("ok")
