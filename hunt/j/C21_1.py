"""C21: `Markup + ChainableUndefined` silently succeeds instead of raising UndefinedError.

ChainableUndefined documents that only attribute/item access is chainable and that
`foo.bar['baz'] + 42` raises UndefinedError.  Because the class defines `__html__`,
`markupsafe.Markup.__add__` accepts it as a right operand, escapes it (-> '') and returns
the left operand; `Undefined.__radd__` is never reached.  The other operand order
(`undef + Markup`) and every other undefined type raise as documented.
"""
import logging
import sys

from markupsafe import Markup

from jinja2 import ChainableUndefined
from jinja2 import DebugUndefined
from jinja2 import Environment
from jinja2 import StrictUndefined
from jinja2 import Undefined
from jinja2 import UndefinedError
from jinja2 import make_logging_undefined

log = logging.getLogger("c21_1")
log.addHandler(logging.NullHandler())
log.propagate = False

types = {
    "Undefined": Undefined,
    "ChainableUndefined": ChainableUndefined,
    "DebugUndefined": DebugUndefined,
    "StrictUndefined": StrictUndefined,
    "Logging(ChainableUndefined)": make_logging_undefined(log, ChainableUndefined),
}
bad = []

for tname, T in types.items():
    # python level, both operand orders
    for order in ("markup + undef", "undef + markup"):
        u = T(name="missing")
        try:
            r = Markup("<b>") + u if order.startswith("markup") else u + Markup("<b>")
        except UndefinedError as e:
            assert "missing" in str(e)
        else:
            bad.append(f"{tname}: {order} returned {r!r} instead of raising UndefinedError")

    # template level (autoescape on and off, sync and async)
    for autoescape in (False, True):
        for enable_async in (False, True):
            env = Environment(undefined=T, autoescape=autoescape, enable_async=enable_async)
            for src in ("{{ ('<b>'|safe) + missing }}", "{{ x + missing.attr['item'] }}"):
                if "attr" in src and "Chainable" not in tname:
                    continue
                try:
                    r = env.from_string(src).render(x=Markup("<b>"))
                except UndefinedError:
                    pass
                else:
                    bad.append(
                        f"{tname} autoescape={autoescape} async={enable_async}:"
                        f" {src} rendered {r!r} instead of raising UndefinedError"
                    )

if bad:
    print("\n".join(bad))
    sys.exit(1)
print("ok")
