"""C21: `Markup * undefined` raises TypeError instead of UndefinedError.

`*` is documented to fail with UndefinedError for every undefined type, and it does for
int/float/str/list left operands ('a' * missing, 2 * missing, [1] * missing).  With a
Markup left operand (e.g. `'-'|safe`, a macro result, any escaped value under autoescape)
Markup.__mul__ calls str.__mul__ through the slot wrapper, which asks for __index__,
finds none, and raises TypeError("'Undefined' object cannot be interpreted as an integer");
Undefined.__rmul__ is never reached and the message does not name the missing variable.
"""
import sys

from markupsafe import Markup

from jinja2 import ChainableUndefined
from jinja2 import DebugUndefined
from jinja2 import Environment
from jinja2 import StrictUndefined
from jinja2 import Undefined
from jinja2 import UndefinedError

bad = []

for T in (Undefined, ChainableUndefined, DebugUndefined, StrictUndefined):
    u = T(name="missing")
    for other in ("-", [1], 2, 2.5, Markup("-")):
        try:
            other * u
        except UndefinedError as e:
            assert "missing" in str(e)
        except Exception as e:
            bad.append(f"{T.__name__}: {other!r} * undef raised {type(e).__name__}: {e}")
        else:
            bad.append(f"{T.__name__}: {other!r} * undef did not raise")

    for autoescape in (False, True):
        env = Environment(undefined=T, autoescape=autoescape)
        for src in (
            "{{ ('-'|safe) * missing }}",
            "{% macro sep() %}-{% endmacro %}{{ sep() * obj.width }}",
        ):
            if "macro" in src and not autoescape:
                continue  # a macro returns Markup only under autoescape
            try:
                env.from_string(src).render(obj={})
            except UndefinedError:
                pass
            except Exception as e:
                bad.append(f"{T.__name__} autoescape={autoescape}: {src} raised {type(e).__name__}: {e}")

if bad:
    print("\n".join(bad))
    sys.exit(1)
print("ok")
