"""C38: an AttributeError raised by item access is a lookup signal in Environment but escapes in the sandbox.

"Attribute and lookup errors become undefined values".  Environment.getitem / Environment.getattr
honour that for an AttributeError raised by `obj[key]` (they catch AttributeError, TypeError and
LookupError around the subscript).  SandboxedEnvironment.getitem / .getattr only catch
(TypeError, LookupError) around the subscript, so the same template with the same data renders
to an undefined value in a plain environment and blows up with AttributeError in a sandboxed one.
A very ordinary data class triggers it: `__getitem__` that delegates to getattr().
"""
import sys

from jinja2 import Environment
from jinja2.sandbox import ImmutableSandboxedEnvironment
from jinja2.sandbox import SandboxedEnvironment


class Settings:
    colour = "red"

    def __getitem__(self, key):
        return getattr(self, key)  # raises AttributeError for unknown keys


templates = [
    "[{{ cfg.size }}]",
    "[{{ cfg['size'] }}]",
    "[{{ cfg.size is defined }}]",
    "[{{ cfg.size|default('n/a') }}]",
    "[{{ [cfg]|map(attribute='size')|map('default', 'n/a')|join }}]",
]
bad = []

for src in templates:
    results = {}
    for E in (Environment, SandboxedEnvironment, ImmutableSandboxedEnvironment):
        for enable_async in (False, True):
            env = E(enable_async=enable_async)
            try:
                results[(E.__name__, enable_async)] = "rendered " + repr(
                    env.from_string(src).render(cfg=Settings())
                )
            except Exception as e:
                results[(E.__name__, enable_async)] = f"raised {type(e).__name__}: {e}"
    if len(set(results.values())) != 1:
        bad.append(src)
        for k, v in results.items():
            bad.append(f"    {k[0]} async={k[1]}: {v}")

if bad:
    print("same template, same data, different handling of the lookup signal:")
    print("\n".join(bad))
    sys.exit(1)
print("ok")
