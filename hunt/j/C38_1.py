"""C38: an exception raised by a data *iterator* is swallowed when the loop variable peeks ahead.

`loop.last`, `loop.nextitem`, `loop.length`, `loop.revindex`, `loop.revindex0` are properties of
LoopContext that advance / exhaust the data iterator.  If the iterator raises an AttributeError
(or a private subclass of it - the most common real-world exception inside a generator) while
one of these properties runs, Python reports "the property lookup failed", Environment.getattr
treats that as a missing attribute and returns an undefined value, and rendering carries on.
The exception object never reaches the caller; with a generator the rest of the data is
silently dropped.  In async mode the same template propagates the exception, so the two
modes disagree on the same input.
"""
import sys

from jinja2 import Environment
from jinja2 import StrictUndefined
from jinja2.sandbox import SandboxedEnvironment


class Boom(AttributeError):
    pass


class State:
    exc = None


def rows(state, fail_at):
    for i in range(1, 4):
        if i == fail_at:
            state.exc = Boom(f"row {i} is broken")
            raise state.exc
        yield i


class Sized:
    """Iterable whose __len__ raises."""

    def __init__(self, state):
        self.state = state

    def __iter__(self):
        return iter([1, 2, 3])

    def __len__(self):
        self.state.exc = Boom("len is broken")
        raise self.state.exc


templates = {
    "last": "{% for x in data %}{{ x }}{% if loop.last %}!{% endif %},{% endfor %}",
    "nextitem": "{% for x in data %}{{ x }}>{{ loop.nextitem }},{% endfor %}",
    "length": "{% for x in data %}{{ x }}/{{ loop.length }},{% endfor %}",
    "revindex": "{% for x in data %}{{ x }}:{{ loop.revindex }},{% endfor %}",
}
bad = []

for E in (Environment, SandboxedEnvironment):
    for enable_async in (False, True):
        env = E(enable_async=enable_async)
        for name, src in templates.items():
            t = env.from_string(src)
            for kind in ("generator fails at row 2", "__len__ fails"):
                if kind == "__len__ fails" and name in ("last", "nextitem"):
                    continue
                st = State()
                data = rows(st, 2) if kind.startswith("generator") else Sized(st)
                try:
                    out = t.render(data=data)
                except Boom as e:
                    if e is not st.exc:
                        bad.append(f"{E.__name__} async={enable_async} loop.{name}: different exception object")
                else:
                    if st.exc is not None:
                        bad.append(
                            f"{E.__name__} async={enable_async} loop.{name} ({kind}):"
                            f" data raised {st.exc!r} but render returned {out!r}"
                        )

if bad:
    print("\n".join(bad))
    sys.exit(1)
print("ok")
