"""C21: `"text" % undefined` succeeds for every undefined type, including StrictUndefined.

`%` is a template arithmetic operator and is documented to fail for every undefined type
(StrictUndefined: "you can do nothing with it except checking if it's defined").
With a str (or Markup) left operand whose format string has no conversion specifier,
str.__mod__ treats the undefined value as a *mapping* argument (it has __getitem__),
needs no key from it, and returns the text.  Undefined.__rmod__ is never reached.
"""
import logging
import sys

from markupsafe import Markup

from jinja2 import ChainableUndefined
from jinja2 import DebugUndefined
from jinja2 import Environment
from jinja2 import StrictUndefined
from jinja2 import Undefined
from jinja2 import UndefinedError
from jinja2 import make_logging_undefined
from jinja2.sandbox import SandboxedEnvironment

log = logging.getLogger("c21_2")
log.addHandler(logging.NullHandler())
log.propagate = False

types = {
    "Undefined": Undefined,
    "ChainableUndefined": ChainableUndefined,
    "DebugUndefined": DebugUndefined,
    "StrictUndefined": StrictUndefined,
    "Logging(StrictUndefined)": make_logging_undefined(log, StrictUndefined),
}
bad = []

for tname, T in types.items():
    for other in ("abc", "100%%", "", Markup("<b>")):
        u = T(name="missing")
        try:
            r = other % u
        except UndefinedError as e:
            assert "missing" in str(e)
        else:
            bad.append(f"{tname}: {other!r} % undef returned {r!r} instead of raising UndefinedError")

    for E in (Environment, SandboxedEnvironment):
        for enable_async in (False, True):
            env = E(undefined=T, enable_async=enable_async)
            for src, ctx in (
                ("{{ 'abc' % missing }}", {}),
                ("{{ fmt % obj.nothing }}", {"fmt": "no placeholders", "obj": {}}),
            ):
                try:
                    r = env.from_string(src).render(**ctx)
                except UndefinedError:
                    pass
                else:
                    bad.append(
                        f"{tname} {E.__name__} async={enable_async}: {src} rendered {r!r}"
                        " instead of raising UndefinedError"
                    )

if bad:
    print("\n".join(bad))
    sys.exit(1)
print("ok")
