"""C21 (logging variants): most failing operations are not logged as failures.

make_logging_undefined is documented as "a factory function that can decorate undefined objects
to implement logging on failures"; the class it builds overrides _fail_with_undefined_error to
emit an *error* record before re-raising.  But Undefined's operator table
(__add__ = __radd__ = ... = __getitem__ = __call__ = __int__ = ... = _fail_with_undefined_error)
and StrictUndefined's (__str__ = __iter__ = __len__ = __eq__ = __bool__ = __hash__ = ...) are
class-level aliases of the *base* function object, so the override is bypassed for every one of
them.  Only non-dunder attribute access (which goes through __getattr__ -> self._fail...) is
logged: `missing.attr` logs an error record, `missing['attr']`, `missing + 1`, `missing|int`,
`-missing`, `missing < 1`, `missing()`, and - for a strict base - `{{ missing }}`,
`missing == 1`, `missing|length` raise UndefinedError without any error record.
"""
import logging
import sys

from jinja2 import DebugUndefined
from jinja2 import Environment
from jinja2 import StrictUndefined
from jinja2 import Undefined
from jinja2 import UndefinedError
from jinja2 import make_logging_undefined


class Collect(logging.Handler):
    def __init__(self):
        super().__init__()
        self.records = []

    def emit(self, record):
        self.records.append((record.levelname, record.getMessage()))


bad = []

for base in (Undefined, DebugUndefined, StrictUndefined):
    handler = Collect()
    logger = logging.getLogger(f"c21_5.{base.__name__}")
    logger.addHandler(handler)
    logger.propagate = False
    LU = make_logging_undefined(logger, base)

    ops = {
        "u.attr": lambda u: u.attr,
        "u['item']": lambda u: u["item"],
        "u + 1": lambda u: u + 1,
        "1 + u": lambda u: 1 + u,
        "u * 2": lambda u: u * 2,
        "-u": lambda u: -u,
        "u < 1": lambda u: u < 1,
        "int(u)": lambda u: int(u),
        "float(u)": lambda u: float(u),
        "u()": lambda u: u(),
    }
    if base is StrictUndefined:
        ops.update(
            {
                "str(u)": lambda u: str(u),
                "len(u)": lambda u: len(u),
                "u == 1": lambda u: u == 1,
                "hash(u)": lambda u: hash(u),
                "bool(u)": lambda u: bool(u),
                "iter(u)": lambda u: iter(u),
                "1 in u": lambda u: 1 in u,
            }
        )

    for label, op in ops.items():
        handler.records.clear()
        try:
            op(LU(name="missing"))
        except UndefinedError:
            errors = [r for r in handler.records if r[0] == "ERROR"]
            if not errors:
                bad.append(
                    f"Logging({base.__name__}): {label} raised UndefinedError but no error record was"
                    f" logged (records: {handler.records})"
                )
        else:
            bad.append(f"Logging({base.__name__}): {label} did not raise")

    # the same through templates
    env = Environment(undefined=LU)
    for src in ("{{ missing.attr }}", "{{ missing['attr'] }}", "{{ missing + 1 }}", "{{ missing|int }}"):
        handler.records.clear()
        try:
            env.from_string(src).render()
        except UndefinedError:
            if not [r for r in handler.records if r[0] == "ERROR"]:
                bad.append(f"Logging({base.__name__}): template {src} failed without an error record")

if bad:
    print("\n".join(bad))
    sys.exit(1)
print("ok")
