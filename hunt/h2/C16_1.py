"""C16: the format filter with a plain format string and a rendered fragment (macro result,
set block, call block, self.block()) as argument returns the fragment's escaped text as a plain
str, so autoescaping escapes the macro's content a second time."""
import html
import sys
from jinja2 import Environment

v = "<v>&"
templates = [
    '{% macro m(a) %}{{ a }}{% endmacro %}{{ "[%s]"|format(m(v)) }}',
    '{% set x %}{{ v }}{% endset %}{{ "[%s]"|format(x) }}',
    '{% block b %}{{ v }}{% endblock %}{{ "[%s]"|format(self.b()) }}',
    '{% macro w() %}{{ "[%s]"|format(caller()) }}{% endmacro %}{% call w() %}{{ v }}{% endcall %}',
]
bad = 0
for src in templates:
    on = Environment(autoescape=True).from_string(src).render(v=v)
    off = Environment(autoescape=False).from_string(src).render(v=v)
    if html.unescape(on) != off:
        bad += 1
        print(src)
        print("   autoescape on :", on)
        print("   unescaped once:", html.unescape(on))
        print("   autoescape off:", off)
# for comparison: the ~ operator and the join / replace filters promote to Markup and are fine
for src in ['{% set x %}{{ v }}{% endset %}{{ "[" ~ x ~ "]" }}',
            '{% set x %}{{ v }}{% endset %}{{ ["[", x, "]"]|join }}',
            '{% set x %}{{ v }}{% endset %}{{ "[_]"|replace("_", x) }}']:
    on = Environment(autoescape=True).from_string(src).render(v=v)
    off = Environment(autoescape=False).from_string(src).render(v=v)
    assert html.unescape(on) == off, src
if bad:
    print(f"{bad} templates escape the fragment's content twice")
    sys.exit(1)
print("ok")
