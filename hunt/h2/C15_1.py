"""C15: a {% set %} block of a parent template that is compiled WITHOUT autoescaping
marks its (unescaped) text as Markup when the template that extends it is rendered WITH
autoescaping (selector based); the child's block then prints context data raw."""
import sys
from jinja2 import Environment, DictLoader, select_autoescape

v = '<script a="1">&'
env = Environment(
    autoescape=select_autoescape(),  # on for *.html, off for *.txt
    loader=DictLoader(
        {
            "base.txt": "{% set x %}[{{ v }}]{% endset %}{% block b %}{% endblock %}",
            "page.html": '{% extends "base.txt" %}{% block b %}{{ x }}{% endblock %}',
        }
    ),
)
out = env.get_template("page.html").render(v=v)
print("output of page.html (autoescape active by selector):", out)
leak = [c for c in "<>\"'" if c in out]
if leak:
    print("LEAK: {{ x }} in page.html printed context data unescaped:", leak)
    sys.exit(1)
print("ok")
