"""C38: a StopIteration (private subclass) raised by a data attribute / str conversion -- not by a data
callable, the only documented StopIteration signal -- is silently swallowed (output truncated) by `~`,
`join`, `sum(attribute=)` and by any macro call, and is replaced by a RuntimeError elsewhere."""
import asyncio, sys
from jinja2 import Environment


class Boom(StopIteration):
    pass


boom = Boom("private")


class Row:
    def __init__(self, v, bad=False):
        self._v, self.bad = v, bad

    @property
    def v(self):                      # attribute access event
        if self.bad:
            raise boom
        return self._v

    def __str__(self):                # str conversion event
        if self.bad:
            raise boom
        return f"row{self._v}"


rows = [Row(1), Row(2, bad=True), Row(3)]
cases = [
    "{{ 'head ' ~ rows[1] ~ ' tail' }}",                      # str_join / markup_join: map(str, seq)
    "{{ rows|join(',') }}",                                   # do_join: map(str, value)
    "{{ rows|join(',', attribute='v') }}",                    # do_join: map(attrgetter, value)
    "{{ rows|sum(attribute='v') }}",                          # do_sum: map(attrgetter, iterable)
    "{% macro m(r) %}[{{ r.v }}]{% endmacro %}{{ m(rows[1]) }}|after",   # Context.call turns it into undefined
    "{{ rows[1] }}",                                          # replaced: RuntimeError('generator raised StopIteration')
    "{{ rows[1].v }}",
]
bad = 0
for kw in ({}, {"autoescape": True}, {"enable_async": True}):
    env = Environment(**kw)
    for src in cases:
        t = env.from_string(src)
        try:
            out = asyncio.run(t.render_async(rows=rows)) if kw.get("enable_async") else t.render(rows=rows)
            res = f"rendered {out!r} (exception swallowed, output truncated)"
        except BaseException as e:
            res = None if e is boom else f"raised a different exception: {type(e).__name__}: {e}"
        if res:
            bad += 1
            print(f"{kw} {src}\n    -> {res}")
if bad:
    print(f"{bad} renders did not raise the exception object raised by the data")
    sys.exit(1)
print("ok")
