"""C38: LoopContext.length wraps len(<data>) in `except TypeError`: a TypeError (private subclass) raised BY the
data's own __len__ is swallowed (loop.length / revindex / revindex0 / loop|length then count by exhausting the
iterator); in async mode loop|length replaces it by an unrelated TypeError."""
import asyncio, sys
from jinja2 import Environment
from jinja2.sandbox import SandboxedEnvironment


class Boom(TypeError):
    pass


boom = Boom("private: backend not reachable")


class Rows:
    def __iter__(self):
        return iter([1, 2, 3])

    def __len__(self):          # e.g. a lazy query set whose COUNT fails
        raise boom


bad = 0
for E in (Environment, SandboxedEnvironment):
    for kw in ({}, {"enable_async": True}):
        env = E(**kw)
        for src in [
            "{% for x in rows %}{{ loop.length }}{% endfor %}",
            "{% for x in rows %}{{ loop.revindex }}{% endfor %}",
            "{% for x in rows %}{{ loop.revindex0 }}{% endfor %}",
            "{% for x in rows %}{{ loop|length }}{% endfor %}",
            "{% for x in rows recursive %}{{ loop.length }}{% endfor %}",
        ]:
            t = env.from_string(src)
            try:
                out = asyncio.run(t.render_async(rows=Rows())) if kw else t.render(rows=Rows())
                res = f"rendered {out!r}: the exception raised by rows.__len__ was swallowed"
            except BaseException as e:
                res = None if e is boom else f"raised a different exception: {type(e).__name__}: {e}"
            if res:
                bad += 1
                print(f"{E.__name__} {kw} {src}\n    -> {res}")
# control: the same data error propagates unchanged where the engine does not catch TypeError
try:
    Environment().from_string("{{ rows|length }}").render(rows=Rows())
except Boom as e:
    assert e is boom
if bad:
    print(f"{bad} renders did not raise the exception object raised by the data")
    sys.exit(1)
print("ok")
