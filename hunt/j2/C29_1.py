"""C29: a tuple {% set %} whose first target rebinds the namespace name bypasses the
Namespace guard and makes the engine store into the caller's data / the environment globals."""
import copy, sys
from jinja2 import Environment
from jinja2.sandbox import ImmutableSandboxedEnvironment

bad = 0
for E in (Environment, ImmutableSandboxedEnvironment):
    env = E()
    env.globals["G"] = {"site": "x"}
    for src, what in [
        ("{% set ns = namespace() %}{% set ns, ns.x = d, 1 %}", "render data"),
        ("{% set ns = namespace() %}{% set ns, ns.injected = G, 1 %}", "environment globals"),
        ("{% set ns = namespace() %}{% set ns, ns.injected = TG, 1 %}", "template globals"),
    ]:
        d = {"a": 1}
        tg = {"TG": {"t": 1}}
        t = env.from_string(src, globals=tg)
        snap = copy.deepcopy((d, dict(env.globals["G"]), tg))
        try:
            t.render(d=d)
            outcome = "rendered without error"
        except Exception as e:  # a TemplateRuntimeError would be the guarded behaviour
            outcome = f"raised {type(e).__name__}: {e}"
        now = (d, dict(env.globals["G"]), tg)
        if now != snap:
            bad += 1
            print(f"{E.__name__}: {src!r} ({what}) {outcome}; inputs changed:\n   before {snap}\n   after  {now}")
        # plain form is guarded:
    try:
        env.from_string("{% set d.x = 1 %}").render(d={})
        print("unexpected: plain {% set d.x = 1 %} did not raise")
    except Exception as e:
        pass
if bad:
    print(f"{bad} renders modified their inputs")
    sys.exit(1)
print("ok")
