"""per-VC timing: python tools/dbg2.py contracts.c06 "MacroCall((True,False,False))" [npaths]"""
import importlib
import sys
import time

sys.path.insert(0, "/verif")
from pyvc.engine import Interp

mod = importlib.import_module(sys.argv[1])
c = eval(sys.argv[2], vars(mod))
npaths = int(sys.argv[3]) if len(sys.argv) > 3 else 1000
I = Interp()
t0 = time.time()
pre, outs = c.paths(I)
print("paths", len(outs), round(time.time() - t0, 1), "side", len(I.obligations), flush=True)
for (nm, pc, cond, ln) in I.obligations[: npaths * 3]:
    t = time.time()
    r = c.discharge(nm, pc, cond, 10000, 0, None, None)
    print(nm, ln, r.status, r.backend, round(time.time() - t, 2), r.detail[:200], flush=True)
for o in outs[:npaths]:
    for clause, fn in c.posts:
        f = fn(c, pre, o)
        if f is None:
            continue
        t = time.time()
        r = c.discharge(clause, o.st.pc, f, 10000, 0, pre, o)
        print(o.idx, o.kind, getattr(o.value, "origin", ""), clause, r.status, r.backend, round(time.time() - t, 2), r.detail[:300], flush=True)
