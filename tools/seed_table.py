#!/usr/bin/env python3
"""Print the markdown table of seeded changes (seeded/*/meta.json) for DESIGN.md section 11.4.

Columns: seed | change (first words of the sub-agent's summary) | first verdict of `./check <PID>` on the patched copy |
verdict after strengthening (the "recheck" record written by tools/seedrecheck.py), with the obligations that fire."""
import glob
import json
import os
import re

ROOT = os.path.dirname(os.path.dirname(os.path.abspath(__file__)))


def obligations(results):
    obls = []
    for pid, r in (results or {}).items():
        if r.get("exit") != 1:
            continue
        for l in r.get("lines", []):
            mm = re.match(r"\s*obligation (\S+?):", l)
            if mm:
                obls.append(re.sub(r"#p\d+$", "", mm.group(1)))
    return list(dict.fromkeys(obls))


def verdict(results):
    if not results:
        return "-"
    codes = {p: r.get("exit") for p, r in results.items()}
    if any(c == 1 for c in codes.values()):
        ob = obligations(results)
        by = [p for p, c in codes.items() if c == 1]
        s = "caught by " + "/".join(by)
        if ob:
            s += ": " + ", ".join(f"`{o}`" for o in ob[:2]) + (f" (+{len(ob) - 2})" if len(ob) > 2 else "")
        return s
    if any(c == 2 for c in codes.values()):
        return "undecided (exit 2: " + "/".join(p for p, c in codes.items() if c == 2) + ")"
    if any(c not in (0, 1, 2) for c in codes.values()):
        return "checker error"
    return "MISSED (exit 0)"


rows = []
n = caught_first = caught_now = 0
for d in sorted(glob.glob(os.path.join(ROOT, "seeded", "*"))):
    mp = os.path.join(d, "meta.json")
    if not os.path.exists(mp):
        continue
    m = json.load(open(mp))
    name = os.path.basename(d)
    summ = (m.get("summary") or "").replace("|", "/").replace("\n", " ")
    summ = summ[:140] + ("…" if len(summ) > 140 else "")
    first = verdict(m.get("check_results"))
    rc = m.get("recheck")
    if rc is None:
        now = "(same)"
        detected_now = bool(m.get("detected"))
    elif rc.get("patch_exit") != 0:
        now = "patch no longer applies"
        detected_now = bool(m.get("detected"))
    else:
        now = verdict(rc.get("checks")) + ("" if rc.get("still_breaks") else " [demo no longer fails on the current tree]")
        detected_now = bool(rc.get("detected"))
    n += 1
    caught_first += bool(m.get("detected"))
    caught_now += detected_now
    rows.append(f"| {name} | {summ} | {first} | {now} |")
print(f"{n} seeded changes; {caught_first} reported as a violation by the first run of the property's own check, {caught_now} after strengthening / by the check of the property that owns the function.\n")
print("| seed | change | first run of `./check <PID>` | after strengthening (recheck) |")
print("|---|---|---|---|")
print("\n".join(rows))
