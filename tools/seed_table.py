#!/usr/bin/env python3
"""Print the markdown table of seeded changes (seeded/*/meta.json) for DESIGN.md section 11.4."""
import glob
import json
import os
import re

ROOT = os.path.dirname(os.path.dirname(os.path.abspath(__file__)))
rows = []
for d in sorted(glob.glob(os.path.join(ROOT, "seeded", "*"))):
    mp = os.path.join(d, "meta.json")
    if not os.path.exists(mp):
        continue
    m = json.load(open(mp))
    name = os.path.basename(d)
    summ = (m.get("summary") or "").replace("|", "/").replace("\n", " ")
    summ = summ[:150] + ("…" if len(summ) > 150 else "")
    obls = []
    for pid, r in (m.get("check_results") or {}).items():
        for l in r.get("lines", []):
            mm = re.match(r"\s*obligation (\S+?):", l)
            if mm:
                obls.append(mm.group(1))
    obls = list(dict.fromkeys(obls))
    if m.get("detected"):
        verdict = "caught: " + ", ".join(f"`{o}`" for o in obls[:3]) + (f" (+{len(obls) - 3})" if len(obls) > 3 else "")
    elif m.get("confirmed_by_main_session") is False:
        verdict = "not confirmed (" + "; ".join(m.get("what_i_ran", [])[-3:])[:120] + ")"
    else:
        verdict = "MISSED"
    hist = m.get("history")
    if hist:
        verdict += " — " + hist
    rows.append(f"| {name} | {summ} | {verdict} |")
print("| seed | change | verdict of `./check` on the patched copy |")
print("|---|---|---|")
print("\n".join(rows))
