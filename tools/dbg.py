"""debug helper: ./.venv/bin/python tools/dbg.py contracts.c06 MacroCall"""
import importlib
import sys
import time

sys.path.insert(0, "/verif")
import pyvc.smt as smt
import pyvc.interp
import pyvc.stmts
import pyvc.models
from pyvc.engine import Interp

orig = smt.feasible
cnt = [0]


def feas(pc, t=2000):
    t0 = time.time()
    r = orig(pc, t)
    dt = time.time() - t0
    cnt[0] += 1
    if dt > 0.5:
        print("slow feasible", round(dt, 2), len(pc), flush=True)
    return r


smt.feasible = feas
pyvc.interp.feasible = feas
pyvc.stmts.feasible = feas

mod = importlib.import_module(sys.argv[1])
c = getattr(mod, sys.argv[2])()
I = Interp()
t0 = time.time()
pre, outs = c.paths(I)
print("paths", len(outs), round(time.time() - t0, 2), "feas calls", cnt[0])
for o in outs:
    print(o.idx, o.kind, o.value, "pc", len(o.st.pc), "notes", o.st.notes[:3])
print("side obligations", len(I.obligations))
if len(sys.argv) > 3:
    for r in c.run("quick", 0):
        print(r.name, r.status, r.backend, round(r.seconds, 2), r.detail[:300])
