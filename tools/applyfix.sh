#!/bin/sh
# tools/applyfix.sh <proposed_fixes/x.diff> <subject> [<body>]: apply one repair to /repo as its own `fix:` commit.
# The unedited test suite must pass with it; otherwise the change is reverted and nothing is committed.
D=$(readlink -f "$1"); SUBJ=$2; BODY=$3
cd /repo || exit 1
[ -z "$(git status --porcelain)" ] || { echo "repo not clean"; exit 1; }
patch -p1 -s -f < "$D" || { git checkout -- . ; echo "PATCH FAILED $D"; exit 1; }
find . -name '*.orig' -delete; find . -name '*.rej' -delete
OUT=$(timeout 900 /venv/bin/python -m pytest -q -p no:cacheprovider 2>&1 | tail -1)
case "$OUT" in
  *" passed"*) case "$OUT" in *failed*|*error*) git checkout -- . ; echo "TESTS FAILED: $OUT"; exit 1;; esac ;;
  *) git checkout -- . ; echo "TESTS FAILED: $OUT"; exit 1;;
esac
git add -A
if [ -n "$BODY" ]; then git commit -q -m "fix: $SUBJ" -m "$BODY"; else git commit -q -m "fix: $SUBJ"; fi
echo "$(git log -1 --format=%h) fix: $SUBJ ($OUT)"
git -C /verif rm -q --cached "$D" 2>/dev/null; rm -f "$D"
