#!/bin/sh
# tools/mkseedwt.sh <PID> <round>: scratch git worktree of /repo under /tmp for a seed sub-agent, with PROPERTY.txt and
# (rounds > 1) ALREADY_SEEDED.txt = one-paragraph summaries of the changes earlier sub-agents made for this property
PID=$1; R=${2:-1}; l=$(echo $PID | tr C c); D=/tmp/seed${R}_$l
git -C /repo worktree add --detach $D HEAD -q || exit 1
/verif/.venv/bin/python - "$PID" "$D" <<'PY'
import json,sys,glob,os
pid,d=sys.argv[1:]
for l in open('/verif/properties.jsonl'):
    x=json.loads(l)
    if x['id']==pid:
        open(d+'/PROPERTY.txt','w').write(f"{x['id']}: {x['title']}\n\n{x['statement']}\n\nQuantifier: {x['quantifier']['text']}\n\nWhy tests cannot settle it: {x['why_tests_cant']}\n")
prev=[]
for m in sorted(glob.glob(f'/verif/seeded/{pid}_*/meta.json')):
    j=json.load(open(m)); prev.append('- '+(j.get('summary') or '')[:600])
if prev:
    open(d+'/ALREADY_SEEDED.txt','w').write("Changes already made by earlier sub-agents for this property (make DIFFERENT ones, in different functions where possible):\n\n"+"\n\n".join(prev)+"\n")
PY
echo $D
