#!/usr/bin/env python3
"""Confirm a seeded change and run the property's check against it.

usage: tools/seedtest.py <PID> <seed_dir> <k> [--keep-as NAME] [--jobs N]
  seed_dir contains patch<k>.diff, demo<k>.py, meta<k>.json (made by an independent sub-agent).
Steps (all on a scratch copy under /tmp, removed afterwards; /repo is never touched):
  1. unchanged copy: demo exits 0
  2. patched copy: full test suite passes, demo exits != 0
  3. ./check <PID> with PYVC_REPO_SRC=<patched copy>/src  -> exit code / VIOLATION lines
Result is stored in /verif/seeded/<NAME>/ (patch.diff, demo.py, meta.json).
"""
import json
import os
import shutil
import subprocess
import sys
import time

ROOT = os.path.dirname(os.path.dirname(os.path.abspath(__file__)))


def run(cmd, cwd=None, env=None, timeout=900):
    p = subprocess.run(cmd, cwd=cwd, env=env, capture_output=True, text=True, timeout=timeout, shell=isinstance(cmd, str))
    return p.returncode, (p.stdout + p.stderr)


def main():
    pid, seed_dir, k = sys.argv[1], sys.argv[2], sys.argv[3]
    name = f"{pid}_{os.path.basename(seed_dir.rstrip('/')).replace('seed_', '')}_{k}"
    jobs = "8"
    also = []
    if "--keep-as" in sys.argv:
        name = sys.argv[sys.argv.index("--keep-as") + 1]
    if "--jobs" in sys.argv:
        jobs = sys.argv[sys.argv.index("--jobs") + 1]
    if "--also" in sys.argv:
        also = sys.argv[sys.argv.index("--also") + 1].split(",")
    patch = os.path.join(seed_dir, f"patch{k}.diff")
    demo = os.path.join(seed_dir, f"demo{k}.py")
    meta = json.load(open(os.path.join(seed_dir, f"meta{k}.json"))) if os.path.exists(os.path.join(seed_dir, f"meta{k}.json")) else {}
    scratch = f"/tmp/seedrun_{name}"
    shutil.rmtree(scratch, ignore_errors=True)
    os.makedirs(scratch)
    for d in ("src", "tests"):
        shutil.copytree(f"/repo/{d}", f"{scratch}/{d}")
    for f in ("pyproject.toml",):
        shutil.copy(f"/repo/{f}", scratch)
    env = dict(os.environ, PYTHONPATH=f"{scratch}/src")
    ran = []
    rc0, out0 = run(["/venv/bin/python", demo], cwd=scratch, env=env)
    ran.append(f"demo on unchanged copy: exit {rc0}")
    rcp, outp = run(["patch", "-p1", "-i", patch], cwd=scratch)
    ran.append(f"patch -p1: exit {rcp}")
    rct, outt = run(["/venv/bin/python", "-m", "pytest", "-q", "-x", "-p", "no:cacheprovider", "tests"], cwd=scratch, env=env)
    ran.append(f"pytest on patched copy: exit {rct} ({outt.strip().splitlines()[-1] if outt.strip() else ''})")
    rc1, out1 = run(["/venv/bin/python", demo], cwd=scratch, env=env)
    ran.append(f"demo on patched copy: exit {rc1}")
    confirmed = rc0 == 0 and rcp == 0 and rct == 0 and rc1 != 0
    results = {}
    for p in [pid] + also:
        t0 = time.time()
        env2 = dict(os.environ, PYVC_REPO_SRC=f"{scratch}/src")
        rcc, outc = run([os.path.join(ROOT, "check"), p, "--jobs", jobs], cwd=ROOT, env=env2, timeout=1500)
        lines = [l for l in outc.splitlines() if l.startswith(("VIOLATION", "UNDECIDED", "CHECKER-ERROR", "  obligation")) or l.startswith(p + ":")]
        results[p] = {"exit": rcc, "wall_s": round(time.time() - t0, 1), "lines": lines[:12]}
        ran.append(f"PYVC_REPO_SRC=<patched>/src ./check {p}: exit {rcc}")
    # (runs with PYVC_REPO_SRC write their evidence to .tmp/evidence_scratch, never to evidence/)
    shutil.rmtree(scratch, ignore_errors=True)
    dest = os.path.join(ROOT, "seeded", name)
    os.makedirs(dest, exist_ok=True)
    shutil.copy(patch, os.path.join(dest, "patch.diff"))
    shutil.copy(demo, os.path.join(dest, "demo.py"))
    meta.update({"property": pid, "confirmed_by_main_session": confirmed, "what_i_ran": ran,
                 "demo_output_patched": out1[-600:], "check_results": results,
                 "detected": any(r["exit"] == 1 for r in results.values())})
    json.dump(meta, open(os.path.join(dest, "meta.json"), "w"), indent=1)
    print(json.dumps({"name": name, "confirmed": confirmed, "detected": meta["detected"],
                      "results": {p: (r["exit"], r["lines"][:4]) for p, r in results.items()}, "ran": ran}, indent=1))


if __name__ == "__main__":
    main()
