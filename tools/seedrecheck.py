#!/usr/bin/env python3
"""Re-run the stored seeded changes against the current checks (regression suite of the machinery).

usage: tools/seedrecheck.py [NAME ...] [--only-missed] [--jobs N] [--par K]
For every seeded/<NAME>/ : scratch copy of /repo's src+tests under /tmp, apply patch.diff, run demo.py
(must still exit != 0, otherwise the change no longer breaks the property on the current tree, e.g. because a
later `fix:` commit rewrote the place), run ./check <PID> with PYVC_REPO_SRC=<scratch>/src.  The result is
stored in meta.json under "recheck" (the first verdict stays under "check_results"); scratch is removed.
"""
import concurrent.futures as cf
import json
import os
import shutil
import subprocess
import sys
import time

ROOT = os.path.dirname(os.path.dirname(os.path.abspath(__file__)))
ALSO = []  # --also C34,C08: further checks to run against the patched copy (a change usually breaks more than one property)


def run(cmd, cwd=None, env=None, timeout=1800):
    try:
        p = subprocess.run(cmd, cwd=cwd, env=env, capture_output=True, text=True, timeout=timeout)
        return p.returncode, p.stdout + p.stderr
    except subprocess.TimeoutExpired as e:
        return 124, "timeout"


def one(name, jobs):
    d = os.path.join(ROOT, "seeded", name)
    meta = json.load(open(os.path.join(d, "meta.json")))
    pid = meta.get("property") or name.split("_")[0]
    scratch = f"/tmp/seedre_{name}"
    shutil.rmtree(scratch, ignore_errors=True)
    os.makedirs(scratch)
    for sub in ("src", "tests"):
        shutil.copytree(f"/repo/{sub}", f"{scratch}/{sub}")
    env = dict(os.environ, PYTHONPATH=f"{scratch}/src")
    rc0, _ = run(["/venv/bin/python", os.path.join(d, "demo.py")], cwd=scratch, env=env)
    rcp, outp = run(["patch", "-p1", "--no-backup-if-mismatch", "-i", os.path.join(d, "patch.diff")], cwd=scratch)
    rec = {"when": time.strftime("%Y-%m-%d %H:%M"), "demo_unchanged_exit": rc0, "patch_exit": rcp}
    if rcp == 0:
        rc1, _ = run(["/venv/bin/python", os.path.join(d, "demo.py")], cwd=scratch, env=env)
        rec["demo_patched_exit"] = rc1
        rec["still_breaks"] = rc0 == 0 and rc1 != 0
        earlier = list(meta.get("check_results") or {}) + list((meta.get("recheck") or {}).get("checks") or {})
        checks = [pid] + [p for p in earlier + ALSO if p != pid]
        checks = list(dict.fromkeys(checks))
        rec["checks"] = {}
        for p in checks:
            t0 = time.time()
            rcc, outc = run([os.path.join(ROOT, "check"), p, "--jobs", str(jobs)], cwd=ROOT,
                            env=dict(os.environ, PYVC_REPO_SRC=f"{scratch}/src"))
            lines = [l for l in outc.splitlines() if l.startswith(("VIOLATION", "UNDECIDED", "CHECKER-ERROR", "  obligation")) or l.startswith(p + ":")]
            rec["checks"][p] = {"exit": rcc, "wall_s": round(time.time() - t0, 1), "lines": lines[:12]}
        rec["detected"] = any(r["exit"] == 1 for r in rec["checks"].values())
    else:
        rec["still_breaks"] = None
        rec["note"] = "patch no longer applies to the current tree: " + outp.strip().splitlines()[-1][:200]
    shutil.rmtree(scratch, ignore_errors=True)
    meta["recheck"] = rec
    json.dump(meta, open(os.path.join(d, "meta.json"), "w"), indent=1)
    return name, rec


def main():
    args = [a for a in sys.argv[1:] if not a.startswith("--")]
    jobs = int(sys.argv[sys.argv.index("--jobs") + 1]) if "--jobs" in sys.argv else 4
    par = int(sys.argv[sys.argv.index("--par") + 1]) if "--par" in sys.argv else 4
    if "--also" in sys.argv:
        ALSO.extend(sys.argv[sys.argv.index("--also") + 1].split(","))
    for flag in ("--jobs", "--par", "--also"):
        if flag in sys.argv:
            args = [a for a in args if a != sys.argv[sys.argv.index(flag) + 1]]
    names = args or sorted(n for n in os.listdir(os.path.join(ROOT, "seeded"))
                           if os.path.exists(os.path.join(ROOT, "seeded", n, "meta.json")))
    if "--only-missed" in sys.argv:
        keep = []
        for n in names:
            m = json.load(open(os.path.join(ROOT, "seeded", n, "meta.json")))
            if not (m.get("recheck") or m).get("detected"):
                keep.append(n)
        names = keep
    with cf.ThreadPoolExecutor(par) as ex:
        for name, rec in ex.map(lambda n: one(n, jobs), names):
            ck = {p: r["exit"] for p, r in rec.get("checks", {}).items()}
            print(f"{name}: applies={rec['patch_exit'] == 0} still_breaks={rec.get('still_breaks')} detected={rec.get('detected')} checks={ck}", flush=True)


if __name__ == "__main__":
    main()
