#!/bin/sh
# tools/mkhuntwt.sh <name> <PID> [<PID> ...]: scratch git worktree of /repo HEAD under /tmp/refac_<name> for a sub-agent that
# searches the UNCHANGED tree for violations of the given properties; PROPERTIES.txt = the property statements,
# KNOWN.txt = the known findings and already repaired defects for those properties (so they are not reported again).
NAME=$1; shift
D=/tmp/refac_$NAME
git -C /repo worktree add --detach $D HEAD -q || exit 1
/verif/.venv/bin/python - "$D" "$@" <<'PY'
import json, sys, glob
d, pids = sys.argv[1], sys.argv[2:]
props = {json.loads(l)["id"]: json.loads(l) for l in open("/verif/properties.jsonl")}
with open(d + "/PROPERTIES.txt", "w") as f:
    for p in pids:
        x = props[p]
        f.write(f"{x['id']}: {x['title']}\n\n{x['statement']}\n\nQuantifier: {x['quantifier']['text']}\n\nWhy tests cannot settle it: {x['why_tests_cant']}\n\n{'-' * 100}\n\n")
known = []
for fn in ["/verif/known_findings.json"] + sorted(glob.glob("/verif/known_findings.d/*.json")):
    j = json.load(open(fn))
    for x in j.get("findings", []):
        if x["property"] in pids:
            known.append(f"- [{x['property']}] (known, not repaired) {x['what'][:700]}")
    for x in j.get("fixed", []):
        s = x if isinstance(x, str) else json.dumps(x)
        if any(f"property={p} " in s for p in pids):
            known.append(f"- (already repaired in this tree) {s[:500]}")
with open(d + "/KNOWN.txt", "w") as f:
    f.write("Already known for these properties - do not report again:\n\n" + "\n".join(dict.fromkeys(known)) + "\n")
PY
echo $D
