#!/usr/bin/env python3
"""Regenerates MANIFEST.json from the contract modules (META of each contracts/cNN.py)."""
import importlib
import json
import os
import sys

ROOT = os.path.dirname(os.path.dirname(os.path.abspath(__file__)))
sys.path.insert(0, ROOT)
sys.path.insert(1, "/repo/src")

from pyvc.runner import claimed_level, load_known  # noqa: E402

NA = {
    "C37": "quantifies over interleavings of await points of several asyncio tasks; the verifier has a sequential semantics "
           "(DESIGN A7) and no contract available here can express 'for every schedule'. The frame facts that make "
           "non-interference plausible are proved under C29/C26 but do not decide it (DESIGN section 6).",
}
PENDING = "contracts for this property are not completed yet in this build (DESIGN section 8 build order); not claimed"


def main():
    props = [json.loads(l) for l in open(os.path.join(ROOT, "properties.jsonl"))]
    checks, na, engines = [], [], {}
    for p in props:
        pid = p["id"]
        path = os.path.join(ROOT, "contracts", pid.lower() + ".py")
        if pid in NA:
            na.append({"property_id": pid, "reason": NA[pid]})
            continue
        ready = set(open(os.path.join(ROOT, "contracts", "READY")).read().split())
        if not os.path.exists(path) or pid not in ready:
            na.append({"property_id": pid, "reason": PENDING})
            continue
        mod = importlib.import_module("contracts." + pid.lower())
        meta = mod.META
        checks.append({
            "property_id": pid,
            "quick_cmd": f"./check {pid} --tier quick",
            "thorough_cmd": f"./check {pid} --tier thorough",
            "evidence_file": f"/verif/evidence/{pid}.json",
            "replay_cmd_template": "./check --replay {path}",
            "engine": "pyvc",
            "level_claimed": {
                "category": claimed_level(pid, meta, load_known()),
                "text": meta["explanation"],
                "design_ref": f"DESIGN.md section 5 {pid}",
            },
            "level_note": "; ".join(meta.get("assumptions", []) + ["trusted: " + ", ".join(meta.get("trusted_base", []))]),
            "technique": meta.get("technique", "contract-based deductive verification: VCs generated from the real function ASTs (pyvc), discharged by z3/cvc5"),
        })
    man = {
        "version": 1,
        "setup_cmd": "sh ./setup.sh",
        "hooks": {
            "guard": "PALLETS_JINJA_VERIF",
            "enable": "no hooks are needed: contracts are sidecar files in /verif/contracts, /repo is read (imported and parsed) as is",
            "baseline_off_cmd": "cd /repo && /venv/bin/python -m pytest -ra -q -p no:cacheprovider --timeout=900 --continue-on-collection-errors",
            "source_commits": [],
            "add_only": True,
        },
        "engines": [{
            "name": "pyvc", "path": "/verif/pyvc",
            "serves_properties": [c["property_id"] for c in checks],
            "kind_free_text": "home-built deductive verifier for Python: symbolic execution of the real function ASTs (re-extracted from /repo on "
                              "every run) against sidecar contracts; obligations discharged by z3 5.1 and cvc5; emission-schema, table and "
                              "regex-fact obligations; bounded stand-ins labelled as such",
        }],
        "checks": checks,
        "not_applicable": na,
        "notes": "exit codes: 0 held / 1 violation (VIOLATION line) / 2 undecided / 3 checker error. known findings (never written at run "
                 "time): /verif/known_findings.json + /verif/known_findings.d/*.json, readable summary with the repaired defects in "
                 "/verif/FINDINGS.md; seeded changes and their verdicts: /verif/seeded/ (TABLE.md); behaviour-preserving refactorings "
                 "used as false-alarm test: /verif/refactor/ (RESULTS.json); independent violation reports and their triage: /verif/hunt/",
    }
    with open(os.path.join(ROOT, "MANIFEST.json"), "w") as f:
        json.dump(man, f, indent=1)
    print(f"MANIFEST: {len(checks)} checks, {len(na)} not_applicable")


if __name__ == "__main__":
    main()
