"""python tools/emit_try.py visit_Getattr Getattr [buffer]"""
import sys
import time

sys.path.insert(0, "/verif")
from pyvc import emit
import jinja2.nodes as N

meth, ncls = sys.argv[1], sys.argv[2]
buf = sys.argv[3] if len(sys.argv) > 3 else None
t0 = time.time()
schemas, I = emit.run_visitor(f"jinja2.compiler:CodeGenerator.{meth}", getattr(N, ncls), buffer=buf)
print(len(schemas), "paths", round(time.time() - t0, 2), "s")
for sc in schemas:
    print("-", sc.outcome, sc.value if sc.outcome == "raise" else "", "|", sc.describe().replace("\n", "\\n"))
    print("    notes:", sc.notes[:6], " pc:", [str(c)[:60] for c in sc.pc][:8])
    try:
        for txt, ph in sc.texts():
            print("    text:", txt.replace("\n", "\\n")[:300])
    except Exception as ex:
        print("    render error", ex)
