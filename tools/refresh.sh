#!/bin/sh
# re-run every READY check on the unchanged tree (writes evidence/<ID>.json); prints one line per check
cd "$(dirname "$0")/.."
for id in $(cat contracts/READY); do
  out=$(timeout 900 ./check $id --jobs ${JOBS:-16} 2>&1 | grep -v conda | tail -1)
  echo "rc=$? $out"
done
