#!/usr/bin/env python3
"""Run the checks against behaviour-preserving refactorings (false-alarm test of the machinery).

usage: tools/refactest.py [NAME ...] [--jobs N] [--par K]
For every refactor/<group>/<PID>_r<k>.diff (made by independent sub-agents, property text only): scratch copy of /repo's
src+tests under /tmp, apply the diff, the full test suite must still pass, then ./check <PID> with PYVC_REPO_SRC=<scratch>/src.
Expected exit 0.  Exit 1 = the check raises an alarm on code where the property holds (a defect of the machinery, to be fixed
in the contract); exit 2 = undecided on the refactored shape (tolerated, but recorded).  Results: refactor/RESULTS.json."""
import concurrent.futures as cf
import glob
import json
import os
import re
import shutil
import subprocess
import sys
import time

ROOT = os.path.dirname(os.path.dirname(os.path.abspath(__file__)))


def run(cmd, cwd=None, env=None, timeout=2400):
    try:
        p = subprocess.run(cmd, cwd=cwd, env=env, capture_output=True, text=True, timeout=timeout)
        return p.returncode, p.stdout + p.stderr
    except subprocess.TimeoutExpired:
        return 124, "timeout"


def one(path, jobs):
    name = os.path.basename(path)[:-5]
    pid = name.split("_")[0]
    scratch = f"/tmp/refrun_{name}"
    shutil.rmtree(scratch, ignore_errors=True)
    os.makedirs(scratch)
    for sub in ("src", "tests"):
        shutil.copytree(f"/repo/{sub}", f"{scratch}/{sub}")
    rec = {"name": name, "property": pid, "diff": os.path.relpath(path, ROOT)}
    rcp, outp = run(["patch", "-p1", "--no-backup-if-mismatch", "-i", path], cwd=scratch)
    rec["patch_exit"] = rcp
    if rcp == 0:
        env = dict(os.environ, PYTHONPATH=f"{scratch}/src")
        rct, outt = run(["/venv/bin/python", "-m", "pytest", "-q", "-x", "-p", "no:cacheprovider", "tests"], cwd=scratch, env=env)
        rec["pytest_exit"] = rct
        if rct == 0:
            t0 = time.time()
            rcc, outc = run([os.path.join(ROOT, "check"), pid, "--jobs", str(jobs)], cwd=ROOT, env=dict(os.environ, PYVC_REPO_SRC=f"{scratch}/src"))
            rec["check_exit"] = rcc
            rec["wall_s"] = round(time.time() - t0, 1)
            rec["lines"] = [l[:300] for l in outc.splitlines() if l.startswith(("VIOLATION", "UNDECIDED", "CHECKER-ERROR", "  obligation")) or re.match(r"C\d+:", l)][:10]
    shutil.rmtree(scratch, ignore_errors=True)
    return rec


def main():
    args = [a for a in sys.argv[1:] if not a.startswith("--")]
    jobs = int(sys.argv[sys.argv.index("--jobs") + 1]) if "--jobs" in sys.argv else 4
    par = int(sys.argv[sys.argv.index("--par") + 1]) if "--par" in sys.argv else 4
    for flag in ("--jobs", "--par"):
        if flag in sys.argv:
            args = [a for a in args if a != sys.argv[sys.argv.index(flag) + 1]]
    paths = sorted(glob.glob(os.path.join(ROOT, "refactor", "*", "*.diff")))
    if args:
        paths = [p for p in paths if os.path.basename(p)[:-5] in args]
    resf = os.path.join(ROOT, "refactor", "RESULTS.json")
    results = json.load(open(resf)) if os.path.exists(resf) else {}
    with cf.ThreadPoolExecutor(par) as ex:
        for rec in ex.map(lambda p: one(p, jobs), paths):
            results[rec["name"]] = rec
            print(f"{rec['name']}: patch={rec['patch_exit']} pytest={rec.get('pytest_exit')} check={rec.get('check_exit')} {(rec.get('lines') or [''])[0][:160]}", flush=True)
            json.dump(results, open(resf, "w"), indent=1, sort_keys=True)


if __name__ == "__main__":
    main()
