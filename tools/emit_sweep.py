"""Sweep: try to derive the emission schema of every CodeGenerator.visit_* method."""
import sys
import time
import traceback

sys.path.insert(0, "/verif")
from pyvc import emit
from pyvc.values import Unsupported
import jinja2.nodes as N
import jinja2.compiler as C

only = sys.argv[1:] or None
names = sorted(n[6:] for n in dir(C.CodeGenerator) if n.startswith("visit_") and hasattr(N, n[6:]))
ok = bad = 0
for nm in names:
    if only and nm not in only:
        continue
    for buf in (None, "t_buf"):
        t0 = time.time()
        try:
            scs, I = emit.run_visitor(f"jinja2.compiler:CodeGenerator.visit_{nm}", getattr(N, nm), buffer=buf)
            n_ok = 0
            for sc in scs:
                for txt, ph in sc.texts():
                    pass
                n_ok += 1
            print(f"OK   {nm:28s} buf={buf!s:6s} paths={len(scs):4d} {time.time()-t0:5.1f}s   e.g. {scs[0].describe()[:100]!r}")
            ok += 1
        except Unsupported as ex:
            print(f"UNS  {nm:28s} buf={buf!s:6s} {str(ex)[:150]}")
            bad += 1
        except Exception as ex:
            tb = traceback.extract_tb(ex.__traceback__)[-1]
            print(f"ERR  {nm:28s} buf={buf!s:6s} {type(ex).__name__}: {str(ex)[:120]} @ {tb.filename.split('/')[-1]}:{tb.lineno}")
            bad += 1
print("ok", ok, "bad", bad)
