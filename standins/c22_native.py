"""Native side of C22: executable specifications of the collection filters (written from the property
statement and the filter documentation, not from the code) and runners for the REAL filters through
Environment.call_filter in a sync and an async environment.

An `Oracle` enumerates json-able cases; `run(w)` runs the real filter in the requested mode and checks the
result against the specification -> (violated, detail).  Used by contracts/c22.py for (a) replay of VC
counterexamples, (b) the small-input sweep for solver-undecided obligations, (c) the bounded stand-ins."""
from __future__ import annotations

import asyncio
import copy
import unicodedata
import warnings
import inspect
import itertools
import json

import jinja2
import jinja2.filters as F
from jinja2.runtime import Undefined
from markupsafe import Markup, escape

warnings.filterwarnings("ignore", message="coroutine .* was never awaited")
ALPHA = ["a", "A", "b"]
NO_ASYNC_VARIANT = "no_async_variant_rejects_async_iterable"
MODES = ("sync", "async", "async-gen")

_envs = {}


def _big(x, limit=0):
    return x > limit


async def _abig(x, limit=0):
    return x > limit


def env_for(mode, autoescape=False):
    key = (mode != "sync", autoescape)
    if key not in _envs:
        e = jinja2.Environment(enable_async=key[0], autoescape=autoescape)
        # a user test registered through the public API: in the async environment it is a coroutine function (the
        # compiler awaits test results there: `x is big` works), in the sync environment the same predicate as a function
        e.tests["big"] = _abig if key[0] else _big
        _envs[key] = (e, e.from_string("").new_context())
    return _envs[key]


_loop = None


def run_coro(coro):
    global _loop
    if _loop is None:
        _loop = asyncio.new_event_loop()
    return _loop.run_until_complete(coro)


async def _collect(x):
    """await / exhaust whatever an async-mode filter returns (coroutine, async generator, generator)"""
    if inspect.isawaitable(x):
        x = await x
    if isinstance(x, Undefined):
        return x
    if hasattr(x, "__aiter__"):
        return [a async for a in x]
    return x


async def _agen(items):
    for x in items:
        yield x


def _gen(items):
    for x in items:
        yield x


def call_real(name, value, args=(), kwargs=None, mode="sync", autoescape=False, as_iter=False):
    """Run filter `name` the way the compiler does.  mode: sync | async (async env, same container) |
    async-gen (async env, the value given as an async generator; sync env: a generator when as_iter)."""
    env, ctx = env_for(mode, autoescape)
    kwargs = dict(kwargs or {})
    if mode == "sync":
        v = _gen(value) if as_iter else value
        return env.call_filter(name, v, list(args), kwargs, context=ctx)
    v = _agen(value) if mode == "async-gen" else value
    return run_coro(_collect(env.call_filter(name, v, list(args), kwargs, context=ctx)))


def norm(x):
    """result -> plain comparable data (generators exhausted, rows to lists, Undefined to 'UNDEF')"""
    if isinstance(x, Undefined):
        return "UNDEF"
    if isinstance(x, (str, bytes, int, float, bool, type(None), dict)):
        return x
    if isinstance(x, tuple) and hasattr(x, "_fields"):
        return tuple(norm(y) for y in x)
    if isinstance(x, tuple):
        return tuple(norm(y) for y in x)
    if hasattr(x, "__iter__"):
        xs = list(x)  # a generator is exhausted first: rows are read after the last one was produced
        return [norm(y) for y in xs]
    return x


def fold(v, cs):
    return v.lower() if (isinstance(v, str) and not cs) else v


def lookup(item, attribute):
    """environment.getitem chain for dict items ('a.b' -> item['a']['b'], integer parts as integers)"""
    if attribute is None:
        return item
    parts = [attribute] if isinstance(attribute, int) else [int(p) if p.isdigit() else p for p in attribute.split(".")]
    for p in parts:
        item = item[p]
    return item


def seqs(alpha, maxlen, minlen=0):
    for n in range(minlen, maxlen + 1):
        for t in itertools.product(range(len(alpha)), repeat=n):
            yield [alpha[i] for i in t]


class Oracle:
    name = ""
    modes = MODES

    def cases(self, size):
        return ()

    def run(self, w):
        """-> (violated, detail)"""
        raise NotImplementedError

    def key(self, w):
        return "other:" + json.dumps(w, sort_keys=True, default=str)

    # helpers ---------------------------------------------------------------------
    def real(self, w, name, value, args=(), kwargs=None, autoescape=False):
        mode = w.get("mode", "sync")
        before = copy.deepcopy(value)
        a_before, k_before = copy.deepcopy(list(args)), copy.deepcopy(kwargs or {})
        try:
            got = norm(call_real(name, value, args, kwargs, mode=mode, autoescape=autoescape, as_iter=w.get("iter", False)))
        except Exception as ex:  # noqa
            got = ("RAISED", type(ex).__name__)
        changed = None
        if w.get("iter") and mode == "sync":
            pass
        elif value != before:
            changed = f"the input was modified: {before!r} -> {value!r}"
        elif list(args) != a_before or (kwargs or {}) != k_before:
            changed = f"an argument was modified: {a_before!r} {k_before!r} -> {list(args)!r} {kwargs!r}"
        return got, changed

    def verdict(self, w, got, want, changed, what):
        bad = got != want or changed is not None
        return bad, f"[{w.get('mode', 'sync')}] {what}: real={got!r} spec={want!r}" + (f"; {changed}" if changed else "")


def with_modes(cases, modes, gen_sync=False):
    """every case in every mode; gen_sync: additionally the sync environment with a generator as input"""
    for w in cases:
        for m in modes:
            w2 = dict(w)
            w2["mode"] = m
            yield w2
        if gen_sync and not w.get("iter"):
            w2 = dict(w)
            w2["mode"], w2["iter"] = "sync", True
            yield w2


def with_agen(cases, maxlen=4):
    """additionally: the async environment with an async generator as input, for the short sequences"""
    for w in cases:
        yield w
        if w.get("mode") == "async" and not w.get("iter") and len(w.get("letters", w.get("vals", ()))) <= maxlen and w.get("n", 0) <= maxlen:
            w2 = dict(w)
            w2["mode"] = "async-gen"
            yield w2


def agen_key(oracle, w):
    """an async iterable handed to a filter without async variant: TypeError / FilterArgumentError"""
    if w.get("mode") == "async-gen":
        bad, detail = oracle.run(w)
        if bad and "'RAISED'" in detail and ("TypeError" in detail or "FilterArgumentError" in detail):
            return NO_ASYNC_VARIANT
    return None


# ------------------------------------------------------------------------------ slice / batch

def spec_slice(items, s, fill):
    """s lists; list i has floor(n/s)+1 items for i < n mod s, floor(n/s) otherwise; concatenation = input; the
    fill value is added exactly to the lists one short of the longest."""
    n = len(items)
    q, r = n // s, n % s
    sizes = [q + 1 if i < r else q for i in range(s)]
    longest = max(sizes)
    out, pos = [], 0
    for sz in sizes:
        row = list(items[pos:pos + sz])
        pos += sz
        if fill is not None and sz == longest - 1:
            row.append(fill)
        out.append(row)
    return out


def spec_batch(items, c, fill):
    """full rows of `linecount`; the last row padded to `linecount` iff a fill value is given; concatenation = input"""
    rows = [list(items[i:i + c]) for i in range(0, len(items), c)]
    if rows and fill is not None:
        rows[-1] += [fill] * (c - len(rows[-1]))
    return rows


class SliceO(Oracle):
    name = "slice"

    def cases(self, size):
        base = ({"fn": "slice", "n": n, "slices": s, "fill": f} for n in range(0, size + 4) for s in range(1, size + 2) for f in (None, "x"))
        return with_modes(base, self.modes, gen_sync=True)

    def run(self, w):
        items = list(range(w["n"]))
        got, changed = self.real(w, "slice", items, [w["slices"], w["fill"]])
        return self.verdict(w, got, spec_slice(list(range(w["n"])), w["slices"], w["fill"]), changed, f"range({w['n']})|slice({w['slices']}, {w['fill']!r})")

    def key(self, w):
        if w.get("fill") is not None and w["n"] % w["slices"] == 0:
            got, changed = self.real(w, "slice", list(range(w["n"])), [w["slices"], w["fill"]])
            if changed is None and got == [r + [w["fill"]] for r in spec_slice(list(range(w["n"])), w["slices"], None)]:
                return "fill_when_slices_divides_length"
        return Oracle.key(self, w)


class BatchO(Oracle):
    name = "batch"
    modes = ("sync", "async")

    def key(self, w):
        return agen_key(self, w) or Oracle.key(self, w)

    def cases(self, size):
        base = ({"fn": "batch", "n": n, "linecount": c, "fill": f} for n in range(0, size + 4) for c in range(1, size + 2) for f in (None, "x"))
        return with_agen(with_modes(base, self.modes, gen_sync=True))

    def run(self, w):
        items = list(range(w["n"]))
        got, changed = self.real(w, "batch", items, [w["linecount"], w["fill"]])
        return self.verdict(w, got, spec_batch(list(range(w["n"])), w["linecount"], w["fill"]), changed, f"range({w['n']})|batch({w['linecount']}, {w['fill']!r})")


# ------------------------------------------------------------------------------ keyed filters

def make_items(letters, shape):
    """shape: 'str' plain strings; 'dict' {'k': letter, 'i': index}; 'nested' {'p': {'k': letter}, 'i': index}"""
    if shape == "str":
        return list(letters), None
    if shape == "dict":
        return [{"k": c, "i": i} for i, c in enumerate(letters)], "k"
    return [{"p": {"k": c}, "i": i} for i, c in enumerate(letters)], "p.k"


def ident(x):
    return x["i"] if isinstance(x, dict) else x


class UniqueO(Oracle):
    name = "unique"

    def cases(self, size):
        base = ({"fn": "unique", "letters": s, "cs": cs, "shape": sh} for sh in ("str", "dict", "nested") for s in seqs(ALPHA, size if sh == "str" else min(size, 5)) for cs in (False, True))
        return with_modes(base, self.modes, gen_sync=True)

    def run(self, w):
        items, attr = make_items(w["letters"], w["shape"])
        got, changed = self.real(w, "unique", items, [], {"case_sensitive": w["cs"], "attribute": attr})
        ref, _ = make_items(w["letters"], w["shape"])
        keys = [fold(lookup(x, attr), w["cs"]) for x in ref]
        want = [x for i, x in enumerate(ref) if keys[i] not in keys[:i]]  # first occurrences, in order
        return self.verdict(w, got, want, changed, f"{ref!r}|unique(case_sensitive={w['cs']}, attribute={attr!r})")


def check_sorted(result, ref, keyf, reverse):
    """sorted permutation, stable: the specification of `sort` as properties of the result"""
    if not isinstance(result, list):
        return f"not a list: {result!r}"
    pos = []
    pool = list(enumerate(ref))
    for r in result:
        hit = next((j for j, (i, x) in enumerate(pool) if x == r), None)
        if hit is None:
            return f"result item {r!r} is not an (unused) input item"
        pos.append(pool.pop(hit)[0])
    if pool:
        return f"input items missing from the result: {[x for _, x in pool]!r}"
    ks = [keyf(ref[i]) for i in pos]
    for a in range(len(ks) - 1):
        if (ks[a] < ks[a + 1]) if reverse else (ks[a] > ks[a + 1]):
            return f"not ordered at position {a}: keys {ks[a]!r}, {ks[a + 1]!r}"
        if ks[a] == ks[a + 1] and pos[a] > pos[a + 1]:
            return f"not stable at position {a}: equal keys {ks[a]!r} but input positions {pos[a]} > {pos[a + 1]}"
    return None


class SortO(Oracle):
    name = "sort"

    def key(self, w):
        return agen_key(self, w) or Oracle.key(self, w)

    def cases(self, size):
        def base():
            for sh in ("str", "dict", "multi"):
                for s in seqs(ALPHA, size if sh == "str" else min(size, 5)):
                    for cs in (False, True):
                        for rev in (False, True):
                            yield {"fn": "sort", "letters": s, "cs": cs, "reverse": rev, "shape": sh}
        return with_agen(with_modes(base(), ("sync", "async")))

    def items(self, w):
        if w["shape"] == "multi":
            # two attributes: j alternates so that ties on the first attribute are broken by the second
            return [{"k": c, "j": (i * 7) % 3, "i": i} for i, c in enumerate(w["letters"])], "k,j"
        if w["shape"] == "str":
            # distinguishable but equal-keyed items are needed to observe stability: pairs (letter) are compared by
            # value only, so plain strings check order/permutation and the dict shapes check stability
            return list(w["letters"]), None
        return [{"k": c, "i": i} for i, c in enumerate(w["letters"])], "k"

    def run(self, w):
        items, attr = self.items(w)
        got, changed = self.real(w, "sort", items, [], {"reverse": w["reverse"], "case_sensitive": w["cs"], "attribute": attr})
        ref, _ = self.items(w)
        if attr is None:
            keyf = lambda x: fold(x, w["cs"])  # noqa
        else:
            keyf = lambda x: [fold(lookup(x, a), w["cs"]) for a in attr.split(",")]  # noqa
        err = check_sorted(got, ref, keyf, w["reverse"])
        bad = err is not None or changed is not None
        return bad, f"[{w['mode']}] {ref!r}|sort(reverse={w['reverse']}, case_sensitive={w['cs']}, attribute={attr!r}) -> {got!r}: {err or 'ok'}" + (f"; {changed}" if changed else "")


class DictSortO(Oracle):
    name = "dictsort"
    POOL = ["a", "A", "b", "B"]

    def cases(self, size):
        def base():
            for k in range(0, min(size, 4) + 1):
                for keys in itertools.permutations(self.POOL, k):
                    for vals in itertools.product(ALPHA, repeat=k):
                        for cs in (False, True):
                            for by in ("key", "value"):
                                for rev in (False, True):
                                    yield {"fn": "dictsort", "keys": list(keys), "vals": list(vals), "cs": cs, "by": by, "reverse": rev}
            yield {"fn": "dictsort", "keys": ["a"], "vals": ["b"], "cs": False, "by": "other", "reverse": False}
        return with_modes(base(), ("sync", "async"))

    def run(self, w):
        d = dict(zip(w["keys"], w["vals"]))
        got, changed = self.real(w, "dictsort", d, [], {"case_sensitive": w["cs"], "by": w["by"], "reverse": w["reverse"]})
        if w["by"] not in ("key", "value"):
            return got != ("RAISED", "FilterArgumentError"), f"[{w['mode']}] dictsort(by={w['by']!r}) -> {got!r}, expected FilterArgumentError"
        ref = list(zip(w["keys"], w["vals"]))
        pos = 0 if w["by"] == "key" else 1
        err = check_sorted([tuple(x) for x in got] if isinstance(got, list) else got, ref, lambda kv: fold(kv[pos], w["cs"]), w["reverse"])
        bad = err is not None or changed is not None
        return bad, f"[{w['mode']}] {d!r}|dictsort(case_sensitive={w['cs']}, by={w['by']!r}, reverse={w['reverse']}) -> {got!r}: {err or 'ok'}" + (f"; {changed}" if changed else "")


class GroupByO(Oracle):
    name = "groupby"

    def cases(self, size):
        def base():
            for s in seqs(ALPHA, min(size, 6)):
                for cs in (False, True):
                    yield {"fn": "groupby", "letters": s, "cs": cs, "default": None}
            for s in seqs(ALPHA + [None], min(size, 4)):
                for cs in (False, True):
                    yield {"fn": "groupby", "letters": s, "cs": cs, "default": "Az"}
        return with_modes(base(), self.modes, gen_sync=True)

    def items(self, w):
        return [({"k": c, "i": i} if c is not None else {"i": i}) for i, c in enumerate(w["letters"])]

    def run(self, w):
        items = self.items(w)
        kwargs = {"case_sensitive": w["cs"]}
        if w["default"] is not None:
            kwargs["default"] = w["default"]
        got, changed = self.real(w, "groupby", items, ["k"], kwargs)
        ref = self.items(w)
        real_key = lambda x: x.get("k", w["default"])  # noqa
        err = None
        if w.get("mode") == "sync" and isinstance(got, list):
            raw = call_real("groupby", self.items(w), ["k"], kwargs, mode="sync")
            if any(not (hasattr(g, "grouper") and hasattr(g, "list") and g.grouper is g[0] and g.list is g[1]) for g in raw):
                err = "the groups are not (grouper, list) named tuples"
        if err is not None:
            pass
        elif not isinstance(got, list) or any(not (isinstance(g, tuple) and len(g) == 2 and isinstance(g[1], list)) for g in got):
            err = "not a list of (grouper, list) pairs"
        else:
            flat = [x for _, grp in got for x in grp]
            if sorted(x["i"] for x in flat) != list(range(len(ref))) or any(x != ref[x["i"]] for x in flat):
                err = "the groups are not a partition of the input"
            else:
                gkeys = []
                for grouper, grp in got:
                    ks = {fold(real_key(x), w["cs"]) for x in grp}
                    if len(ks) != 1:
                        err = f"group {grouper!r} is empty or mixes keys {sorted(map(str, ks))}"
                        break
                    if [x["i"] for x in grp] != sorted(x["i"] for x in grp):
                        err = f"group {grouper!r} does not keep the input order"
                        break
                    want_grouper = real_key(grp[0]) if not w["cs"] else ks.copy().pop()
                    if grouper != want_grouper:
                        err = f"grouper {grouper!r} is not the key {want_grouper!r} of the group's first item"
                        break
                    gkeys.append(ks.pop())
                if err is None and any(gkeys[a] >= gkeys[a + 1] for a in range(len(gkeys) - 1)):
                    err = f"group keys not strictly increasing: {gkeys!r}"
        bad = err is not None or changed is not None
        return bad, f"[{w['mode']}] {ref!r}|groupby('k', default={w['default']!r}, case_sensitive={w['cs']}) -> {got!r}: {err or 'ok'}" + (f"; {changed}" if changed else "")


class MinMaxO(Oracle):
    name = "minmax"

    def key(self, w):
        return agen_key(self, w) or Oracle.key(self, w)

    def cases(self, size):
        base = ({"fn": f, "letters": s, "cs": cs, "shape": sh} for f in ("min", "max") for sh in ("str", "dict") for s in seqs(ALPHA, size if sh == "str" else min(size, 5)) for cs in (False, True))
        return with_agen(with_modes(base, ("sync", "async")))

    def run(self, w):
        items, attr = make_items(w["letters"], w["shape"])
        got, changed = self.real(w, w["fn"], items, [], {"case_sensitive": w["cs"], "attribute": attr})
        ref, _ = make_items(w["letters"], w["shape"])
        if not ref:
            want = "UNDEF"
        else:
            keys = [fold(lookup(x, attr), w["cs"]) for x in ref]
            best = min(keys) if w["fn"] == "min" else max(keys)
            want = ref[keys.index(best)]  # the first item with the extreme key (Python's min / max)
        return self.verdict(w, got, want, changed, f"{ref!r}|{w['fn']}(case_sensitive={w['cs']}, attribute={attr!r})")


class SumO(Oracle):
    name = "sum"

    def cases(self, size):
        def base():
            for s in seqs([0, 1, 2], size):
                for start in (0, 5):
                    yield {"fn": "sum", "vals": s, "start": start, "shape": "plain"}
            for s in seqs([0, 1, 2], min(size, 5)):
                yield {"fn": "sum", "vals": s, "start": 0, "shape": "attr"}
            for s in seqs([[], [1], [2, 3]], min(size, 4)):
                for start in ([], [9]):
                    yield {"fn": "sum", "vals": s, "start": start, "shape": "lists"}
            # floats: Python's sum is not a naive left fold (compensated summation since 3.12)
            for s in seqs([0.1, 1e16, -1e16, 1.0], min(size, 3)):
                yield {"fn": "sum", "vals": s, "start": 0, "shape": "plain"}
            yield {"fn": "sum", "vals": [0.1] * 10, "start": 0, "shape": "plain"}
            yield {"fn": "sum", "vals": [0.1] * 10, "start": 0, "shape": "attr"}
            # strings: Python's sum refuses them
            for s in seqs(["a", "b"], 2):
                yield {"fn": "sum", "vals": s, "start": "", "shape": "plain"}
        return with_modes(base(), self.modes, gen_sync=True)

    def run(self, w):
        vals = copy.deepcopy(w["vals"])
        start = copy.deepcopy(w["start"])
        if w["shape"] == "attr":
            items, kwargs = [{"p": v} for v in vals], {"attribute": "p", "start": start}
        else:
            items, kwargs = vals, {"start": start}
        got, changed = self.real(w, "sum", items, [], kwargs)
        try:
            want = sum(copy.deepcopy(w["vals"]), copy.deepcopy(w["start"]))  # the Python definition: builtins.sum
        except TypeError:
            want = ("RAISED", "TypeError")
        return self.verdict(w, got, want, changed, f"{w['vals']!r}|sum(start={w['start']!r}{', attribute=p' if w['shape'] == 'attr' else ''})")

    def key(self, w):
        if w.get("shape") == "lists" and w.get("mode") != "sync" and w.get("vals"):
            bad, detail = self.run(w)
            if bad and "an argument was modified" in detail and "real=" in detail:
                got = detail.split("real=")[1].split(" spec=")[0]
                want = detail.split(" spec=")[1].split(";")[0]
                if got == want:
                    return "async_sum_extends_list_start_in_place"
        if w.get("mode") != "sync" and (w.get("start") == "" or any(isinstance(v, float) for v in w.get("vals", []))):
            bad, detail = self.run(w)
            if bad and "modified" not in detail:
                return "async_sum_is_a_naive_fold_not_builtin_sum"
        return Oracle.key(self, w)


class FirstLastO(Oracle):
    name = "firstlast"

    def cases(self, size):
        base = ({"fn": f, "letters": s} for f in ("first", "last") for s in seqs(ALPHA, size))
        return with_modes(base, ("sync", "async", "async-gen"))

    def run(self, w):
        if w["fn"] == "last" and w.get("mode") == "async-gen":
            return False, "last is documented not to work with generators"
        items = list(w["letters"])
        got, changed = self.real(w, w["fn"], items)
        want = "UNDEF" if not w["letters"] else (w["letters"][0] if w["fn"] == "first" else w["letters"][-1])
        return self.verdict(w, got, want, changed, f"{w['letters']!r}|{w['fn']}")


class JoinO(Oracle):
    name = "join"
    ITEMS = ["a", "<", "M<b>"]  # 'M...' stands for Markup('...')
    SEPS = ["", ", ", "<", "M<i>"]

    @staticmethod
    def val(x):
        return Markup(x[1:]) if isinstance(x, str) and x.startswith("M") else x

    def cases(self, size):
        def base():
            for s in seqs(self.ITEMS, min(size, 5)):
                for d in self.SEPS:
                    for ae in (False, True):
                        yield {"fn": "join", "items": s, "d": d, "autoescape": ae, "shape": "plain"}
            for s in seqs(self.ITEMS, min(size, 3)):
                for ae in (False, True):
                    yield {"fn": "join", "items": s, "d": "|", "autoescape": ae, "shape": "attr"}
            for s in seqs([1, "a"], min(size, 3)):
                yield {"fn": "join", "items": s, "d": 0, "autoescape": False, "shape": "plain"}
        return with_modes(base(), self.modes, gen_sync=True)

    def run(self, w):
        vals = [self.val(x) for x in w["items"]]
        d = self.val(w["d"])
        if w["shape"] == "attr":
            items, args, kwargs = [{"p": v} for v in vals], [d], {"attribute": "p"}
        else:
            items, args, kwargs = list(vals), [d], {}
        got, changed = self.real(w, "join", items, args, kwargs, autoescape=w["autoescape"])
        html = any(hasattr(x, "__html__") for x in vals + [d])
        if w["autoescape"] and html:
            # something is markup: the result is markup, everything that is not markup is escaped
            want = escape(d).join(escape(v) for v in vals)
        else:
            want = str(d).join(str(v) for v in vals)
        bad = got != want or type(got) is not type(want) or changed is not None
        return bad, f"[{w['mode']}] {vals!r}|join({d!r}) autoescape={w['autoescape']}: real={got!r} ({type(got).__name__}) spec={want!r} ({type(want).__name__})" + (f"; {changed}" if changed else "")


class ListReverseO(Oracle):
    name = "listreverse"

    def cases(self, size):
        def base():
            for s in seqs(ALPHA, size):
                yield {"fn": "list", "letters": s, "as": "list"}
                yield {"fn": "reverse", "letters": s, "as": "list"}
                yield {"fn": "list", "letters": s, "as": "str"}
                yield {"fn": "reverse", "letters": s, "as": "str"}
                yield {"fn": "reverse", "letters": s, "as": "list", "iter": True}
                yield {"fn": "list", "letters": s, "as": "list", "iter": True}
            yield {"fn": "reverse", "letters": [], "as": "int"}
        for w in with_modes(base(), ("sync", "async")):
            yield w
            if w["fn"] == "reverse" and w["as"] == "list" and w["mode"] == "async" and not w.get("iter") and len(w["letters"]) <= 4:
                yield dict(w, mode="async-gen")

    def key(self, w):
        return agen_key(self, w) or Oracle.key(self, w)

    def run(self, w):
        if w["as"] == "int":
            got, changed = self.real(w, "reverse", 5)
            return got != ("RAISED", "FilterArgumentError"), f"5|reverse -> {got!r}, expected FilterArgumentError"
        value = "".join(w["letters"]) if w["as"] == "str" else list(w["letters"])
        if w.get("iter") and w["mode"] != "sync":
            return False, "generator inputs are exercised in the sync environment"
        got, changed = self.real(w, w["fn"], value)
        if w["fn"] == "list":
            want = list(w["letters"])
        elif w["as"] == "str":
            want = "".join(reversed(w["letters"]))
        else:
            want = list(reversed(w["letters"]))
        return self.verdict(w, got, want, changed, f"{value!r}|{w['fn']}")


class MapSelectO(Oracle):
    name = "mapselect"
    VALS = [0, 1, "", "a"]

    def cases(self, size):
        def base():
            n = min(size, 5)
            for s in seqs(ALPHA, n):
                yield {"fn": "map", "vals": s, "args": ["upper"], "kwargs": {}}
                yield {"fn": "map", "vals": s, "args": ["replace", "a", "x"], "kwargs": {}}
            for s in seqs(ALPHA + [None], min(size, 4)):
                yield {"fn": "map", "vals": s, "args": [], "kwargs": {"attribute": "k"}, "dicts": True}
                yield {"fn": "map", "vals": s, "args": [], "kwargs": {"attribute": "k", "default": "z"}, "dicts": True}
            for s in seqs(self.VALS, n):
                for f in ("select", "reject"):
                    yield {"fn": f, "vals": s, "args": [], "kwargs": {}}
                    yield {"fn": f, "vals": s, "args": ["equalto", 1], "kwargs": {}}
                    yield {"fn": f, "vals": s, "args": ["string"], "kwargs": {}}
            for s in seqs(self.VALS, min(size, 4)):
                for f in ("selectattr", "rejectattr"):
                    yield {"fn": f, "vals": s, "args": ["k"], "kwargs": {}, "dicts": True}
                    yield {"fn": f, "vals": s, "args": ["k", "equalto", "a"], "kwargs": {}, "dicts": True}
            # a user test that is a coroutine function in the async environment (awaited by the compiler for `x is big`)
            for s in seqs([0, 1, 2], min(size, 4)):
                for f in ("select", "reject"):
                    yield {"fn": f, "vals": s, "args": ["big"], "kwargs": {}}
                    yield {"fn": f, "vals": s, "args": ["big", 1], "kwargs": {}}
                for f in ("selectattr", "rejectattr"):
                    yield {"fn": f, "vals": s, "args": ["k", "big"], "kwargs": {}, "dicts": True}
            yield {"fn": "map", "vals": ["a"], "args": [], "kwargs": {}}
            yield {"fn": "map", "vals": ["a"], "args": [], "kwargs": {"attribute": "k", "bogus": 1}, "dicts": True}
            yield {"fn": "selectattr", "vals": [1], "args": [], "kwargs": {}}
        return with_modes(base(), self.modes)

    def build(self, w):
        if w.get("dicts"):
            return [({"k": v, "i": i} if v is not None else {"i": i}) for i, v in enumerate(w["vals"])]
        return list(w["vals"])

    TESTS = {"equalto": lambda v, o: v == o, "string": lambda v: isinstance(v, str), "big": lambda v, limit=0: v > limit}

    def key(self, w):
        if "big" in w.get("args", []) and w.get("mode") != "sync":
            bad, _ = self.run(w)
            if bad:
                return "async_test_result_not_awaited"
        return Oracle.key(self, w)

    def run(self, w):
        items = self.build(w)
        args, kwargs = list(w["args"]), dict(w["kwargs"])
        got, changed = self.real(w, w["fn"], items, args, kwargs)
        ref = self.build(w)
        fn = w["fn"]
        if fn == "map":
            if not ref:
                want = []
            elif not args and "attribute" in kwargs:
                if set(kwargs) - {"attribute", "default"}:
                    want = ("RAISED", "FilterArgumentError")
                else:
                    want = [x.get("k", kwargs.get("default", "UNDEF")) for x in ref]
            elif not args:
                want = ("RAISED", "FilterArgumentError")
            elif args[0] == "upper":
                want = [x.upper() for x in ref]
            else:
                want = [x.replace(args[1], args[2]) for x in ref]
        else:
            attr = fn.endswith("attr")
            keep = fn.startswith("select")
            if not ref:
                want = []
            elif attr and not args:
                want = ("RAISED", "FilterArgumentError")
            else:
                rest = args[1:] if attr else args
                test = (lambda v: bool(v)) if not rest else (lambda v: self.TESTS[rest[0]](v, *rest[1:]))
                want = [x for x in ref if test(x["k"] if attr else x) == keep]
        return self.verdict(w, got, want, changed, f"{ref!r}|{fn}(*{args!r}, **{kwargs!r})")


def spec_parse(attr):
    """documented: dots separate attributes of attributes; integer parts are looked up as integers"""
    parts, cur = [], ""
    for ch in attr + ".":
        if ch == ".":
            # an integer part: a non-empty run of decimal digit characters (what int() accepts)
            parts.append(int(cur) if cur and all(unicodedata.decimal(c, None) is not None for c in cur) else cur)
            cur = ""
        else:
            cur += ch
    return parts


class AttrPartsO(Oracle):
    """make_attrgetter / make_multi_attrgetter: which environment.getitem lookups are made for an attribute string"""
    name = "attrparts"
    CH = ["a", "1", ".", ",", "\u00b2", "\u0663"]  # SUPERSCRIPT TWO is a digit but no decimal; ARABIC-INDIC THREE is a decimal

    def key(self, w):
        a = w.get("attr")
        if isinstance(a, str) and any(p.isdigit() and not p.isdecimal() for q in a.split(",") for p in q.split(".")):
            return "attribute_part_isdigit_but_not_decimal"
        return Oracle.key(self, w)

    def cases(self, size):
        for n in range(0, min(size, 5) + 1):
            for t in itertools.product(self.CH, repeat=n):
                yield {"fn": "attrparts", "attr": "".join(t)}
        for a in (None, 0, 7):
            yield {"fn": "attrparts", "attr": a}

    def run(self, w):
        log = []

        class Env(jinja2.Environment):
            def getitem(self, obj, argument):
                log.append(argument)
                return obj

        env, attr = Env(), w["attr"]
        item = object()
        try:
            return self._run(env, attr, item, log)
        except Exception as ex:  # noqa
            return True, f"make_attrgetter / make_multi_attrgetter(env, {attr!r}) raised {type(ex).__name__}: {ex}"

    def _run(self, env, attr, item, log):
        if not (isinstance(attr, str) and "," in attr):
            got = F.make_attrgetter(env, attr)(item)
            want = [] if attr is None else ([attr] if not isinstance(attr, str) else spec_parse(attr))
            if got is not item or log != want or [type(x) for x in log] != [type(x) for x in want]:
                return True, f"make_attrgetter(env, {attr!r}) looks up {log!r}, specification {want!r}"
            del log[:]
        got = F.make_multi_attrgetter(env, attr)(item)
        groups = [[]] if attr is None else ([[attr]] if not isinstance(attr, str) else [spec_parse(a) for a in attr.split(",")])
        want = [p for g in groups for p in g]
        bad = not isinstance(got, list) or len(got) != len(groups) or log != want or [type(x) for x in log] != [type(x) for x in want]
        return bad, f"make_multi_attrgetter(env, {attr!r}) looks up {log!r} and returns {len(got) if isinstance(got, list) else got!r} values, specification {want!r} / {len(groups)} values"


ORACLES = {o.name: o for o in (SliceO(), BatchO(), UniqueO(), SortO(), DictSortO(), GroupByO(), MinMaxO(), SumO(), FirstLastO(),
                               JoinO(), ListReverseO(), MapSelectO(), AttrPartsO())}
FN2ORACLE = {"slice": "slice", "batch": "batch", "unique": "unique", "sort": "sort", "dictsort": "dictsort", "groupby": "groupby",
             "min": "minmax", "max": "minmax", "sum": "sum", "first": "firstlast", "last": "firstlast", "join": "join",
             "list": "listreverse", "reverse": "listreverse", "map": "mapselect", "select": "mapselect", "reject": "mapselect",
             "selectattr": "mapselect", "rejectattr": "mapselect", "attrparts": "attrparts"}


def oracle_for(w):
    return ORACLES[FN2ORACLE[w["fn"]]]
