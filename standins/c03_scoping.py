"""Native side of C03: a generator of small statement trees, their rendering to template source, consistent
alpha-renaming, and an independent reference interpreter of Jinja's scoping rules written from docs/templates.rst
("Assignments / Scoping Behavior", "With Statement", "For", "Macros", "Call", "Filters", "Block Assignments") and
the property statement:

  * `if` shares the enclosing scope;
  * every loop iteration, `with`, `filter` block, block-`set` body, macro body and call-block body opens a fresh scope
    whose assignments do not leak; reads fall through to the enclosing scopes and finally to the render data;
  * `with a = e` evaluates e OUTSIDE the new scope; a loop's iterable is evaluated outside, its filter inside a scope
    that has the target; the `else` of a loop runs iff no item was rendered;
  * macros and call blocks are closures over the scope they are written in and see its variables as they are at
    CALL time; parameters shadow from the start of the call; defaults are evaluated at call time, left to right;
  * `set ns.attr = v` mutates the namespace object (shared across scopes), and is an error on anything else.

The interpreter knows nothing about identifiers, frames or symbol tables.
"""
from __future__ import annotations

import random

VARS = ["a", "b", "c"]
MACROS = ["m", "n"]          # plain macros, called as {{ m(...) }}
CALLER_MACROS = ["k"]        # macros that render {{ caller() }}, used through {% call %}
NS = ["ns"]
ALL_NAMES = VARS + MACROS + CALLER_MACROS + NS

# alpha-renaming targets: other distinct identifiers, including Unicode, Python keywords, and names the generated
# code uses itself (a template variable may be called `context` or `l_0_a`)
RENAMINGS = [
    {"a": "b", "b": "c", "c": "a", "m": "n", "n": "m", "k": "kk", "ns": "space"},
    {"a": "é", "b": "class", "c": "l_0_a", "m": "lambda", "n": "yield", "k": "def", "ns": "t_1"},
    {"a": "context", "b": "resolve", "c": "missing", "m": "environment", "n": "undefined", "k": "concat", "ns": "l_1_ns"},
    {"a": "_a", "b": "a_", "c": "a1", "m": "Macro", "n": "str_join", "k": "identity", "ns": "Namespace"},
    {"a": "l_1_b", "b": "l_0_b", "c": "l_2_b", "m": "t_2", "n": "t_3", "k": "cond_expr_undefined", "ns": "parent_template"},
]


# ------------------------------------------------------------------ mini AST (json-able nested lists)
# expressions:  ["var", n] ["const", k] ["list", [k...]] ["add", e, k] ["attr", e, "v"|"c"] ["call", m, [e...]]
#               ["defined", n] ["loopidx"] ["recurse", e]
# statements:   ["text", s] ["out", e] ["set", n, e] ["setblock", n, body] ["nsnew", n, k] ["nsset", n, e]
#               ["if", test, body, elifs [(test, body)...], else_body|None]
#               ["for", target, iter, body, else_body|None, filter|None, recursive]
#               ["with", [(n, e)...], body] ["macro", name, [(param, default|None)...], body]
#               ["callblock", k, [e...], body] ["filter", "upper", body] ["break"] ["continue"]


def src_expr(e, rn):
    t = e[0]
    if t == "var":
        return rn(e[1])
    if t == "const":
        return repr(e[1])
    if t == "list":
        return "[" + ", ".join(repr(k) for k in e[1]) + "]"
    if t == "add":
        return f"{src_expr(e[1], rn)} + {e[2]}"
    if t == "attr":
        return f"{src_expr(e[1], rn)}.{e[2]}"
    if t == "call":
        return f"{rn(e[1])}(" + ", ".join(src_expr(x, rn) for x in e[2]) + ")"
    if t == "defined":
        return f"{rn(e[1])} is defined"
    if t == "loopidx":
        return "loop.index"
    if t == "recurse":
        return f"loop({src_expr(e[1], rn)})"
    raise ValueError(e)


def src_body(body, rn):
    return "".join(src_stmt(s, rn) for s in body)


def src_stmt(s, rn):
    t = s[0]
    if t == "text":
        return s[1]
    if t == "out":
        return "{{ " + src_expr(s[1], rn) + " }}"
    if t == "set":
        return "{% set " + rn(s[1]) + " = " + src_expr(s[2], rn) + " %}"
    if t == "setblock":
        return "{% set " + rn(s[1]) + " %}" + src_body(s[2], rn) + "{% endset %}"
    if t == "nsnew":
        return "{% set " + rn(s[1]) + " = namespace(v=" + repr(s[2]) + ") %}"
    if t == "nsset":
        return "{% set " + rn(s[1]) + ".v = " + src_expr(s[2], rn) + " %}"
    if t == "if":
        out = "{% if " + src_expr(s[1], rn) + " %}" + src_body(s[2], rn)
        for test, body in s[3]:
            out += "{% elif " + src_expr(test, rn) + " %}" + src_body(body, rn)
        if s[4] is not None:
            out += "{% else %}" + src_body(s[4], rn)
        return out + "{% endif %}"
    if t == "for":
        out = "{% for " + rn(s[1]) + " in " + src_expr(s[2], rn)
        if s[5] is not None:
            out += " if " + src_expr(s[5], rn)
        if s[6]:
            out += " recursive"
        out += " %}" + src_body(s[3], rn)
        if s[4] is not None:
            out += "{% else %}" + src_body(s[4], rn)
        return out + "{% endfor %}"
    if t == "with":
        return "{% with " + ", ".join(f"{rn(n)} = {src_expr(e, rn)}" for n, e in s[1]) + " %}" + src_body(s[2], rn) + "{% endwith %}"
    if t == "macro":
        ps = ", ".join(rn(p) + ("" if d is None else " = " + src_expr(d, rn)) for p, d in s[2])
        return "{% macro " + rn(s[1]) + "(" + ps + ") %}" + src_body(s[3], rn) + "{% endmacro %}"
    if t == "callblock":
        return "{% call " + rn(s[1]) + "(" + ", ".join(src_expr(x, rn) for x in s[2]) + ") %}" + src_body(s[3], rn) + "{% endcall %}"
    if t == "filter":
        return "{% filter " + s[1] + " %}" + src_body(s[2], rn) + "{% endfilter %}"
    if t == "break":
        return "{% break %}"
    if t == "continue":
        return "{% continue %}"
    raise ValueError(s)


def source(prog, renaming=None):
    rn = (lambda n: renaming.get(n, n)) if renaming else (lambda n: n)
    return src_body(prog, rn)


def rename_data(data, renaming):
    return {renaming.get(k, k): v for k, v in data.items()}


def dead_reads(prog):
    """the same program with a dead read of every pool name at the start of every scope body: a semantic no-op
    by the scoping rules"""
    dead = ["if", ["const", 0], [["out", ["var", n]] for n in ALL_NAMES], [], None]

    def body(b):
        return [dead] + [stmt(s) for s in b]

    def plain(b):
        return [stmt(s) for s in b]

    def stmt(s):
        t = s[0]
        if t == "setblock":
            return [t, s[1], body(s[2])]
        if t == "if":
            return [t, s[1], plain(s[2]), [(c, plain(b)) for c, b in s[3]], None if s[4] is None else plain(s[4])]
        if t == "for":
            return [t, s[1], s[2], body(s[3]), None if s[4] is None else body(s[4]), s[5], s[6]]
        if t == "with":
            return [t, s[1], body(s[2])]
        if t == "macro":
            return [t, s[1], s[2], body(s[3])]
        if t == "callblock":
            return [t, s[1], s[2], body(s[3])]
        if t == "filter":
            return [t, s[1], body(s[2])]
        return s

    return body(prog)


# ------------------------------------------------------------------ reference interpreter

class RefError(Exception):
    def __init__(self, cls):
        self.cls = cls


class Undef:
    def __str__(self):
        return ""

    def __bool__(self):
        return False


UNDEF = Undef()


class Scope:
    def __init__(self, parent=None, data=None):
        self.vars, self.parent, self.data = {}, parent, data

    def lookup(self, n):
        s = self
        while s is not None:
            if n in s.vars:
                return s.vars[n]
            if s.parent is None:
                return s.data.get(n, UNDEF)
            s = s.parent


class MacroV:
    def __init__(self, name, params, body, scope):
        self.name, self.params, self.body, self.scope = name, params, body, scope


class NsV:
    def __init__(self, v):
        self.v = v

    def __str__(self):
        return "<Namespace {'v': %r}>" % (self.v,)


class LoopState:
    def __init__(self):
        self.index = 0
        self.render = None


class Break(Exception):
    pass


class Continue(Exception):
    pass


class Interp:
    def __init__(self, data):
        self.data = data

    # ---- expressions
    def ev(self, e, sc, loop=None, caller=None):
        t = e[0]
        if t == "var":
            return sc.lookup(e[1])
        if t == "const":
            return e[1]
        if t == "list":
            return list(e[1])
        if t == "add":
            v = self.ev(e[1], sc, loop, caller)
            if isinstance(v, Undef):
                raise RefError("UndefinedError")
            if not isinstance(v, int):
                raise RefError("TypeError")
            return v + e[2]
        if t == "attr":
            v = self.ev(e[1], sc, loop, caller)
            if isinstance(v, Undef):
                raise RefError("UndefinedError")
            if isinstance(v, NsV) and e[2] == "v":
                return v.v
            if isinstance(v, dict) and e[2] in v:
                return v[e[2]]
            return UNDEF
        if t == "call":
            f = sc.lookup(e[1])
            args = [self.ev(x, sc, loop, caller) for x in e[2]]
            return self.call_macro(f, args, None)
        if t == "defined":
            return not isinstance(sc.lookup(e[1]), Undef)
        if t == "loopidx":
            return loop.index
        if t == "recurse":
            return loop.render(self.ev(e[1], sc, loop, caller))
        raise ValueError(e)

    def call_macro(self, f, args, caller):
        if isinstance(f, Undef):
            raise RefError("UndefinedError")
        if not isinstance(f, MacroV):
            raise RefError("TypeError")
        if len(args) > len(f.params):
            raise RefError("TypeError")
        sc = Scope(f.scope)
        for p, _d in f.params:
            sc.vars[p] = UNDEF  # parameters shadow from the start of the call
        for i, (p, d) in enumerate(f.params):
            if i < len(args):
                sc.vars[p] = args[i]
            elif d is not None:
                sc.vars[p] = self.ev(d, sc)
        return self.body(f.body, sc, None, caller)

    # ---- statements
    def body(self, stmts, sc, loop=None, caller=None):
        return "".join(self.stmt(s, sc, loop, caller) for s in stmts)

    def to_str(self, v):
        if isinstance(v, bool):
            return "True" if v else "False"
        return str(v)

    def stmt(self, s, sc, loop, caller):
        t = s[0]
        if t == "text":
            return s[1]
        if t == "out":
            if s[1][0] == "call" and s[1][1] == "caller":
                if caller is None:
                    raise RefError("UndefinedError")
                return caller()
            return self.to_str(self.ev(s[1], sc, loop, caller))
        if t == "set":
            sc.vars[s[1]] = self.ev(s[2], sc, loop, caller)
            return ""
        if t == "setblock":
            sc.vars[s[1]] = self.body(s[2], Scope(sc), loop, caller)
            return ""
        if t == "nsnew":
            sc.vars[s[1]] = NsV(s[2])
            return ""
        if t == "nsset":
            # the namespace check comes before the right-hand side is evaluated
            target = sc.lookup(s[1])
            if not isinstance(target, NsV):
                raise RefError("TemplateRuntimeError")
            target.v = self.ev(s[2], sc, loop, caller)
            return ""
        if t == "if":
            if self.ev(s[1], sc, loop, caller):
                return self.body(s[2], sc, loop, caller)
            for test, b in s[3]:
                if self.ev(test, sc, loop, caller):
                    return self.body(b, sc, loop, caller)
            if s[4] is not None:
                return self.body(s[4], sc, loop, caller)
            return ""
        if t == "for":
            return self.for_(s, sc, loop, caller)
        if t == "with":
            inner = Scope(sc)
            vals = [(n, self.ev(e, sc, loop, caller)) for n, e in s[1]]
            for n, v in vals:
                inner.vars[n] = v
            return self.body(s[2], inner, loop, caller)
        if t == "macro":
            sc.vars[s[1]] = MacroV(s[1], s[2], s[3], sc)
            return ""
        if t == "callblock":
            f = sc.lookup(s[1])
            block_scope = sc

            def call_body():
                return self.body(s[3], Scope(block_scope), loop, caller)

            args = [self.ev(x, sc, loop, caller) for x in s[2]]
            return self.call_macro(f, args, call_body)
        if t == "filter":
            return self.body(s[2], Scope(sc), loop, caller).upper()
        if t == "break":
            raise Break()
        if t == "continue":
            raise Continue()
        raise ValueError(s)

    def for_(self, s, sc, loop, caller):
        _t, target, it, body, else_, flt, recursive = s

        def render(items, outer_loop):
            if isinstance(items, Undef):
                items = []
            if isinstance(items, (int, bool)) or isinstance(items, (NsV, MacroV)):
                raise RefError("TypeError")
            if isinstance(items, str):
                items = list(items)
            if isinstance(items, dict):
                items = list(items)
            if flt is not None:
                kept = []
                for x in items:
                    ts = Scope(sc)
                    ts.vars[target] = x
                    if self.ev(flt, ts, outer_loop, caller):
                        kept.append(x)
                items = kept
            ls = LoopState()
            ls.render = (lambda children: render(children, ls)) if recursive else None
            out = []
            rendered = False
            for x in items:
                rendered = True
                ls.index += 1
                inner = Scope(sc)
                inner.vars[target] = x
                try:
                    out.append(self.body_collect(body, inner, ls, caller, out))
                except Break:
                    break
                except Continue:
                    continue
            if not rendered and else_ is not None:
                out.append(self.body(else_, Scope(sc), outer_loop, caller))
            return "".join(out)

        return render(self.ev(it, sc, loop, caller), loop)

    def body_collect(self, stmts, sc, loop, caller, sink):
        """like body(), but output produced before a break / continue is kept"""
        parts = []
        try:
            for st in stmts:
                parts.append(self.stmt(st, sc, loop, caller))
        except (Break, Continue):
            sink.append("".join(parts))
            raise
        return "".join(parts)


def reference(prog, data):
    import copy
    try:
        return ("ok", Interp(copy.deepcopy(data)).body(prog, Scope(None, copy.deepcopy(data))))
    except RefError as ex:
        return ("error", ex.cls)
    except RecursionError:
        return ("error", "RecursionError")


# break / continue inside nested non-loop constructs (if) propagate through body(): output collected so far inside an
# `if` body would be lost by the exception; the generator therefore emits break / continue only as the LAST statement
# of an `if` body directly inside a loop body, after which nothing of that `if` remains to be rendered.  Output that
# precedes the `if` in the loop body is kept by body_collect; output inside the if before the break is kept here:
_orig_stmt = Interp.stmt


def _stmt_keep(self, s, sc, loop, caller):
    if s[0] == "if":
        def run(b):
            parts = []
            try:
                for st in b:
                    parts.append(self.stmt(st, sc, loop, caller))
            except (Break, Continue) as ex:
                ex.pending = "".join(parts) + getattr(ex, "pending", "")
                raise
            return "".join(parts)
        if self.ev(s[1], sc, loop, caller):
            return run(s[2])
        for test, b in s[3]:
            if self.ev(test, sc, loop, caller):
                return run(b)
        if s[4] is not None:
            return run(s[4])
        return ""
    return _orig_stmt(self, s, sc, loop, caller)


Interp.stmt = _stmt_keep


def _body_collect(self, stmts, sc, loop, caller, sink):
    parts = []
    try:
        for st in stmts:
            parts.append(self.stmt(st, sc, loop, caller))
    except (Break, Continue) as ex:
        sink.append("".join(parts) + getattr(ex, "pending", ""))
        raise
    return "".join(parts)


Interp.body_collect = _body_collect


# ------------------------------------------------------------------ real renderer

_env = None


def env():
    global _env
    if _env is None:
        import jinja2
        _env = jinja2.Environment(extensions=["jinja2.ext.loopcontrols"], cache_size=0)
    return _env


def real(src, data):
    import copy
    import jinja2
    try:
        return ("ok", env().from_string(src).render(copy.deepcopy(data)))
    except jinja2.TemplateSyntaxError as ex:
        return ("syntax", str(ex))
    except RecursionError:
        return ("error", "RecursionError")
    except Exception as ex:
        return ("error", type(ex).__name__)


# ------------------------------------------------------------------ generator

DATA = [
    {},
    {"a": 7, "b": 8, "c": 9},
    {"a": [1, 2], "b": 0, "tree": 1},
    {"a": 5, "c": "s"},
]
TREE = [{"v": 1, "c": [{"v": 2, "c": []}, {"v": 3, "c": [{"v": 4, "c": []}]}]}, {"v": 5, "c": []}]


class Gen:
    def __init__(self, rng, max_depth=3, max_stmts=4):
        self.rng, self.max_depth, self.max_stmts = rng, max_depth, max_stmts

    def var(self):
        return self.rng.choice(VARS)

    def expr(self, in_loop=False, recursive_target=None):
        r = self.rng.random()
        if r < 0.55:
            return ["var", self.var()]
        if r < 0.7:
            return ["const", self.rng.choice([0, 1, 2, 3])]
        if r < 0.8:
            return ["add", ["var", self.var()], 1]
        if r < 0.88:
            return ["call", self.rng.choice(MACROS), [["var", self.var()] for _ in range(self.rng.choice([0, 0, 1, 2]))]]
        if r < 0.94 and in_loop:
            return ["loopidx"]
        return ["attr", ["var", NS[0]], "v"]

    def test(self):
        r = self.rng.random()
        if r < 0.5:
            return ["var", self.var()]
        if r < 0.8:
            return ["defined", self.var()]
        return ["const", self.rng.choice([0, 1])]

    def body(self, depth, in_loop=False, loop_ctl=False, in_closure=False, allow_loopidx=False, min_stmts=1):
        n = self.rng.randint(min_stmts, self.max_stmts)
        return [self.stmt(depth, in_loop, loop_ctl, in_closure, allow_loopidx) for _ in range(n)]

    def stmt(self, depth, in_loop, loop_ctl, in_closure, allow_loopidx):
        r = self.rng.random()
        deep = depth >= self.max_depth
        if r < 0.22 or (deep and r < 0.6):
            return ["out", self.expr(allow_loopidx)]
        if r < 0.42 or deep:
            return ["set", self.var(), self.expr(allow_loopidx)]
        if r < 0.52:
            test = self.test()
            body = self.body(depth + 1, in_loop, False, in_closure, allow_loopidx)
            if loop_ctl and self.rng.random() < 0.5:
                body.append([self.rng.choice(["break", "continue"])])
            elifs = [(self.test(), self.body(depth + 1, in_loop, False, in_closure, allow_loopidx))] if self.rng.random() < 0.3 else []
            else_ = self.body(depth + 1, in_loop, False, in_closure, allow_loopidx) if self.rng.random() < 0.4 else None
            return ["if", test, body, elifs, else_]
        if r < 0.64:
            recursive = self.rng.random() < 0.15
            if recursive:
                it = ["var", "tree"]
                body = [["out", ["attr", ["var", self.var_target()], "v"]]] + self.body(depth + 1, True, False, in_closure, True)
                target = self._t
                body.append(["text", "("])
                body.append(["out", ["recurse", ["attr", ["var", target], "c"]]])
                body.append(["text", ")"])
                return ["for", target, it, body, None, None, True]
            it = self.rng.choice([["list", [1, 2]], ["list", []], ["var", self.var()], ["list", [0, 3, 0]]])
            target = self.var()
            else_ = self.body(depth + 1, in_loop, False, in_closure, False) if self.rng.random() < 0.35 else None
            flt = ["var", target] if self.rng.random() < 0.25 else None
            body = self.body(depth + 1, True, True, in_closure, True)
            return ["for", target, it, body, else_, flt, False]
        if r < 0.72:
            binds = [(self.var(), self.expr(allow_loopidx)) for _ in range(self.rng.choice([0, 1, 2]))]
            if len({n for n, _e in binds}) != len(binds):
                binds = binds[:1]
            return ["with", binds, self.body(depth + 1, in_loop, False, in_closure, allow_loopidx)]
        if r < 0.80:
            ps = []
            for p in self.rng.sample(VARS, self.rng.choice([0, 1, 2])):
                ps.append((p, self.expr() if (ps and ps[-1][1] is not None) or self.rng.random() < 0.4 else None))
            if self.rng.random() < 0.25:
                body = self.body(depth + 1, False, False, True, False) + [["out", ["call", "caller", []]]] + self.body(depth + 1, False, False, True, False, 0)
                return ["macro", CALLER_MACROS[0], ps, body]
            return ["macro", self.rng.choice(MACROS), ps, self.body(depth + 1, False, False, True, False)]
        if r < 0.85:
            return ["callblock", CALLER_MACROS[0], [["var", self.var()] for _ in range(self.rng.choice([0, 0, 1]))],
                    self.body(depth + 1, False, False, True, False)]
        if r < 0.90:
            return ["filter", "upper", self.body(depth + 1, in_loop, False, in_closure, allow_loopidx)]
        if r < 0.94:
            return ["setblock", self.var(), self.body(depth + 1, in_loop, False, in_closure, allow_loopidx)]
        if r < 0.97:
            return ["nsnew", NS[0], self.rng.choice([0, 1])]
        return ["nsset", NS[0], self.rng.choice([["add", ["attr", ["var", NS[0]], "v"], 1], ["var", self.var()], ["const", 2]])]

    def var_target(self):
        self._t = self.var()
        return self._t


def programs(seed, count, max_depth=3, max_stmts=4):
    rng = random.Random(seed)
    g = Gen(rng, max_depth, max_stmts)
    for _ in range(count):
        yield g.body(0, min_stmts=2)


def data_for(d):
    d = dict(d)
    if d.get("tree") == 1:
        d["tree"] = TREE
    return d


# ------------------------------------------------------------------ classification of disagreements

def has_for_else_loopcontrol(prog):
    """a loop with an else branch whose own body can `break` / `continue` (DESIGN F11, owned by C07.emit.else)"""
    def own_ctl(body):
        for s in body:
            if s[0] in ("break", "continue"):
                return True
            if s[0] == "if" and (own_ctl(s[2]) or any(own_ctl(b) for _c, b in s[3]) or (s[4] is not None and own_ctl(s[4]))):
                return True
        return False

    def walk(body):
        for s in body:
            t = s[0]
            if t == "for":
                if s[4] is not None and own_ctl(s[3]):
                    return True
                if walk(s[3]) or (s[4] is not None and walk(s[4])):
                    return True
            elif t == "if":
                if walk(s[2]) or any(walk(b) for _c, b in s[3]) or (s[4] is not None and walk(s[4])):
                    return True
            elif t in ("with", "filter", "setblock"):
                if walk(s[2]):
                    return True
            elif t in ("macro", "callblock"):
                if walk(s[3]):
                    return True
        return False

    return walk(prog)


def check_program(prog, data, renaming_index=None):
    """-> list of (obligation, key, detail) disagreements for one program on one data assignment"""
    data = data_for(data)
    src = source(prog)
    base = real(src, data)
    out = []
    if base[0] == "syntax":
        return [("generator", "syntax", f"{src!r}: {base[1]}")]
    # (a) alpha-renaming
    for i, rn in enumerate(RENAMINGS):
        if renaming_index is not None and i != renaming_index % len(RENAMINGS):
            continue
        r2 = real(source(prog, rn), rename_data(data, rn))
        if r2 != base:
            out.append(("alpha", f"{src}", f"template {src!r} data {data!r} renders {base!r}; renamed by {rn!r} it renders {r2!r}"))
            break
    # (b) reference interpreter
    want = reference(prog, data)
    if want != base:
        key = src
        norm = real(source(dead_reads(prog)), data)
        if norm == want:
            key = "dead-read-changes-output"
        elif has_for_else_loopcontrol(prog):
            key = "for-else-loopcontrol"
        out.append(("reference", key, f"template {src!r} data {data!r}: real {base!r}, scoping rules {want!r}"))
    return out


# ------------------------------------------------------------------ shrinking (readable witnesses)

def _paths(body, prefix=()):
    for i, s in enumerate(body):
        yield prefix + (i,)
        t = s[0]
        if t in ("setblock", "with", "filter"):
            yield from _paths(s[2], prefix + (i, 2))
        elif t in ("macro", "callblock"):
            yield from _paths(s[3], prefix + (i, 3))
        elif t == "for":
            yield from _paths(s[3], prefix + (i, 3))
            if s[4] is not None:
                yield from _paths(s[4], prefix + (i, 4))
        elif t == "if":
            yield from _paths(s[2], prefix + (i, 2))
            for j, (_c, b) in enumerate(s[3]):
                yield from _paths(b, prefix + (i, 3, j, 1))
            if s[4] is not None:
                yield from _paths(s[4], prefix + (i, 4))


def _remove(prog, path):
    import copy
    p = copy.deepcopy(prog)
    cur = p
    for k in path[:-1]:
        cur = cur[k]
    del cur[path[-1]]
    return p


def _unwrap(prog, path):
    """replace a compound statement by its (first) body"""
    import copy
    p = copy.deepcopy(prog)
    cur = p
    for k in path[:-1]:
        cur = cur[k]
    s = cur[path[-1]]
    if s[0] in ("if", "with", "filter"):
        cur[path[-1]:path[-1] + 1] = s[2]
        return p
    return None


def shrink(prog, data, still_fails, budget=400):
    """greedy statement removal keeping `still_fails(prog)` true"""
    changed = True
    while changed and budget > 0:
        changed = False
        for path in sorted(_paths(prog), key=lambda p: (-len(p), p)):
            for cand in (_remove(prog, path), _unwrap(prog, path)):
                budget -= 1
                if cand is None or not cand:
                    continue
                try:
                    ok = still_fails(cand)
                except Exception:
                    ok = False
                if ok:
                    prog = cand
                    changed = True
                    break
            if changed or budget <= 0:
                break
    return prog


def disagreement(prog, data, obligation, renaming_index=None):
    """the (obligation, key class) disagreements of one program, restricted"""
    return {(ob, key if key in ("dead-read-changes-output", "for-else-loopcontrol") else "other")
            for ob, key, _d in check_program(prog, data, renaming_index) if ob == obligation}


# fixed family from the documentation (docs/templates.rst) and the property statement: (template, data, output)
DOC_FAMILY = [
    ("{% set iterated = false %}{% for item in seq %}{{ item }}{% set iterated = true %}{% endfor %}{% if not iterated %} did not iterate{% endif %}", {"seq": [1, 2]}, "12 did not iterate"),
    ("{% for item in seq %}{{ item }}{% else %}did not iterate{% endfor %}", {"seq": []}, "did not iterate"),
    ("{% set ns = namespace(found=false) %}{% for item in items %}{% if item > 1 %}{% set ns.found = true %}{% endif %}* {{ item }}{% endfor %} {{ ns.found }}", {"items": [1, 2]}, "* 1* 2 True"),
    ("{% with %}{% set foo = 42 %}{{ foo }}{% endwith %}|{{ foo }}", {}, "42|"),
    ("{% with foo = 42 %}{{ foo }}{% endwith %}|{{ foo }}", {"foo": 1}, "42|1"),
    ("{% with a = 1, b = a %}{{ b }}{% endwith %}", {"a": 7}, "7"),
    ("{% set x = 1 %}{% if true %}{% set x = 2 %}{% endif %}{{ x }}", {}, "2"),
    ("{% set x = 1 %}{% for i in [1] %}{% set x = 2 %}{{ x }}{% endfor %}{{ x }}", {}, "21"),
    ("{% set x = 1 %}{% macro m() %}{{ x }}{% endmacro %}{% set x = 2 %}{{ m() }}", {}, "2"),
    ("{% set x = 1 %}{% macro m() %}{% set x = 5 %}{{ x }}{% endmacro %}{{ m() }}{{ x }}", {}, "51"),
    ("{% set x = 1 %}{% filter upper %}{% set x = 'a' %}{{ x }}{% endfilter %}{{ x }}", {}, "A1"),
    ("{% set x = 1 %}{% set y %}{% set x = 2 %}{{ x }}{% endset %}{{ y }}{{ x }}", {}, "21"),
    ("{% macro k() %}[{{ caller() }}]{% endmacro %}{% set x = 1 %}{% call k() %}{% set x = 2 %}{{ x }}{% endcall %}{{ x }}", {}, "[2]1"),
    ("{% for x in [1, 2] %}{% if x == 1 %}{% set y = x %}{% endif %}{{ y }}|{% endfor %}", {"y": 9}, "1|9|"),
    ("{% for x in xs recursive %}{{ x.v }}{% if x.c %}({{ loop(x.c) }}){% endif %}{% endfor %}", {"xs": [{"v": 1, "c": [{"v": 2, "c": []}]}]}, "1(2)"),
    ("{% for x in [1, 2, 3] if x != 2 %}{{ x }}{% endfor %}", {}, "13"),
    ("{% for a in [1] %}{% for a in [2] %}{{ a }}{% endfor %}{{ a }}{% endfor %}{{ a }}", {"a": 0}, "210"),
    ("{% set a = 1 %}{% for i in [1, 2] %}{{ a }}{% set a = a + 1 %}{{ a }}{% endfor %}{{ a }}", {}, "12121"),
    ("{% macro m(a, b=a) %}{{ a }}{{ b }}{% endmacro %}{{ m(1) }}{{ m(1, 2) }}", {"a": 9}, "1112"),
    ("{% if false %}{% set a = 1 %}{% endif %}{{ a }}", {"a": 7}, "7"),
]


def doc_family_problems():
    import jinja2
    e = jinja2.Environment()
    problems = []
    for src, data, want in DOC_FAMILY:
        try:
            got = e.from_string(src).render(data)
        except Exception as ex:
            got = f"{type(ex).__name__}: {ex}"
        if got != want:
            problems.append(f"{src!r} with {data!r}: rendered {got!r}, documented scoping gives {want!r}")
    return problems
